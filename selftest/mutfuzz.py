"""Mutation fuzz of the proof layer: small BREAKING edits (relational operator, +/-, integer constant + 1) applied in memory to
one function under contract at a time; every task on that function is run against the mutant.  Outcome per mutant:
killed (some obligation refuted), undecided (no refutation, something unsupported / unknown) or survived (every task proved).
Survivors are either equivalent mutants (messages, progress bars, dead code) or places where the contracts are weaker than
the code - the list is the work queue for strengthening them.  This is a measurement, not a registered check."""
import sys; sys.path.insert(0, '/verif')
import ast, importlib, json, os, random, time
from multiprocessing import Pool

PROPS = [f"C{i:02d}" for i in range(1, 21)]
CMP = {ast.Lt: ast.LtE, ast.LtE: ast.Lt, ast.Gt: ast.GtE, ast.GtE: ast.Gt, ast.Eq: ast.NotEq, ast.NotEq: ast.Eq}
BIN = {ast.Add: ast.Sub, ast.Sub: ast.Add}


def find_function(tree, funcname, clsname):
    target = None
    for node in ast.walk(tree):
        if isinstance(node, ast.ClassDef) and clsname and node.name == clsname:
            for c in node.body:
                if isinstance(c, ast.FunctionDef) and c.name == funcname:
                    target = c
        if not clsname and isinstance(node, ast.FunctionDef) and node.name == funcname and target is None:
            target = node
    return target


def sites(fdef):
    """(kind, ordinal) of every mutation site, in ast.walk order; code inside print / tqdm calls, raise statements and
    f-strings is skipped (messages)"""
    skip = set()
    for n in ast.walk(fdef):
        if isinstance(n, ast.Raise) or isinstance(n, ast.JoinedStr) or isinstance(n, ast.Assert) or \
                (isinstance(n, ast.Call) and isinstance(n.func, ast.Name) and n.func.id in ("print", "tqdm")):
            for x in ast.walk(n):
                skip.add(id(x))
    out = []
    k = 0
    for n in ast.walk(fdef):
        if id(n) in skip:
            k += 1
            continue
        if isinstance(n, ast.Compare) and len(n.ops) == 1 and type(n.ops[0]) in CMP:
            out.append(("cmp", k, n.lineno))
        elif isinstance(n, ast.BinOp) and type(n.op) in BIN:
            out.append(("bin", k, n.lineno))
        elif isinstance(n, ast.Constant) and isinstance(n.value, int) and not isinstance(n.value, bool) and 0 <= n.value <= 16:
            out.append(("const", k, n.lineno))
        k += 1
    return out


def mutate(src, funcname, clsname, ordinal):
    tree = ast.parse(src)
    fdef = find_function(tree, funcname, clsname)
    if fdef is None:
        return None
    k = 0
    for n in ast.walk(fdef):
        if k == ordinal:
            if isinstance(n, ast.Compare):
                n.ops = [CMP[type(n.ops[0])]()]
            elif isinstance(n, ast.BinOp):
                n.op = BIN[type(n.op)]()
            elif isinstance(n, ast.Constant) and isinstance(n.value, int):
                n.value = n.value + 1
            else:
                return None
            ast.fix_missing_locations(tree)
            return ast.unparse(tree)
        k += 1
    return None


def job(a):
    qual, kind, ordinal, lineno, tasks = a
    from pyvc.repo import Repo
    from pyvc.task import run_task
    rp0 = Repo()
    r = rp0.func(qual)
    fdef, modqual, clsqual = r
    path = modqual.replace(".", "/") + ".py"
    if not os.path.exists(os.path.join(rp0.root, path)):
        path = modqual.replace(".", "/") + "/__init__.py"
    cls = clsqual.rsplit(".", 1)[1] if clsqual else None

    def ap(s):
        out = mutate(s, fdef.name, cls, ordinal)
        if out is None:
            raise RuntimeError("n/a")
        return out
    try:
        rp = Repo(overrides={path: ap})
    except RuntimeError:
        return None
    src_line = ast.unparse(find_function(ast.parse(open(os.path.join(rp0.root, path)).read()), fdef.name, cls)).splitlines()
    verdict = "survived"
    detail = []
    t0 = time.time()
    for prop, tname in tasks:
        M = importlib.import_module(f"props.{prop}")
        t = [x for x in M.tasks('quick') if x.name == tname][0]
        res = run_task(t, rp, stop_on_refuted=True) if "stop_on_refuted" in run_task.__code__.co_varnames else run_task(t, rp)
        if any(o['status'] == 'refuted' for o in res.obligs):
            verdict = "killed"
            detail = [tname]
            break
        if res.unsupported or res.errors or any(o['status'] != 'proved' for o in res.obligs):
            verdict = "undecided"
            detail.append(tname)
    return {"qual": qual, "kind": kind, "ordinal": ordinal, "line": lineno, "verdict": verdict, "tasks": detail[:3], "s": round(time.time() - t0, 1)}


def main():
    from pyvc.repo import Repo
    rp = Repo()
    rng = random.Random(int(sys.argv[1]) if len(sys.argv) > 1 else 0)
    per = int(sys.argv[2]) if len(sys.argv) > 2 else 4
    byqual = {}
    for prop in PROPS:
        M = importlib.import_module(f"props.{prop}")
        for t in M.tasks('quick'):
            own = getattr(t, "qual", None)
            try:
                covered = list(t.functions()) + list(getattr(t, "inline", None) or ())
            except Exception:
                covered = [own] if own else []
            for q in dict.fromkeys([own] + covered):
                if not q or rp.func(q) is None:
                    continue
                lst = byqual.setdefault(q, [])
                if not any(n == t.name for _, n in lst):
                    # tasks ON the function first, then tasks that execute it as part of something else (round trips)
                    (lst.insert(0, (prop, t.name)) if q == own else lst.append((prop, t.name)))
    jobs = []
    for q, tasks in sorted(byqual.items()):
        ss = sites(rp.func(q)[0])
        rng.shuffle(ss)
        for kind, k, ln in ss[:per]:
            jobs.append((q, kind, k, ln, tasks[:14]))
    print("functions", len(byqual), "mutants", len(jobs), flush=True)
    out = []
    with Pool(12, maxtasksperchild=4) as p:
        for r in p.imap_unordered(job, jobs):
            if r:
                out.append(r)
    n = len(out)
    k = sum(1 for r in out if r["verdict"] == "killed")
    u = sum(1 for r in out if r["verdict"] == "undecided")
    s_ = [r for r in out if r["verdict"] == "survived"]
    print(f"mutants {n}: killed {k}, undecided {u}, survived {len(s_)}")
    for r in sorted(s_, key=lambda r: (r["qual"], r["line"])):
        print("SURVIVED", r["qual"], r["kind"], "line-in-function", r["line"])
    json.dump(out, open(os.environ.get("MUTFUZZ_OUT", "/var/tmp/mutfuzz.json"), "w"), indent=1)


if __name__ == "__main__":
    main()
