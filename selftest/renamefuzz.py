"""Rename fuzz: behaviour-preserving renaming of one local variable of a function under contract must never produce a
refuted obligation or a checker error (undecided is fine)."""
import sys; sys.path.insert(0, '/verif')
import ast, importlib, time, json, os, random
from multiprocessing import Pool

PROPS = [f"C{i:02d}" for i in range(1, 21)]


def rename_in_function(src, funcname, clsname, old, new):
    tree = ast.parse(src)
    target = None
    for node in ast.walk(tree):
        if isinstance(node, ast.ClassDef) and clsname and node.name == clsname:
            for c in node.body:
                if isinstance(c, ast.FunctionDef) and c.name == funcname:
                    target = c
        if not clsname and isinstance(node, ast.FunctionDef) and node.name == funcname and target is None:
            target = node
    if target is None:
        return None
    # do not rename parameters, globals or names used in nested scopes' own parameters
    params = {a.arg for a in target.args.args + target.args.kwonlyargs + target.args.posonlyargs}
    if old in params:
        return None
    hit = 0
    for n in ast.walk(target):
        if isinstance(n, ast.Name) and n.id == old:
            n.id = new
            hit += 1
        if isinstance(n, ast.ExceptHandler) and n.name == old:
            n.name = new
            hit += 1
        if isinstance(n, (ast.Global, ast.Nonlocal)) and old in n.names:
            return None
    if not hit:
        return None
    return ast.unparse(tree)


def job(a):
    prop, tname, qual, old = a
    from pyvc.repo import Repo
    from pyvc.task import run_task
    from pyvc.exec import assigned_names
    M = importlib.import_module(f"props.{prop}")
    t = [x for x in M.tasks('quick') if x.name == tname][0]
    rp0 = Repo()
    r = rp0.func(qual)
    if r is None:
        return None
    fdef, modqual, clsqual = r
    path = modqual.replace(".", "/") + ".py"
    if not os.path.exists(os.path.join(rp0.root if hasattr(rp0, "root") else "/repo", path)):
        path = modqual.replace(".", "/") + "/__init__.py"
    cls = clsqual.rsplit(".", 1)[1] if clsqual else None
    new = old + "_rn"

    def ap(s):
        out = rename_in_function(s, fdef.name, cls, old, new)
        if out is None:
            raise RuntimeError("rename not applicable")
        return out
    try:
        rp = Repo(overrides={path: ap})
    except RuntimeError:
        return None
    t0 = time.time()
    try:
        res = run_task(t, rp)
    except RuntimeError:
        return None
    bad = [o['name'] for o in res.obligs if o['status'] == 'refuted']
    return {"prop": prop, "task": tname, "qual": qual, "local": old, "refuted": bad, "errors": [e[-300:] for e in res.errors][:1],
            "unsup": res.unsupported[:1], "s": round(time.time() - t0, 1)}


def main():
    from pyvc.repo import Repo
    from pyvc.exec import assigned_names
    rp = Repo()
    rng = random.Random(int(sys.argv[1]) if len(sys.argv) > 1 else 0)
    per = int(sys.argv[2]) if len(sys.argv) > 2 else 3
    jobs, seen = [], {}
    for prop in PROPS:
        M = importlib.import_module(f"props.{prop}")
        for t in M.tasks('quick'):
            q = getattr(t, "qual", None)
            if not q:
                continue
            r = rp.func(q)
            if r is None:
                continue
            key = (q, type(t).__name__)
            if seen.get(key, 0) >= 1:
                continue
            seen[key] = seen.get(key, 0) + 1
            params = {a.arg for a in r[0].args.args}
            names = sorted(n for n in assigned_names(r[0]) if n not in params and not n.startswith("_"))
            rng.shuffle(names)
            for n in names[:per]:
                jobs.append((prop, t.name, q, n))
    print("jobs", len(jobs), flush=True)
    out = []
    with Pool(12, maxtasksperchild=8) as p:
        for r in p.imap_unordered(job, jobs):
            if r is None:
                continue
            out.append(r)
            if r["refuted"] or r["errors"]:
                print("ALARM", json.dumps(r)[:600], flush=True)
    und = sum(1 for r in out if r["unsup"])
    print(f"done: {len(out)} renames, {sum(1 for r in out if r['refuted'])} with refuted obligations, "
          f"{sum(1 for r in out if r['errors'])} with errors, {und} undecided", flush=True)
    json.dump(out, open(os.environ.get("RENAMEFUZZ_OUT", "/var/tmp/renamefuzz.json"), "w"), indent=1)
    sys.exit(1 if any(r["refuted"] or r["errors"] for r in out) else 0)


if __name__ == "__main__":
    main()
