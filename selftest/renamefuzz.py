"""Rename fuzz: behaviour-preserving renaming of one local variable of a function under contract must never produce a
refuted obligation or a checker error (undecided is fine)."""
import sys; sys.path.insert(0, '/verif')
import ast, importlib, time, json, os, random
from multiprocessing import Pool

PROPS = [f"C{i:02d}" for i in range(1, 21)]
MODE = os.environ.get("FUZZ_MODE", "rename")         # rename | ifswap | uncomp


def rename_in_function(src, funcname, clsname, old, new):
    tree = ast.parse(src)
    target = None
    for node in ast.walk(tree):
        if isinstance(node, ast.ClassDef) and clsname and node.name == clsname:
            for c in node.body:
                if isinstance(c, ast.FunctionDef) and c.name == funcname:
                    target = c
        if not clsname and isinstance(node, ast.FunctionDef) and node.name == funcname and target is None:
            target = node
    if target is None:
        return None
    # do not rename parameters, globals or names used in nested scopes' own parameters
    params = {a.arg for a in target.args.args + target.args.kwonlyargs + target.args.posonlyargs}
    if old in params:
        return None
    hit = 0
    for n in ast.walk(target):
        if isinstance(n, ast.Name) and n.id == old:
            n.id = new
            hit += 1
        if isinstance(n, ast.ExceptHandler) and n.name == old:
            n.name = new
            hit += 1
        if isinstance(n, (ast.Global, ast.Nonlocal)) and old in n.names:
            return None
    if not hit:
        return None
    return ast.unparse(tree)


def swap_if_in_function(src, funcname, clsname, ordinal):
    """the ordinal-th `if c: A else: B` (with an else that is not an elif chain) of the function rewritten as
    `if not (c): B else: A` - behaviour-preserving by construction"""
    tree = ast.parse(src)
    target = None
    for node in ast.walk(tree):
        if isinstance(node, ast.ClassDef) and clsname and node.name == clsname:
            for c in node.body:
                if isinstance(c, ast.FunctionDef) and c.name == funcname:
                    target = c
        if not clsname and isinstance(node, ast.FunctionDef) and node.name == funcname and target is None:
            target = node
    if target is None:
        return None
    ifs = [n for n in ast.walk(target) if isinstance(n, ast.If) and n.orelse and not (len(n.orelse) == 1 and isinstance(n.orelse[0], ast.If))]
    if ordinal >= len(ifs):
        return None
    n = ifs[ordinal]
    n.test = ast.UnaryOp(op=ast.Not(), operand=n.test)
    n.body, n.orelse = n.orelse, n.body
    ast.fix_missing_locations(tree)
    return ast.unparse(tree)


def uncomp_in_function(src, funcname, clsname, ordinal):
    """the ordinal-th `x = [e for t in it (if c)]` of the function rewritten as `x = []` + an append loop (loop variables get
    fresh names, so nothing leaks into the function's scope that was not there before)"""
    tree = ast.parse(src)
    target = None
    for node in ast.walk(tree):
        if isinstance(node, ast.ClassDef) and clsname and node.name == clsname:
            for c in node.body:
                if isinstance(c, ast.FunctionDef) and c.name == funcname:
                    target = c
        if not clsname and isinstance(node, ast.FunctionDef) and node.name == funcname and target is None:
            target = node
    if target is None:
        return None
    sites = []
    for parent in ast.walk(target):
        for fld in ("body", "orelse", "finalbody"):
            b = getattr(parent, fld, None)
            if isinstance(b, list):
                for i, st in enumerate(b):
                    if isinstance(st, ast.Assign) and len(st.targets) == 1 and isinstance(st.targets[0], ast.Name) and \
                            isinstance(st.value, ast.ListComp) and len(st.value.generators) == 1 and not st.value.generators[0].is_async:
                        sites.append((b, i))
    if ordinal >= len(sites):
        return None
    b, i = sites[ordinal]
    st = b[i]
    comp = st.value
    g = comp.generators[0]
    x = st.targets[0].id
    # the comprehension must not read x itself (x = [f(x, i) for i in ...])
    if any(isinstance(n, ast.Name) and n.id == x for n in ast.walk(comp)):
        return None
    names = {n.id for n in ast.walk(g.target) if isinstance(n, ast.Name)}
    ren = {n: f"_c{ordinal}_{n}" for n in names}
    for part in [comp.elt, g.target] + list(g.ifs):
        for n in ast.walk(part):
            if isinstance(n, ast.Name) and n.id in ren:
                n.id = ren[n.id]
    app = ast.Expr(ast.Call(func=ast.Attribute(value=ast.Name(id=x, ctx=ast.Load()), attr="append", ctx=ast.Load()), args=[comp.elt], keywords=[]))
    inner = [app]
    for c in reversed(g.ifs):
        inner = [ast.If(test=c, body=inner, orelse=[])]
    loop = ast.For(target=g.target, iter=g.iter, body=inner, orelse=[])
    for n in ast.walk(loop.target):
        if isinstance(n, ast.Name):
            n.ctx = ast.Store()
    b[i:i + 1] = [ast.Assign(targets=[ast.Name(id=x, ctx=ast.Store())], value=ast.List(elts=[], ctx=ast.Load())), loop]
    ast.fix_missing_locations(tree)
    return ast.unparse(tree)


def job(a):
    prop, tname, qual, old = a
    from pyvc.repo import Repo
    from pyvc.task import run_task
    from pyvc.exec import assigned_names
    M = importlib.import_module(f"props.{prop}")
    t = [x for x in M.tasks('quick') if x.name == tname][0]
    rp0 = Repo()
    r = rp0.func(qual)
    if r is None:
        return None
    fdef, modqual, clsqual = r
    path = modqual.replace(".", "/") + ".py"
    if not os.path.exists(os.path.join(rp0.root if hasattr(rp0, "root") else "/repo", path)):
        path = modqual.replace(".", "/") + "/__init__.py"
    cls = clsqual.rsplit(".", 1)[1] if clsqual else None
    new = (old + "_rn") if isinstance(old, str) else None

    def ap(s):
        if isinstance(old, int) and MODE == "uncomp":
            out = uncomp_in_function(s, fdef.name, cls, old)
        elif isinstance(old, int):
            out = swap_if_in_function(s, fdef.name, cls, old)
        else:
            out = rename_in_function(s, fdef.name, cls, old, new)
        if out is None:
            raise RuntimeError("rename not applicable")
        return out
    try:
        rp = Repo(overrides={path: ap})
    except RuntimeError:
        return None
    t0 = time.time()
    try:
        res = run_task(t, rp)
    except RuntimeError:
        return None
    bad = [o['name'] for o in res.obligs if o['status'] == 'refuted']
    return {"prop": prop, "task": tname, "qual": qual, "local": old, "refuted": bad, "errors": [e[-300:] for e in res.errors][:1],
            "unsup": res.unsupported[:1], "s": round(time.time() - t0, 1)}


def main():
    from pyvc.repo import Repo
    from pyvc.exec import assigned_names
    rp = Repo()
    rng = random.Random(int(sys.argv[1]) if len(sys.argv) > 1 else 0)
    per = int(sys.argv[2]) if len(sys.argv) > 2 else 3
    jobs, seen = [], {}
    for prop in PROPS:
        M = importlib.import_module(f"props.{prop}")
        for t in M.tasks('quick'):
            q = getattr(t, "qual", None)
            if not q:
                continue
            r = rp.func(q)
            if r is None:
                continue
            key = (q, type(t).__name__)
            if seen.get(key, 0) >= 1:
                continue
            seen[key] = seen.get(key, 0) + 1
            params = {a.arg for a in r[0].args.args}
            names = sorted(n for n in assigned_names(r[0]) if n not in params and not n.startswith("_"))
            rng.shuffle(names)
            if MODE == "uncomp":
                ncomp = len([n for n in ast.walk(r[0]) if isinstance(n, ast.Assign) and isinstance(n.value, ast.ListComp)])
                for k in range(min(ncomp, per)):
                    jobs.append((prop, t.name, q, k))
            elif MODE == "ifswap":
                nif = len([n for n in ast.walk(r[0]) if isinstance(n, ast.If) and n.orelse and
                           not (len(n.orelse) == 1 and isinstance(n.orelse[0], ast.If))])
                for k in range(min(nif, per)):
                    jobs.append((prop, t.name, q, k))
            else:
                for n in names[:per]:
                    jobs.append((prop, t.name, q, n))
    print("jobs", len(jobs), flush=True)
    out = []
    with Pool(12, maxtasksperchild=8) as p:
        for r in p.imap_unordered(job, jobs):
            if r is None:
                continue
            out.append(r)
            if r["refuted"] or r["errors"]:
                print("ALARM", json.dumps(r)[:600], flush=True)
    und = sum(1 for r in out if r["unsup"])
    print(f"done: {len(out)} renames, {sum(1 for r in out if r['refuted'])} with refuted obligations, "
          f"{sum(1 for r in out if r['errors'])} with errors, {und} undecided", flush=True)
    json.dump(out, open(os.environ.get("RENAMEFUZZ_OUT", "/var/tmp/renamefuzz.json"), "w"), indent=1)
    sys.exit(1 if any(r["refuted"] or r["errors"] for r in out) else 0)


if __name__ == "__main__":
    main()
