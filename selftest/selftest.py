"""Differential self-test of the PyVC executor and its library models against CPython + numpy.

Every snippet below is ordinary Python/numpy code.  It is run (a) natively and (b) through pyvc.exec.Exec - the same
interpreter, value domain and library contracts the proofs use - on the same random CONCRETE inputs; the results must agree.
This samples the trusted base listed in the evidence files (slice.indices, floor division / modulo, numpy indexing, reshape
order 'F', repeat, linspace, isclose, argsort/sort, where, min/max, masked and fancy assignment, unique, gcd, ...).  It is not a
proof of the models; it is the guard against a model that is plainly wrong.

usage: python -m selftest.selftest [--n 200] [--seed 0]      exit 0 = all snippets agree on all samples, 1 = a disagreement
"""
import ast
import itertools
import random
import sys
import textwrap

import numpy as np
import z3

SNIPPETS = textwrap.dedent('''
    def s_slice_indices(n, a, b, c):
        return list(range(n))[a:b:c]

    def s_slice_len(n, a, b, c):
        return len(range(*slice(a, b, c).indices(n)))

    def s_floordiv_mod(a, b):
        return [a // b, a % b]

    def s_pow2(e):
        return 2 ** e

    def s_reshape_f(a, b, c):
        x = np.arange(a * b * c).reshape((a, b, c), order="F")
        return [x[a - 1, 0, c - 1], x[0, b - 1, 0], x[a // 2, b // 2, c // 2]]

    def s_reshape_f_slice(a, b, nc, k):
        x = np.arange(a * b * nc).reshape((a, b, nc), order="F")
        y = x[..., k]
        return [y[0, 0], y[a - 1, b - 1], y.shape[0], y.shape[1]]

    def s_ellipsis_step(a, nc, st):
        x = np.arange(a * nc).reshape((a, nc), order="F")
        y = x[..., ::st]
        return [y.shape[1], y[a - 1, y.shape[1] - 1]]

    def s_repeat(a, b, f, i, j):
        x = np.arange(a * b).reshape(a, b)
        e = np.repeat(x, f).reshape(a, b * f)
        e = np.repeat(e, f, axis=0).reshape(a * f, b * f)
        return [e.shape[0], e.shape[1], e[i % (a * f), j % (b * f)]]

    def s_repeat3(a, f, i):
        x = np.arange(a * a * a).reshape(a, a, a)
        e = np.repeat(np.repeat(np.repeat(x, f, axis=0), f, axis=1), f, axis=2)
        k = i % (a * f)
        return [e.shape[2], e[k, (k * 7) % (a * f), (k * 3) % (a * f)]]

    def s_linspace(lo, d, n, i):
        g = np.linspace(lo + d / 2, lo + n * d - d / 2, n)
        return [len(g), g[i % n]]

    def s_isclose(x, y):
        return bool(np.isclose(x, y))

    def s_where_last_first(vals, p):
        g = np.array(vals)
        r = []
        if np.any(p > g):
            r.append(np.where(p > g)[0][-1])
        if np.any(p < g):
            r.append(np.where(p < g)[0][0])
        return r

    def s_argsort(v):
        return list(np.argsort(np.array(v)))

    def s_sort(v):
        return list(np.sort(np.array(v)))

    def s_flip_argsort(v):
        return list(np.flip(np.argsort(np.array(v))))

    def s_minmax(v):
        x = np.array(v)
        return [np.min(x), np.max(x), x.min(), x.max()]

    def s_minmax_axis(a, b):
        x = np.arange(a * b * 2).reshape((a, b, 2), order="F")
        mn = np.min(x, axis=(0, 1))
        mx = np.max(x, axis=(0, 1))
        return [mn[0], mn[1], mx[0], mx[1]]

    def s_region_assign(n, a, b, i):
        x = np.zeros((n, n), dtype=int)
        x[a:b, 1:n] = 7
        x[0:1, 0:1] = 3
        return [x[i % n, (i * 5) % n], x[0, 0]]

    def s_mask_assign(v, t):
        x = np.array(v)
        m = np.zeros_like(x, dtype=bool)
        m[x == t] = 1
        y = np.array(v)
        y[m] = -5
        y[~m] = y[~m] + 1
        return list(y)

    def s_fancy_get(v, ids):
        x = np.array(v)
        return list(x[ids])

    def s_fancy_set(v, ids, w):
        x = np.array(v)
        x[ids] = w
        return list(x)

    def s_fancy_set_rows(n, ids):
        x = np.zeros((n, 2), dtype=int)
        y = np.arange(len(ids) * 2).reshape(len(ids), 2) + 1
        x[ids, :] = y
        return [x[k, c] for k in range(n) for c in range(2)]

    def s_bool_select(v, names, which):
        x = np.array(v)
        f = np.array(names)
        return list(x[f == which])

    def s_unique(names):
        return list(np.unique(names))

    def s_flatnonzero(names, which):
        return list(np.flatnonzero(np.array(names) == which))

    def s_gcd(v):
        return int(np.gcd.reduce(np.array(v)))

    def s_concat_append(a, b):
        return list(np.concatenate([np.array(a), np.array(b)])) + list(np.append(np.array(a), 4))

    def s_diff_any(v):
        return bool(np.any(np.diff(np.array(v)) < 0))

    def s_count_prod(a, b, c):
        return [int(np.prod((a, b, c))), int(np.prod(np.array([a, b])[:1]))]

    def s_iter_protocol(v):
        it = v.__iter__()
        out = []
        try:
            while True:
                out.append(it.__next__())
        except StopIteration:
            out.append(-1)
        return out

    def s_generator(n):
        def gen(k):
            for i in range(k):
                if i % 2:
                    yield i * i
        return [x for x in gen(n)]

    def s_zip_enumerate(a, b):
        return [i * x + y for i, (x, y) in enumerate(zip(a, b))]

    def s_listcomp_filter(names, keep):
        d = {n: i for i, n in enumerate(names)}
        return [d[k] for k in keep if k in d] + [i for n, i in d.items() if n in keep]

    def s_str_ops(name):
        return [name.replace("state", "Cell"), name.split("_")[-1], name[:7], name.startswith("st"), "D" in name]

    def s_transpose(a, b):
        x = np.arange(a * b).reshape(a, b)
        return [x.T[b - 1, 0], x.T.shape[0]]

    def s_minmax_default(xs, d):
        return [max(xs, default=d), min(xs, default=d), max([x for x in xs if x > 4], default=-1)]

    def s_last_or_raise(xs):
        return [x for x in xs if x > 4][-1]

    def s_mask_int_assign(a, b, c, j, thr):
        y = (np.arange(a * b * c) % 7).reshape(a, b, c) * 1.0
        y[y[:, :, 0] * 2 <= thr, j] = 100.0
        return [y[0, 0, j], y[a - 1, b - 1, j], y[a // 2, b // 2, (j + 1) % c], y[a - 1, 0, j]]

    def s_unique_rows(rows):
        u = np.unique(rows, axis=0)
        return [tuple(r) for r in u]

    def s_list_alias(n, k):
        a = [[]] * n
        a[k % n].append(7)
        b = [[] for _ in range(n)]
        b[k % n].append(7)
        return [len(x) for x in a] + [len(x) for x in b]

    def s_lexsort(offs, files):
        order = np.lexsort((np.array(offs), np.array(files)))
        return [int(i) for i in order]

    def s_empty_object(n, k):
        x = np.empty(n, dtype=object)
        x[[0, k % n]] = "Cell"
        return [str(v) for v in x]

    def s_itemsize(which):
        return [np.array([], dtype=["float64", "float32", "int"][which % 3]).itemsize]

    def s_dict_get_truthy(names, want):
        d = {n: i for i, n in enumerate(names)}
        out = []
        for w in want:
            fid = d.get(w)
            if fid:
                out.append(fid)
        return out

    def s_str_format(a, b, name):
        return ["{} < {} < {}".format(a, name, b), "{0}-{1}-{0}".format(a, b), "x={v} {n}".format(v=a, n=name),
                "Slicing " + str(name) + " = " + format(a) + " ", format(b, "05d"), "{:05d}".format(a)]

    def s_squeeze(a, b, c):
        x = np.arange(a * b * c).reshape(a, b, c)
        y = np.squeeze(x)
        z = np.squeeze(x[:, :, :1], axis=-1)
        first = y[tuple([0] * len(y.shape))] if len(y.shape) else int(y)
        return [len(y.shape), first, z.shape[0], z.shape[1], z[a - 1, b - 1]]

    def s_stack_min(a):
        x = np.arange(a * a).reshape(a, a)
        y = x[::-1, :]
        z = np.stack([x, y])
        m = np.min(z, axis=0)
        return [m[0, 0], m[a - 1, a - 1], m.shape[0]]
''')


def rnd_inputs(name, rng):
    R = rng.randint
    if name in ("s_slice_indices", "s_slice_len"):
        pick = lambda lo, hi: rng.choice([None] + list(range(lo, hi)))
        c = rng.choice([None, 1, 2, 3, -1, -2])
        return [R(0, 9), pick(-12, 12), pick(-12, 12), c]
    if name == "s_floordiv_mod":
        return [R(-40, 40), rng.choice([x for x in range(-9, 10) if x])]
    if name == "s_pow2":
        return [R(0, 12)]
    if name == "s_reshape_f":
        return [R(1, 5), R(1, 5), R(1, 5)]
    if name == "s_reshape_f_slice":
        nc = R(1, 4)
        return [R(1, 5), R(1, 5), nc, R(0, nc - 1)]
    if name == "s_ellipsis_step":
        return [R(1, 5), R(1, 6), R(1, 3)]
    if name == "s_repeat":
        return [R(1, 4), R(1, 4), R(1, 4), R(0, 30), R(0, 30)]
    if name == "s_repeat3":
        return [R(1, 3), R(1, 4), R(0, 30)]
    if name == "s_linspace":
        return [rng.choice([0.0, 1.5, -3.0]), rng.choice([0.5, 0.25, 1.0, 2.0]), R(1, 9), R(0, 20)]
    if name == "s_isclose":
        x = rng.choice([0.0, 1.0, -2.5, 1e-9, 3.0e5])
        return [x, x + rng.choice([0.0, 1e-9, 1e-7, 1e-4, -1e-6, 2.9])]
    if name == "s_where_last_first":
        n = R(1, 7)
        vals = sorted(rng.sample(range(-20, 20), n))
        return [[float(v) for v in vals], float(rng.choice(range(-22, 22))) + 0.5]
    if name in ("s_argsort", "s_sort", "s_flip_argsort"):
        return [rng.sample(range(-50, 50), R(1, 5))]
    if name == "s_minmax":
        return [[R(-9, 9) for _ in range(R(1, 6))]]
    if name == "s_minmax_axis":
        return [R(1, 4), R(1, 4)]
    if name == "s_region_assign":
        n = R(2, 6)
        a = R(0, n)
        return [n, a, R(a, n), R(0, 30)]
    if name == "s_mask_assign":
        v = [R(0, 3) for _ in range(R(1, 6))]
        return [v, R(0, 3)]
    if name == "s_fancy_get":
        v = [R(-9, 9) for _ in range(R(1, 6))]
        return [v, [R(-len(v), len(v) - 1) for _ in range(R(1, 4))]]
    if name == "s_fancy_set":
        v = [R(-9, 9) for _ in range(R(2, 6))]
        k = R(1, 3)
        return [v, [R(0, len(v) - 1) for _ in range(k)], [R(10, 20) for _ in range(k)]]
    if name == "s_fancy_set_rows":
        n = R(2, 5)
        return [n, [R(0, n - 1) for _ in range(R(1, 3))]]
    if name in ("s_bool_select", "s_flatnonzero"):
        names = [rng.choice(["a", "b", "c"]) for _ in range(R(1, 6))]
        if name == "s_flatnonzero":
            return [names, rng.choice(["a", "b", "c"])]
        return [[R(-9, 9) for _ in names], names, rng.choice(["a", "b", "c"])]
    if name == "s_unique":
        return [[rng.choice(["Cell_D_00002", "Cell_D_00000", "Cell_D_00001"]) for _ in range(R(1, 6))]]
    if name == "s_gcd":
        g = R(1, 8)
        return [[g * R(0, 9) for _ in range(R(1, 5))] + [g]]
    if name == "s_concat_append":
        return [[R(0, 9) for _ in range(R(1, 3))], [R(0, 9) for _ in range(R(1, 3))]]
    if name == "s_diff_any":
        return [[R(0, 9) for _ in range(R(2, 6))]]
    if name == "s_count_prod":
        return [R(1, 6), R(1, 6), R(1, 6)]
    if name == "s_iter_protocol":
        return [[R(0, 9) for _ in range(R(0, 4))]]
    if name == "s_generator":
        return [R(0, 9)]
    if name == "s_zip_enumerate":
        n = R(0, 5)
        return [[R(0, 9) for _ in range(n)], [R(0, 9) for _ in range(n + R(0, 2))]]
    if name == "s_listcomp_filter":
        names = rng.sample(["alpha", "beta", "gamma", "delta"], R(1, 4))
        return [names, rng.sample(["alpha", "beta", "gamma", "delta", "zzz"], R(0, 4))]
    if name == "s_str_ops":
        return [rng.choice(["state_D_00001", "stateful_x", "gradp_D_00000", "st"])]
    if name in ("s_transpose", ):
        return [R(1, 4), R(1, 4)]
    if name == "s_stack_min":
        return [R(1, 4)]
    if name == "s_squeeze":
        return [R(2, 3), R(1, 3), R(1, 3)]       # (all axes of extent 1 would give a 0-d array: outside the value domain)
    if name == "s_str_format":
        return [R(0, 99), R(0, 99), rng.choice(["x", "temp", "Y(H2)"])]
    if name == "s_minmax_default":
        return [[R(0, 9) for _ in range(R(0, 4))], R(-3, 3)]
    if name == "s_last_or_raise":
        return [[R(0, 9) for _ in range(R(0, 3))]]
    if name == "s_mask_int_assign":
        c = R(1, 4)
        return [R(1, 4), R(1, 4), c, R(0, c - 1), R(0, 12)]
    if name == "s_unique_rows":
        return [[(R(1, 3), R(1, 2), R(1, 2)) for _ in range(R(1, 6))]]
    if name == "s_list_alias":
        return [R(1, 4), R(0, 9)]
    if name == "s_lexsort":
        n = R(1, 5)
        return [[R(0, 3) for _ in range(n)], [rng.choice(["Cell_D_00000", "Cell_D_00001", "Cell_D_00002"]) for _ in range(n)]]
    if name == "s_empty_object":
        return [R(1, 4), R(0, 9)]
    if name == "s_itemsize":
        return [R(0, 5)]
    if name == "s_dict_get_truthy":
        names = rng.sample(["alpha", "beta", "gamma", "delta"], R(1, 4))
        return [names, rng.sample(["alpha", "beta", "gamma", "delta", "zzz"], R(0, 4))]
    raise KeyError(name)


def concretize(v, ctx=None):
    """engine value -> plain python (numbers, lists); values left symbolic become Sym (compared through the solver)"""
    from pyvc.vals import Vec, NDArray, SymSeq, as_const, is_z3
    from pyvc.libos import PathVal
    if isinstance(v, bool) or v is None or isinstance(v, (int, float, str)):
        return v
    if is_z3(v):
        c = as_const(z3.simplify(v))
        if c is None or is_z3(c):
            s = z3.simplify(v)
            if z3.is_rational_value(s):
                return float(s.numerator_as_long()) / float(s.denominator_as_long())
            if z3.is_algebraic_value(s):
                return float(s.approx(20).as_fraction())
            if ctx is not None:
                return Sym(v, ctx)
            raise ValueError(f"symbolic value left: {v}")
        return c
    if isinstance(v, PathVal):
        return repr(v)
    if isinstance(v, Vec):
        return [concretize(x, ctx) for x in v.items]
    if isinstance(v, (list, tuple)):
        return [concretize(x, ctx) for x in v]
    if isinstance(v, SymSeq):
        n = concretize(v.length)
        return [concretize(v.get(i), ctx) for i in range(n)]
    if isinstance(v, NDArray):
        shape = [concretize(s) for s in v.shape]
        if len(shape) == 1:
            return [concretize(v.elem((i,)), ctx) for i in range(shape[0])]
        raise ValueError("array result of rank > 1")
    raise ValueError(f"cannot concretize {type(v).__name__}")


def native_plain(v):
    if isinstance(v, (np.bool_, bool)):
        return bool(v)
    if isinstance(v, np.integer):
        return int(v)
    if isinstance(v, np.floating):
        return float(v)
    if isinstance(v, np.str_):
        return str(v)
    if isinstance(v, np.ndarray):
        return [native_plain(x) for x in v.tolist()]
    if isinstance(v, (list, tuple)):
        return [native_plain(x) for x in v]
    return v


class Sym:
    """an engine value that stays symbolic in a concrete run (defined by quantified library facts): compared through the
    solver - the path's facts must ENTAIL that it equals the native value"""

    def __init__(self, term, ctx):
        self.term, self.ctx = term, ctx


def same(a, b):
    if isinstance(b, Sym):
        if isinstance(a, bool):
            return b.ctx.entails(b.term == z3.BoolVal(a), 5000)
        if isinstance(a, int):
            return b.ctx.entails(b.term == a, 5000)
        if isinstance(a, float):
            return b.ctx.entails(b.term == z3.RealVal(repr(a)) if b.term.sort() == z3.RealSort() else b.term == int(a), 5000)
        return False
    if isinstance(a, list) and isinstance(b, list):
        return len(a) == len(b) and all(same(x, y) for x, y in zip(a, b))
    if isinstance(a, bool) or isinstance(b, bool):
        return bool(a) == bool(b)
    if isinstance(a, (int, float)) and isinstance(b, (int, float)):
        return abs(float(a) - float(b)) <= 1e-9 * max(1.0, abs(float(a)), abs(float(b)))
    return a == b


def run_engine(fdef, args):
    from pyvc.repo import Repo
    from pyvc.ctx import Ctx
    from pyvc.exec import Exec
    from pyvc import headers
    import pyvc.libnp, pyvc.libfile, pyvc.libos, pyvc.builtins, pyvc.pool      # noqa: register the models
    from pyvc.vals import SymRaise
    ctx = Ctx()
    ctx.start_path([])
    ctx.ghost["minmax_semantics"] = True        # the meaning of min / max (opt-in per task in the proofs)
    ex = Exec(ctx, run_engine.repo, dict(headers.HEADER_CONTRACTS), (), {})
    pending = []
    try:
        v = ex.run_function(fdef, "amr_kitchen.utils", None, list(args), {})
    except SymRaise as e:
        return ("raise", e.etype)
    if ctx.pending:
        return ("forked", None)        # a concrete run must not fork
    return ("ret", concretize(v, ctx))


def main(argv):
    import argparse
    ap = argparse.ArgumentParser()
    ap.add_argument("--n", type=int, default=120)
    ap.add_argument("--seed", type=int, default=0)
    ap.add_argument("--only", default=None)
    a = ap.parse_args(argv)
    from pyvc.repo import Repo
    run_engine.repo = Repo()
    mod = ast.parse(SNIPPETS)
    ns = {"np": np}
    exec(compile(mod, "<snippets>", "exec"), ns)
    fdefs = {n.name: n for n in mod.body if isinstance(n, ast.FunctionDef)}
    rng = random.Random(a.seed)
    bad = 0
    total = 0
    for name, fdef in fdefs.items():
        if a.only and a.only not in name:
            continue
        nbad = 0
        for _ in range(a.n):
            args = rnd_inputs(name, rng)
            try:
                nat = ("ret", native_plain(ns[name](*[list(x) if isinstance(x, list) else x for x in args])))
            except Exception as e:     # noqa
                nat = ("raise", type(e).__name__)
            try:
                eng = run_engine(fdef, [list(x) if isinstance(x, list) else x for x in args])
            except Exception as e:     # noqa
                eng = ("engine-error", f"{type(e).__name__}: {str(e)[:120]}")
            total += 1
            ok = nat[0] == eng[0] and (same(nat[1], eng[1]) if nat[0] == "ret" else nat[1] == eng[1])
            if not ok:
                nbad += 1
                if nbad <= 2:
                    print(f"DISAGREE {name}{tuple(args)}: native {nat} / engine {eng}")
        print(f"{name}: {a.n - nbad}/{a.n} agree")
        bad += nbad
    print(f"selftest: {total - bad}/{total} samples agree over {len(fdefs)} snippets")
    return 1 if bad else 0


if __name__ == "__main__":
    sys.exit(main(sys.argv[1:]))
