"""Symbolic self-test of the executor: small Python snippets run on SYMBOLIC integers, every path's result compared through the
solver with the Python meaning written as a z3 term.  (selftest.py runs concrete inputs only: an operator that is right on
concrete values and wrong on symbolic ones - `a or b` used to return True for a symbolic number - is only seen here.)"""
import ast
import sys
import textwrap
import z3

SNIPPETS = '''
def or_value(a, b):
    return a or b

def and_value(a, b):
    return a and b

def or_none(a, b):
    x = None
    return (x or a) + (b or 7)

def min_or(a, b):
    return min(a or b, b)

def ternary_chain(a, b):
    return a if a > b else (b if b else -1)

def floordiv_mod(a, b):
    if b == 0:
        return 0
    return (a // b) * b + a % b

def neg_index(a):
    xs = [10, 20, 30]
    if -3 <= a < 3:
        return xs[a]
    return 0

def bool_ops(a, b):
    return (a > 0 and b > 0) or a == b

def not_value(a):
    return not a

def abs_max(a, b):
    return max(abs(a), abs(b))

def int_truncation(a):
    return int(a / 2)
'''


def specs():
    a, b = z3.Int("a"), z3.Int("b")
    I = z3.If
    return {
        "or_value": I(a != 0, a, b), "and_value": I(a != 0, b, a), "or_none": a + I(b != 0, b, 7),
        "min_or": I(I(a != 0, a, b) <= b, I(a != 0, a, b), b), "ternary_chain": I(a > b, a, I(b != 0, b, -1)),
        "floordiv_mod": I(b == 0, 0, a),
        "neg_index": I(z3.And(a >= -3, a < 3), I(z3.Or(a == 0, a == -3), 10, I(z3.Or(a == 1, a == -2), 20, 30)), 0),
        "bool_ops": z3.Or(z3.And(a > 0, b > 0), a == b), "not_value": a == 0,
        "abs_max": I(I(a >= 0, a, -a) >= I(b >= 0, b, -b), I(a >= 0, a, -a), I(b >= 0, b, -b)),
        "int_truncation": I(a >= 0, a / 2, -((-a) / 2)),
    }


def main():
    sys.setrecursionlimit(10000)
    from pyvc.repo import Repo
    from pyvc.ctx import Ctx
    from pyvc.exec import Exec
    from pyvc import headers
    import pyvc.libnp, pyvc.libfile, pyvc.libos, pyvc.builtins, pyvc.pool      # noqa: register the models
    from pyvc.vals import SymRaise, Unsupported, PathEnd, Infeasible, to_z3, is_z3
    repo = Repo()
    mod = ast.parse(textwrap.dedent(SNIPPETS))
    sp = specs()
    bad = 0
    for fdef in [n for n in mod.body if isinstance(n, ast.FunctionDef)]:
        want = sp[fdef.name]
        a, b = z3.Int("a"), z3.Int("b")
        args = [a, b][:len(fdef.args.args)]
        ctx = Ctx()
        pending, paths, verdict = [[]], 0, "ok"
        while pending and verdict == "ok":
            ctx.start_path(pending.pop())
            paths += 1
            ex = Exec(ctx, repo, dict(headers.HEADER_CONTRACTS), (), {})
            try:
                v = ex.run_function(fdef, "amr_kitchen.utils", None, list(args), {})
                got = to_z3(v) if (is_z3(v) or isinstance(v, (bool, int))) else None
                if got is None:
                    verdict = f"result of type {type(v).__name__}"
                else:
                    if isinstance(v, bool):
                        got = z3.BoolVal(v)
                    elif isinstance(v, int):
                        got = z3.IntVal(v)
                    if z3.is_bool(want) != z3.is_bool(got):
                        # Python's truthiness / int(bool) conversions are not what is tested here
                        got = (got != 0) if z3.is_bool(want) else z3.If(got, 1, 0)
                    s = z3.Solver()
                    s.set("timeout", 10000)
                    s.add(*ctx.assumptions)
                    s.add(*ctx.pc)
                    s.add(got != want)
                    r = s.check()
                    if r != z3.unsat:
                        verdict = f"differs ({r}): {s.model() if r == z3.sat else ''}"
            except (PathEnd, Infeasible):
                pass
            except SymRaise as e:
                verdict = f"raises {e.etype}"
            except Unsupported as u:
                verdict = f"unsupported: {u}"
            pending.extend(ctx.pending)
            ctx.pending = []
        print(f"  {fdef.name:16s} paths={paths:2d} {verdict}")
        bad += verdict != "ok"
    print(f"symbolic selftest: {len(sp) - bad}/{len(sp)} snippets agree with their Python meaning on every path")
    return 1 if bad else 0


if __name__ == "__main__":
    sys.exit(main())
