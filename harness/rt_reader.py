"""Run-time contract of the reader: pck[fsel][lv][bsel] == spec_read(PF, fsel, lv, bsel) on generated plotfiles
(bounded layer for C01 / C15; also the replay target of counter-models of the reader kernels)."""
import os
import random
import numpy as np
from replay import gen


def same_bits(x, y):
    x = np.ascontiguousarray(x)
    y = np.ascontiguousarray(y)
    if x.shape != y.shape or x.dtype != np.float64:
        return False
    return bool((x.view(np.uint64) == y.view(np.uint64)).all())


def spec_fields(names, fsel):
    """The property's meaning of a field selection -> (component list, scalar?) or None if it must be refused."""
    nf = len(names)
    if isinstance(fsel, str):
        return ([names.index(fsel)], True) if fsel in names else None
    if isinstance(fsel, bool):
        return "any"
    if isinstance(fsel, int):
        if -nf <= fsel < nf:
            return ([fsel % nf], True)
        return None
    if isinstance(fsel, slice):
        if fsel.step is not None and fsel.step < 1:
            return None
        return (list(range(*fsel.indices(nf))), False)
    if isinstance(fsel, np.ndarray) and fsel.ndim == 1 and fsel.dtype.kind in "iu":
        fsel = [int(x) for x in fsel]
    if isinstance(fsel, list):
        if not fsel:
            return None
        if all(isinstance(x, str) for x in fsel):
            if any(x not in names for x in fsel):
                return None
            ids = [names.index(x) for x in fsel]
        elif all(isinstance(x, int) and not isinstance(x, bool) for x in fsel):
            if any(not -nf <= x < nf for x in fsel):
                return None
            ids = [x % nf for x in fsel]
        else:
            return None
        if any(b <= a for a, b in zip(ids, ids[1:])):
            return None          # the statement only promises ascending lists: others must be refused
        return (ids, False)
    return None


def spec_boxes(nb, bsel):
    if isinstance(bsel, int):
        return ([bsel % nb], True) if -nb <= bsel < nb else None
    if isinstance(bsel, slice):
        return (list(range(*bsel.indices(nb))), False)
    if isinstance(bsel, list):
        return ([b % nb for b in bsel], False) if all(-nb <= b < nb for b in bsel) else None
    if isinstance(bsel, np.ndarray) and bsel.dtype == bool:
        return (list(np.flatnonzero(bsel)), False) if len(bsel) == nb else None
    if isinstance(bsel, np.ndarray) and bsel.ndim == 1 and bsel.dtype.kind in "iu":
        return spec_boxes(nb, [int(b) for b in bsel])
    return None


def desc(x):
    if isinstance(x, np.ndarray):
        return "mask" + "".join("1" if v else "0" for v in x)
    return repr(x)


def fsel_from(spec):
    k = spec[0]
    if k == "int":
        return spec[1]
    if k == "slice":
        return slice(spec[1], spec[2], spec[3])
    if k == "list":
        return list(spec[1:])
    if k == "name":
        return spec[1]
    raise ValueError(spec)


ITER_WATCHDOG_S = 60


def check_read(pck, pf, fsel, lv, bsel, fails, counter, via="getitem", stream=None):
    """stream: a level stream obtained earlier and used again (reads through one object must not influence each other)"""
    names = list(pf.names)
    fs = spec_fields(names, fsel)
    bs = spec_boxes(pf.nboxes(lv), bsel)
    what = f"pck[{desc(fsel)}][{lv}][{desc(bsel)}]" if via == "getitem" else f"pck[{desc(fsel)}][{lv}].iter({desc(bsel)})"
    counter[0] += 1
    if stream is not None:
        what += "  (second and later reads through one held stream object)"
    try:
        stream = pck[fsel][lv] if stream is None else stream
        if via == "getitem":
            res = stream[bsel]
        elif isinstance(bsel, int):
            res = stream.iter(bsel)
        else:
            # consumed under a watchdog: an iterator that never stops is a failure, not a stuck checker
            import threading
            box = {}

            def consume():
                try:
                    box["res"] = list(stream.iter(bsel))
                except BaseException as e_:     # noqa
                    box["exc"] = e_
            th = threading.Thread(target=consume, daemon=True)
            th.start()
            th.join(ITER_WATCHDOG_S)
            if th.is_alive():
                fails.append({"what": "on-demand iterator does not terminate", "call": what,
                              "detail": f"list(...) still blocked after {ITER_WATCHDOG_S} s"})
                return
            if "exc" in box:
                raise box["exc"]
            res = box["res"]
    except Exception as e:      # noqa
        if fs is None or bs is None:
            return
        fails.append({"what": "reader raised on an honourable selection", "call": what,
                      "detail": f"{type(e).__name__}: {str(e)[:120]}"})
        return
    if fs == "any":
        return
    if fs is None or bs is None:
        fails.append({"what": "unhonourable selection answered instead of refused", "call": what,
                      "detail": f"returned {type(res).__name__}"})
        return
    comps, fscalar = fs
    boxes, bscalar = bs
    got = [res] if bscalar else list(res)
    if len(got) != len(boxes):
        fails.append({"what": "wrong number of boxes returned", "call": what,
                      "detail": f"{len(got)} for {len(boxes)} requested"})
        return
    for g, b in zip(got, boxes):
        exp = pf.data[lv][b][..., comps[0]] if fscalar else pf.data[lv][b][..., comps]
        if not isinstance(g, np.ndarray) or not same_bits(g, exp):
            fails.append({"what": "box data differs from disk", "call": what,
                          "detail": f"box {b}: got shape {getattr(g, 'shape', None)}, expected {exp.shape}"})
            return


def run_stream_sel(p, wd):
    """replay of a box selection found by the solver: n boxes in a row spread over two files, one selection, through
    __getitem__ or the on-demand iterator (under the watchdog)"""
    from amr_kitchen import PlotfileCooker
    fails, counter = [], [0]
    n = int(p["n"])
    names = ["a", "b"]
    levels = [[((4 * i, 0, 0), (4 * i + 3, 3, 3)) for i in range(n)]]
    pf = gen.make_pf(ndims=3, names=names, n0=(4 * n, 4, 4), levels=levels, nfiles=min(2, n), layout="shuffled", seed=p.get("seed", 0))
    path = os.path.join(wd, "plt")
    gen.write_plotfile(path, pf)
    pck = PlotfileCooker(path)
    b = p["bsel"]
    bsel = b[1] if b[0] == "int" else (slice(b[1], b[2], b[3]) if b[0] == "slice" else list(b[1:]))
    check_read(pck, pf, 1, 0, bsel, fails, counter, via=p.get("via", "getitem"))
    return {"fails": fails, "checks": counter[0]}


def run_reader_scenario(p, wd):
    from amr_kitchen import PlotfileCooker
    fails = []
    counter = [0]
    rng = random.Random(p.get("seed", 0))
    if p["kind"] == "single":
        nd, nf = p["ndims"], p["nf"]
        shape = tuple(p["box"])
        names = [f"f{i}" for i in range(nf)]
        levels = [[(tuple([0] * nd), tuple(s - 1 for s in shape))]]
        pf = gen.make_pf(ndims=nd, names=names, n0=shape, levels=levels, nfiles=1, layout="monotone", seed=p.get("seed", 0))
        path = os.path.join(wd, "plt")
        gen.write_plotfile(path, pf)
        pck = PlotfileCooker(path)
        check_read(pck, pf, fsel_from(p["fsel"]), 0, 0, fails, counter)
        return {"fails": fails, "checks": counter[0]}
    if p["kind"] == "stream_sel":
        return run_stream_sel(p, wd)
    nd, nf = p["ndims"], p["nf"]
    names = [f"f{i}" if i % 2 else f"Y(S{i})" for i in range(nf)]
    n0 = tuple(p["n0"]) if p.get("n0") else ((16, 16, 16)[:nd] if nd == 3 else (32, 16))
    special = None
    pf = gen.make_pf(ndims=nd, names=names, n0=n0, geo_lo=(1., 2., 3.)[:nd], dx0=(0.1, 0.2, 0.4)[:nd],
                     nlevels=p["nlevels"], nfiles=p["nfiles"], layout=p["layout"], seed=p["seed"], box=8,
                     box_sizes=(8, 16) if p["seed"] % 2 else None)
    # poke non-finite / denormal payloads into a few cells
    for (lv, b, val) in ((0, 0, float("nan")), (pf.L, pf.nboxes(pf.L) - 1, float("inf")), (0, 0, 5e-324)):
        arr = pf.data[lv][b]
        idx = tuple(rng.randrange(s) for s in arr.shape)
        arr[idx] = val
    path = os.path.join(wd, "plt")
    gen.write_plotfile(path, pf)
    pck = PlotfileCooker(path)
    fsels = [names[0], names[-1], 0, nf - 1, -1, [0], list(range(nf)), slice(None), slice(1, None), slice(None, -1),
             slice(0, None, 2), slice(1, None, 2), slice(nf, None), [names[-1]]]
    if nf >= 3:
        fsels += [[0, nf - 1], slice(1, 3), sorted(rng.sample(range(nf), 2)), [0, -1], names[:2]]
    if nf >= 2:
        # runs of consecutive indices counted from the end (ascending lists of negative indices), as lists and arrays
        fsels += [[-2, -1], np.array(list(range(-nf, 0)))] + ([[-3, -2]] if nf >= 3 else [])
    bad_f = [nf, -nf - 1, "no_such_field", slice(None, None, -1), 1.5]
    if nf >= 2:
        bad_f += [[nf - 1, 0], [0, 0]]
    for lv in range(pf.L + 1):
        nb = pf.nboxes(lv)
        perm = list(range(nb))
        rng.shuffle(perm)
        mask = np.array([rng.random() < 0.5 for _ in range(nb)])
        bsel_cheap = [0, nb - 1, -1, rng.randrange(nb)]
        bsel_pool = [slice(None), slice(1, None, 2), perm[:5], mask]
        for fsel in fsels:
            for bsel in bsel_cheap:
                check_read(pck, pf, fsel, lv, bsel, fails, counter)
        for fsel in rng.sample(fsels, 3):
            for bsel in bsel_pool:
                check_read(pck, pf, fsel, lv, bsel, fails, counter)
        # a held stream used for several reads (list selections not starting at field 0 included)
        for fsel in ([[nf - 1]] + ([[1, nf - 1], names[1:]] if nf >= 3 else [])):
            try:
                held = pck[fsel][lv]
            except Exception:
                continue
            for bsel in (0, nb - 1, perm[:3], 0):
                check_read(pck, pf, fsel, lv, bsel, fails, counter, stream=held)
        check_read(pck, pf, rng.choice(fsels), lv, perm[:4], fails, counter, via="iter")
        check_read(pck, pf, rng.choice(fsels), lv, slice(0, None, 2), fails, counter, via="iter")
        for fsel in bad_f:
            check_read(pck, pf, fsel, lv, 0, fails, counter)
        for bsel in (nb, -nb - 1, [0, nb]):
            check_read(pck, pf, 0, lv, bsel, fails, counter)
        if len(fails) > 20:
            break
    # level bound
    counter[0] += 1
    try:
        pck[0][pf.L + 1]
        fails.append({"what": "level above the finest accepted", "call": f"pck[0][{pf.L + 1}]", "detail": ""})
    except Exception:
        pass
    return {"fails": fails[:25], "checks": counter[0]}


def run_iter_scenario(p, wd):
    """C15: list(pck[fsel][lv]) is, as a multiset, every box of the level exactly once (exact bits), then stops."""
    from amr_kitchen import PlotfileCooker
    fails = []
    counter = [0]
    rng = random.Random(p.get("seed", 0))
    if p["kind"] == "stream_sel":
        return run_stream_sel(p, wd)
    if p["kind"] == "single_iter":
        nd, nf = p["ndims"], p["nf"]
        shape = tuple(p["box"])
        names = [f"f{i}" for i in range(nf)]
        # two boxes side by side in ONE file so that the scan has to step over a FAB
        lo0 = tuple([0] * nd)
        hi0 = tuple(s - 1 for s in shape)
        lo1 = tuple([shape[0]] + [0] * (nd - 1))
        hi1 = tuple([2 * shape[0] - 1] + [s - 1 for s in shape[1:]])
        n0 = tuple([2 * shape[0]] + list(shape[1:]))
        pf = gen.make_pf(ndims=nd, names=names, n0=n0, levels=[[(lo0, hi0), (lo1, hi1)]], nfiles=1,
                         layout="monotone", seed=p.get("seed", 0))
        fsels = [fsel_from(p["fsel"])]
    else:
        nd, nf = p["ndims"], p["nf"]
        names = [f"v{i}" for i in range(nf)]
        n0 = tuple(p["n0"]) if p.get("n0") else ((16, 16, 16) if nd == 3 else (32, 16))
        pf = gen.make_pf(ndims=nd, names=names, n0=n0, geo_lo=(0.5, -1., 2.)[:nd], dx0=(0.25, 0.5, 1.0)[:nd],
                         nlevels=p["nlevels"], nfiles=p["nfiles"], layout=p["layout"], seed=p["seed"],
                         box=p["box"] if isinstance(p.get("box"), int) else 8,
                         box_sizes=(8, 16) if (p["seed"] % 2 and not isinstance(p.get("box"), int)) else None)
        fsels = [0, nf - 1, names[0], slice(None), list(range(nf)), slice(1, None), slice(None, None, 2)]
        if nf >= 3:
            fsels += [[0, nf - 1], slice(1, 3), [1, 2]]
        fsels = fsels[:4] + rng.sample(fsels[4:], min(3, len(fsels) - 4))
        # negative indices (normalised by the selector before they reach the file scanners)
        fsels += [-1, [-1]] + ([[0, -1], np.array([-2, -1])] if nf >= 2 else [])
        if p.get("few_selectors"):
            fsels = [0, slice(None)]
    path = os.path.join(wd, "plt")
    gen.write_plotfile(path, pf)
    pck = PlotfileCooker(path)
    # the on-demand iterator: the selected boxes in the requested order (empty selections yield nothing and stop)
    if p["kind"] != "single_iter":
        for lv in range(pf.L + 1):
            nb = pf.nboxes(lv)
            perm = list(range(nb))
            rng.shuffle(perm)
            mask = np.array([rng.random() < 0.5 for _ in range(nb)])
            bsels = [perm[:4], np.array(perm[-3:]), mask, slice(None), slice(None, None, 2), slice(None, None, 3), slice(1, None, 2),
                     slice(None, None, -1), slice(None, None, -2), slice(nb - 1, 0, -3), [-1, 0], 0, -1,
                     [], slice(nb, None), slice(2, 1), np.zeros(nb, dtype=bool)]
            for bsel in (bsels[2:4] + [slice(None, None, -1), perm] if p.get("few_selectors") else bsels[:4] + rng.sample(bsels[4:13], 4) + bsels[13:]):
                check_read(pck, pf, rng.choice([0, slice(None), [nf - 1]]), lv, bsel, fails, counter, via="iter")
                if fails and "terminate" in fails[-1]["what"]:
                    # a blocked pool thread is left behind: one such report per scenario is enough
                    return {"fails": fails[:25], "checks": counter[0]}
    for lv in range(pf.L + 1):
        for fsel in fsels:
            counter[0] += 1
            fs = spec_fields(list(pf.names), fsel)
            what = f"list(pck[{desc(fsel)}][{lv}])"
            try:
                it = iter(pck[fsel][lv])
                got = []
                while True:
                    try:
                        got.append(next(it))
                    except StopIteration:
                        break
                    if len(got) > 4 * pf.nboxes(lv) + 4:
                        break
                # after exhaustion the iterator keeps raising StopIteration
                try:
                    next(it)
                    fails.append({"what": "iterator yields again after exhaustion", "call": what, "detail": ""})
                except StopIteration:
                    pass
            except Exception as e:      # noqa
                if fs is None:
                    continue
                fails.append({"what": "iteration raised", "call": what, "detail": f"{type(e).__name__}: {str(e)[:100]}"})
                continue
            comps, scalar = fs
            expected = {}
            for b in range(pf.nboxes(lv)):
                e = pf.data[lv][b][..., comps[0]] if scalar else pf.data[lv][b][..., comps]
                expected[b] = np.ascontiguousarray(e)
            if len(got) != len(expected):
                fails.append({"what": "iteration does not yield every box exactly once", "call": what,
                              "detail": f"{len(got)} arrays yielded for {len(expected)} boxes"})
                continue
            left = dict(expected)
            for g in got:
                hit = None
                for b, e in left.items():
                    if same_bits(g, e):
                        hit = b
                        break
                if hit is None:
                    fails.append({"what": "iteration yielded data that is no box of the level (or a box twice)",
                                  "call": what, "detail": f"shape {getattr(g, 'shape', None)}"})
                    break
                del left[hit]
    return {"fails": fails[:25], "checks": counter[0]}


def run_point_scenario(p, wd):
    """C19: pck[fsel](x,y,z) at the centre of an interior cell of the finest covering level returns the stored value."""
    from amr_kitchen import PlotfileCooker
    fails = []
    counter = [0]
    rng = random.Random(p["seed"])
    nf = p["nf"]
    names = [f"q{i}" for i in range(nf)]

    def payload(lv, b, lo, hi, X, Y, Z, c):
        r = np.random.default_rng(p["seed"] * 7919 + lv * 101 + b * 13 + c)
        return 1.0 + c + r.uniform(0.0, 1.0, size=X.shape)
    if p.get("levels"):
        pf = gen.make_pf(ndims=3, names=names, n0=tuple(p["n0"]), geo_lo=tuple(p.get("geo_lo", (1., 2., 3.))),
                         dx0=tuple(p.get("dx0", (0.1, 0.2, 0.4))), levels=[[(tuple(a), tuple(b)) for a, b in lv] for lv in p["levels"]],
                         nfiles=p["nfiles"], layout=p["layout"], seed=p["seed"], payload=payload)
    else:
        pf = gen.make_pf(ndims=3, names=names, n0=tuple(p.get("n0", (16, 16, 16))), geo_lo=tuple(p.get("geo_lo", (1., 2., 3.))),
                         dx0=tuple(p.get("dx0", (0.1, 0.2, 0.4))), nlevels=p["nlevels"], nfiles=p["nfiles"],
                         layout=p["layout"], seed=p["seed"], box=8, payload=payload)
    path = os.path.join(wd, "plt")
    gen.write_plotfile(path, pf)
    pck = PlotfileCooker(path)
    fsels = [0, nf - 1, names[0], list(range(nf)), [0], slice(None)]
    if nf >= 3:
        fsels.append([0, nf - 1])
    # covered masks
    def covered(lv, b):
        lo, hi = pf.levels[lv][b]
        m = np.zeros(tuple(h - l + 1 for l, h in zip(lo, hi)), dtype=bool)
        if lv < pf.L:
            for flo, fhi in pf.levels[lv + 1]:
                clo = [max(l // 2, a) for l, a in zip(flo, lo)]
                chi = [min(h // 2, c) for h, c in zip(fhi, hi)]
                if all(x <= y for x, y in zip(clo, chi)):
                    m[tuple(slice(x - a, y - a + 1) for x, y, a in zip(clo, chi, lo))] = True
        return m
    npts = p.get("npoints", 12)
    tries = 0
    # targeted cells: interior cells of a fine box that touch a face of a COARSER-level box running through the fine box
    # (the query must still be answered from the fine box)
    targeted = []
    for lv in range(1, pf.L + 1):
        for b, (lo, hi) in enumerate(pf.levels[lv]):
            shape = [h - l + 1 for l, h in zip(lo, hi)]
            if min(shape) < 3:
                continue
            for d in range(3):
                faces = {2 * (chi[d] + 1) for clo, chi in pf.levels[lv - 1]} | {2 * clo[d] for clo, chi in pf.levels[lv - 1]}
                for f in sorted(faces):
                    for c in (f - 1, f):
                        if lo[d] + 1 <= c <= hi[d] - 1:
                            cell = [rng.randrange(1, s - 1) for s in shape]
                            cell[d] = c - lo[d]
                            targeted.append((lv, b, cell))
    rng.shuffle(targeted)
    targeted = targeted[: max(4, npts // 2)]
    while counter[0] < npts + len(targeted) and tries < 2000:
        tries += 1
        if targeted:
            lv, b, cell = targeted.pop()
            lo, hi = pf.levels[lv][b]
        else:
            lv = rng.randrange(pf.L + 1)
            b = rng.randrange(pf.nboxes(lv))
            lo, hi = pf.levels[lv][b]
            shape = [h - l + 1 for l, h in zip(lo, hi)]
            if min(shape) < 3:
                continue
            cell = [rng.randrange(1, s - 1) for s in shape]
        if covered(lv, b)[tuple(cell)]:
            continue
        dx = pf.dx(lv)
        pt = [pf.geo_lo[d] + (lo[d] + cell[d] + 0.5) * dx[d] for d in range(3)]
        if "held" not in locals():
            held = {}
        fsel = rng.choice(fsels)
        comps, scalar = spec_fields(names, fsel)
        what = f"pck[{desc(fsel)}]({pt[0]!r}, {pt[1]!r}, {pt[2]!r})  (level {lv} box {b} cell {cell})"
        counter[0] += 1
        try:
            # every second query goes through a selection object that is KEPT and re-used (an answer depends on the point, not on
            # what the same object was asked before)
            if counter[0] % 2 == 0:
                sel = held.setdefault(desc(fsel), pck[fsel])
                what += "  [selection object re-used]"
            else:
                sel = pck[fsel]
            got = np.atleast_1d(np.asarray(sel(*pt), dtype=float)).ravel()
        except Exception as e:      # noqa
            fails.append({"what": "point query raised at an interior cell centre", "call": what,
                          "detail": f"{type(e).__name__}: {str(e)[:120]}"})
            continue
        exp = np.array([pf.data[lv][b][tuple(cell) + (c,)] for c in comps])
        if got.shape != exp.shape or not np.allclose(got, exp, rtol=1e-9, atol=1e-12):
            fails.append({"what": "point query differs from the stored cell value", "call": what,
                          "detail": f"{got} vs {exp}"})
    # outside the domain: refused - far away, and just beyond a face (a fraction of the finest cell size, and a hair)
    fsel_out = [0, [0, nf - 1] if nf >= 2 else [0]]
    for d in range(3):
        for side in (0, 1):
            for beyond in (3.3 * pf.dx(0)[d], 0.2 * pf.dx(pf.L)[d], 1e-6 * pf.dx(pf.L)[d]):
                pt = [pf.geo_lo[k] + (0.5 + 0.013 * k) * (pf.geo_hi[k] - pf.geo_lo[k]) for k in range(3)]
                pt[d] = pf.geo_hi[d] + beyond if side else pf.geo_lo[d] - beyond
                for fsel in fsel_out:
                    counter[0] += 1
                    try:
                        r = pck[fsel](*pt)
                        fails.append({"what": "point outside the domain answered instead of refused", "call": f"pck[{desc(fsel)}]{tuple(pt)}",
                                      "detail": str(r)[:60]})
                    except Exception:
                        pass
    return {"fails": fails[:20], "checks": counter[0]}


def _check_metadata(pck, pf, keys, names, nd, L, maxmins, path, bad):
    if list(pck.fields.keys()) != keys or list(pck.fields.values()) != list(range(len(names))):
        bad("field names/indices differ", f"{pck.fields} vs {keys}")
    if pck.ndims != nd or pck.time != pf.time or pck.max_level != pf.L or pck.limit_level != L or pck.nfields != len(names):
        bad("global scalars differ", (pck.ndims, pck.time, pck.max_level, pck.limit_level, pck.nfields))
    if list(pck.geo_low) != list(pf.geo_lo) or list(pck.geo_high) != list(pf.geo_hi):
        bad("domain bounds differ", (pck.geo_low, pck.geo_high))
    for lv in range(L + 1):
        if list(pck.dx[lv]) != list(pf.dx(lv)) or list(pck.grid_sizes[lv]) != list(pf.n(lv)):
            bad(f"cell size / grid size of level {lv} differ", (pck.dx[lv], pck.grid_sizes[lv]))
        for d in range(nd):
            cen = pf.geo_lo[d] + (np.arange(pf.n(lv)[d]) + 0.5) * pf.dx(lv)[d]
            if pck.grids[lv][d].shape != cen.shape or not np.allclose(pck.grids[lv][d], cen, rtol=1e-13, atol=0):
                bad(f"cell-centre grid of level {lv} dim {d} differs")
        nb = pf.nboxes(lv)
        if len(pck.boxes[lv]) != nb or len(pck.cells[lv]["indexes"]) != nb:
            bad(f"number of boxes of level {lv} differs", (len(pck.boxes[lv]), nb))
            continue
        for b in range(nb):
            lo, hi = pf.levels[lv][b]
            if [list(x) for x in pck.boxes[lv][b]] != [list(x) for x in pf.box_bounds(lv, b)]:
                bad(f"physical bounds of box {b} level {lv} differ", (pck.boxes[lv][b], pf.box_bounds(lv, b)))
                break
            i0, i1 = pck.cells[lv]["indexes"][b]
            if tuple(int(x) for x in i0) != tuple(lo) or tuple(int(x) for x in i1) != tuple(hi):
                bad(f"index range of box {b} level {lv} differs", (i0, i1, lo, hi))
                break
            if os.path.normpath(pck.cells[lv]["files"][b]) != os.path.normpath(os.path.join(path, f"Level_{lv}", pf.files[lv][b])) \
                    or pck.cells[lv]["offsets"][b] != pf.offsets[lv][b]:
                bad(f"binary file / offset of box {b} level {lv} differ", (pck.cells[lv]["files"][b], pck.cells[lv]["offsets"][b]))
                break
        if maxmins:
            for c, k in enumerate(keys):
                emin = np.array([float(f"{np.min(pf.data[lv][b][..., c]):.16e}") for b in range(nb)])
                emax = np.array([float(f"{np.max(pf.data[lv][b][..., c]):.16e}") for b in range(nb)])
                if not np.array_equal(pck.cells[lv]["mins"][k], emin) or not np.array_equal(pck.cells[lv]["maxs"][k], emax):
                    bad(f"per-box min/max of field {k} level {lv} differ")
                    break
        elif "mins" in pck.cells[lv]:
            pass
    if len(pck.cells) != L + 1 or len(pck.boxes) != L + 1 or len(pck.grids) != L + 1:
        bad("levels above the limit are exposed (or missing)", (len(pck.cells), L + 1))


def run_metadata_scenario(p, wd):
    """C02: opening a plotfile exposes exactly the metadata its headers state - the headers as they are when it is opened:
    with `rewrite_in_place` the directory is replaced by ANOTHER well-formed plotfile (same path, same field count, other
    mesh / layout / values) and opened again in the same process."""
    import shutil
    fails, counter = [], [0]
    _metadata_round(p, wd, fails, counter, "")
    if p.get("rewrite_in_place"):
        shutil.rmtree(os.path.join(wd, "plt"))
        shutil.rmtree(os.path.join(wd, "plt_header_only"))
        p2 = dict(p, seed=p["seed"] + 7919, nlevels=1 + p["nlevels"] % 3, nfiles=1 + p["nfiles"] % 3, time=p.get("time", 0.123) + 1.0,
                  box_sizes=None if p.get("box_sizes") else [8, 16])
        _metadata_round(p2, wd, fails, counter, " [same path, rewritten with another plotfile]")
    return {"fails": fails[:20], "checks": counter[0]}


def _metadata_round(p, wd, fails, counter, tag):
    import shutil
    from amr_kitchen import PlotfileCooker
    nd = p["ndims"]
    names = list(p["names"])
    n0 = tuple(p.get("n0") or ((16, 16, 8) if nd == 3 else (32, 16)))
    pf = gen.make_pf(ndims=nd, names=names, n0=n0, geo_lo=tuple(p["geo_lo"])[:nd], dx0=tuple(p["dx0"])[:nd],
                     nlevels=p["nlevels"], nfiles=p["nfiles"], layout=p["layout"], seed=p["seed"], box=8,
                     box_sizes=tuple(p["box_sizes"]) if p.get("box_sizes") else None, time=p.get("time", 0.123),
                     ref_line_extra=p.get("ref_line_extra", 0), payload="random")
    if p.get("version"):
        pf.version = p["version"]
    path = os.path.join(wd, "plt")
    gen.write_plotfile(path, pf)
    if p.get("large_offsets"):
        # binary files larger than 2 and 4 GiB (sparse): byte offsets that do not fit 32 bits
        from .rt_menu import _spread_file
        _spread_file(pf, path, pf.L)
    # expected field keys: repeated names are renamed name_2, name_3, ...
    keys = []
    for nm in names:
        if nm not in keys:
            keys.append(nm)
        else:
            k = 2
            while f"{nm}_{k}" in keys:
                k += 1
            keys.append(f"{nm}_{k}")

    def bad(what, detail=""):
        fails.append({"what": what, "call": call + tag, "detail": str(detail)[:200]})

    for lim in [None] + list(range(pf.L + 1)):
        for maxmins in (False, True):
            call = f"PlotfileCooker(plt, limit_level={lim}, maxmins={maxmins})"
            counter[0] += 1
            try:
                pck = PlotfileCooker(path, limit_level=lim, maxmins=maxmins)
            except Exception as e:      # noqa
                bad("opening a well-formed plotfile raised", f"{type(e).__name__}: {e}")
                continue
            L = pf.L if lim is None else lim
            try:
                _check_metadata(pck, pf, keys, names, nd, L, maxmins, path, bad)
            except (KeyError, IndexError, AttributeError, TypeError) as e:
                bad("exposed metadata does not have the documented structure", f"{type(e).__name__}: {e}")
            continue
    call = f"PlotfileCooker(plt, limit_level={pf.L + 1})"
    counter[0] += 1
    try:
        PlotfileCooker(path, limit_level=pf.L + 1)
        bad("a level limit above the finest level was accepted")
    except ValueError:
        pass
    except Exception as e:      # noqa
        bad("a level limit above the finest level: unexpected exception", type(e).__name__)
    # header-only: same global metadata without level headers or binaries
    ho = os.path.join(wd, "plt_header_only")
    os.makedirs(ho)
    shutil.copy(os.path.join(path, "Header"), ho)
    call = "PlotfileCooker(Header only, header_only=True)"
    counter[0] += 1
    try:
        pck = PlotfileCooker(ho, header_only=True)
        if list(pck.fields.keys()) != keys or pck.ndims != nd or pck.time != pf.time or pck.max_level != pf.L or \
                list(pck.geo_low) != list(pf.geo_lo) or list(pck.geo_high) != list(pf.geo_hi) or \
                [list(x) for x in pck.dx] != [list(pf.dx(lv)) for lv in range(pf.L + 1)] or \
                [list(x) for x in pck.grid_sizes] != [list(pf.n(lv)) for lv in range(pf.L + 1)] or \
                [[[list(x) for x in bx] for bx in lvb] for lvb in pck.boxes] != \
                [[[list(x) for x in pf.box_bounds(lv, b)] for b in range(pf.nboxes(lv))] for lv in range(pf.L + 1)]:
            bad("header-only opening exposes different global metadata")
    except Exception as e:      # noqa
        bad("header-only opening needs more than the Header", f"{type(e).__name__}: {e}")

