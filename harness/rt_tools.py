"""Run-time contracts of the writing tools (colander, combine, chef, chk2plt, mandoline-plotfile) on generated inputs."""
import os
import random
import numpy as np
from replay import gen
from .rt_common import compare_plotfile, pf_expected, taste_ok, tree_digest


def make_input(p, wd, name="plt_in", names=None, payload="coded", specials=True):
    nd = p["ndims"]
    nf = p.get("nf", 3)
    names = names or [["density", "temp", "Y(H2)", "Y(O2)", "x_velocity", "pressure", "mag_vort", "Y(N2)"][i % 8] +
                      ("" if i < 8 else f"_{i}") for i in range(nf)]
    n0 = tuple(p.get("n0") or ((16, 16, 16) if nd == 3 else (32, 16)))
    pf = gen.make_pf(ndims=nd, names=names, n0=n0, geo_lo=tuple(p.get("geo_lo", (1., 2., 3.)))[:nd],
                     dx0=tuple(p.get("dx0", (0.1, 0.2, 0.4)))[:nd], nlevels=p.get("nlevels", 2),
                     nfiles=p.get("nfiles", 2), layout=p.get("layout", "shuffled"), seed=p.get("seed", 0),
                     box=p.get("box", 8), box_sizes=tuple(p["box_sizes"]) if p.get("box_sizes") else None,
                     payload=payload, time=p.get("time", 0.1 + p.get("seed", 0) * 1e-3),
                     ref_line_extra=p.get("ref_line_extra", 0))
    if specials:
        rng = random.Random(p.get("seed", 0) + 17)
        for val in (float("inf"), 5e-324, -0.0):
            lv = rng.randrange(pf.L + 1)
            b = rng.randrange(pf.nboxes(lv))
            arr = pf.data[lv][b]
            arr[tuple(rng.randrange(s) for s in arr.shape)] = val
    path = os.path.join(wd, name)
    gen.write_plotfile(path, pf)
    return pf, path


def run_colander_scenario(p, wd):
    from amr_kitchen.colander.colander import Colander
    fails = []
    checks = 0
    pf, path = make_input(p, wd)
    before = tree_digest(path)
    rng = random.Random(p["seed"])
    names = list(pf.names)
    sels = [["all"], [names[-1]], list(reversed(names)), [names[0], "no_such_field", names[-1]]]
    if len(names) >= 3:
        sels.append(rng.sample(names, 2))
    limits = [None] + list(range(pf.L + 1))
    combos = [(s, l) for s in sels for l in limits]
    rng.shuffle(combos)
    for i, (sel, lim) in enumerate(combos[: p.get("ncombos", 4)]):
        out = os.path.join(wd, f"out{i}")
        what = f"colander(variables={sel}, limit_level={lim})"
        checks += 1
        try:
            Colander(plotfile=path, limit_level=lim, output=out, variables=list(sel)).strain()
        except Exception as e:      # noqa
            fails.append({"what": "colander raised on a valid request", "call": what,
                          "detail": f"{type(e).__name__}: {str(e)[:150]}"})
            continue
        kept = list(range(len(names))) if sel == ["all"] else [names.index(v) for v in sel if v in names]
        L = pf.L if lim is None else lim
        exp = pf_expected(pf, comps=kept, L=L)
        n0 = len(fails)
        compare_plotfile(out, exp, fails, what)
        if len(fails) == n0:
            taste_ok(out, fails, what)
        for f in fails[n0:]:
            f["call"] = what
    if tree_digest(path) != before:
        fails.append({"what": "colander modified its input plotfile", "call": "", "detail": ""})
    return {"fails": fails[:20], "checks": checks}
