"""Run-time contracts of the writing tools (colander, combine, chef, chk2plt, mandoline-plotfile) on generated inputs."""
import os
import random
import numpy as np
from replay import gen
from .rt_common import compare_plotfile, pf_expected, taste_ok, tree_digest


def make_input(p, wd, name="plt_in", names=None, payload="coded", specials=True):
    nd = p["ndims"]
    nf = p.get("nf", 3)
    if names is None and p.get("names"):
        names = list(p["names"])        # (repeated names, names that look like the reader's own renaming: a, a_2, a)
    names = names or [["density", "temp", "Y(H2)", "Y(O2)", "x_velocity", "pressure", "mag_vort", "Y(N2)"][i % 8] +
                      ("" if i < 8 else f"_{i}") for i in range(nf)]
    n0 = tuple(p.get("n0") or ((16, 16, 16) if nd == 3 else (32, 16)))
    pf = gen.make_pf(ndims=nd, names=names, n0=n0, geo_lo=tuple(p.get("geo_lo", (1., 2., 3.)))[:nd],
                     dx0=tuple(p.get("dx0", (0.1, 0.2, 0.4)))[:nd], nlevels=p.get("nlevels", 2),
                     nfiles=p.get("nfiles", 2), layout=p.get("layout", "shuffled"), seed=p.get("seed", 0),
                     box=p.get("box", 8), box_sizes=tuple(p["box_sizes"]) if p.get("box_sizes") else None,
                     payload=payload, time=p.get("time", 0.1 + p.get("seed", 0) * 1e-3),
                     ref_line_extra=p.get("ref_line_extra", 0),
                     levels=[[(tuple(lo), tuple(hi)) for lo, hi in lv] for lv in p["levels"]] if p.get("levels") else None)
    if p.get("version"):
        pf.version = p["version"]
    if specials:
        rng = random.Random(p.get("seed", 0) + 17)
        # (the last ones: negative numbers with a three-digit exponent - 24 characters in the %.16e of the level headers)
        for val in (float("inf"), 5e-324, -0.0, -1.5302524532769796e-107) + ((-7.25e+150,) if p.get("wide_floats") else ()):
            lv = rng.randrange(pf.L + 1)
            b = rng.randrange(pf.nboxes(lv))
            arr = pf.data[lv][b]
            arr[tuple(rng.randrange(s) for s in arr.shape)] = val
    path = os.path.join(wd, name)
    gen.write_plotfile(path, pf, exist_ok=bool(p.get("in_place")))
    return pf, path


def run_colander_scenario(p, wd):
    from amr_kitchen.colander.colander import Colander
    fails = []
    checks = 0
    pf, path = make_input(p, wd)
    before = tree_digest(path)
    rng = random.Random(p["seed"])
    names = list(pf.names)
    sels = [["all"], [names[-1]], list(reversed(names)), [names[0], "no_such_field", names[-1]]]
    if len(names) >= 3:
        sels.append(rng.sample(names, 2))
    limits = [None] + list(range(pf.L + 1))
    combos = [(s, l) for s in sels for l in limits]
    rng.shuffle(combos)
    for i, (sel, lim) in enumerate(combos[: p.get("ncombos", 4)]):
        out = os.path.join(wd, f"out{i}")
        what = f"colander(variables={sel}, limit_level={lim})"
        checks += 1
        try:
            Colander(plotfile=path, limit_level=lim, output=out, variables=list(sel)).strain()
        except Exception as e:      # noqa
            fails.append({"what": "colander raised on a valid request", "call": what,
                          "detail": f"{type(e).__name__}: {str(e)[:150]}"})
            continue
        kept = list(range(len(names))) if sel == ["all"] else [names.index(v) for v in sel if v in names]
        L = pf.L if lim is None else lim
        exp = pf_expected(pf, comps=kept, L=L)
        n0 = len(fails)
        compare_plotfile(out, exp, fails, "colander output")
        if len(fails) == n0:
            taste_ok(out, fails, "colander output")
        for f in fails[n0:]:
            f["call"] = what
    if tree_digest(path) != before:
        fails.append({"what": "colander modified its input plotfile", "call": "", "detail": ""})
    return {"fails": fails[:20], "checks": checks}


def run_whip_scenario(p, wd):
    """C10: the saved uniform grid is the covering grid of the field (finest level <= limit wins, replicated), cast to
    the dtype, axes (x,y,z), for every completion order of the per-file tasks."""
    import sys
    from replay import oracle
    from harness.fakepool import patch_pools
    import amr_kitchen.whip.cli as whip
    fails = []
    checks = 0
    pf, path = make_input(p, wd)
    rng = random.Random(p["seed"])
    names = list(pf.names)
    combos = []
    for dtype in ("float64", "float32"):
        for lim in [None] + list(range(pf.L + 1)):
            combos.append((rng.choice(names), dtype, lim))
    rng.shuffle(combos)
    orders = p.get("orders", ["real", "shuffle", "reversed"])
    for ci, (field, dtype, lim) in enumerate(combos[: p.get("ncombos", 3)]):
        comp = names.index(field)
        exp, lvl = oracle.covering_grid(path, comp, limit=lim, with_level=True)
        exp = exp.astype(dtype)
        for oi, order in enumerate(orders):
            out = os.path.join(wd, f"ug_{ci}_{oi}")
            argv = ["whip", "-v", field, "-o", out, "-y", "-d", dtype, path]
            if lim is not None:
                argv[1:1] = ["-l", str(lim)]
            what = f"whip {' '.join(argv[1:-1])} <plt> (completion order: {order})"
            restore = patch_pools(order, p["seed"] + oi) if order != "real" else (lambda: None)
            old_argv = sys.argv
            sys.argv = argv
            checks += 1
            try:
                whip.main()
            except SystemExit as e:
                fails.append({"what": "whip exited instead of writing the grid", "call": what, "detail": str(e.code)})
                continue
            except Exception as e:      # noqa
                fails.append({"what": "whip raised on a valid request", "call": what, "detail": f"{type(e).__name__}: {str(e)[:120]}"})
                continue
            finally:
                sys.argv = old_argv
                restore()
            try:
                got = np.load(out + ".npy")
            except Exception as e:      # noqa
                fails.append({"what": "whip output not found", "call": what, "detail": str(e)[:100]})
                continue
            if got.shape != exp.shape or got.dtype != exp.dtype:
                fails.append({"what": "uniform grid has wrong shape/dtype (level limit or axes)", "call": what,
                              "detail": f"{got.shape} {got.dtype} vs {exp.shape} {exp.dtype}"})
                continue
            same = (got == exp) | (np.isnan(got) & np.isnan(exp))
            if not same.all():
                bad = np.argwhere(~same)[0]
                fails.append({"what": "uniform grid differs from the covering grid", "call": what,
                              "detail": f"{int((~same).sum())} cells differ, first {tuple(int(x) for x in bad)}: {got[tuple(bad)]} vs {exp[tuple(bad)]} (level {lvl[tuple(bad)]})"})
    return {"fails": fails[:20], "checks": checks}


def expected_integral(pf, comp, limit, vf=None):
    """sum over cells not covered by a finer selected level of value * dV (* volFrac): every point exactly once"""
    total = 0.0
    for lv in range(limit + 1):
        dV = float(np.prod(pf.dx(lv)))
        for b, (lo, hi) in enumerate(pf.levels[lv]):
            vals = pf.data[lv][b][..., comp].astype(float)
            if vf is not None:
                vals = vals * pf.data[lv][b][..., vf]
            keep = np.ones(vals.shape, dtype=bool)
            if lv < limit:
                for (flo, fhi) in pf.levels[lv + 1]:
                    clo = [max(l // 2, a) for l, a in zip(flo, lo)]
                    chi = [min(h // 2, c) for h, c in zip(fhi, hi)]
                    if all(x <= y for x, y in zip(clo, chi)):
                        sl = tuple(slice(x - a, y - a + 1) for x, y, a in zip(clo, chi, lo))
                        keep[sl] = False
            total += dV * float(np.sum(vals[keep]))
    return total


def run_pestle_scenario(p, wd):
    """C09: volume_integral(pck, field, limit_level, use_volfrac) counts every point of the domain exactly once."""
    from amr_kitchen import PlotfileCooker
    from amr_kitchen.pestle.pestle import volume_integral
    fails = []
    checks = 0
    nf = p.get("nf", 3)
    names = ["density", "temp", "volFrac", "Y(H2)", "pressure"][:max(3, nf)]

    def payload(lv, b, lo, hi, X, Y, Z, c):
        r = np.random.default_rng(p["seed"] * 100003 + lv * 1009 + b * 31 + c)
        if names[c] == "volFrac":
            return r.uniform(0.0, 1.0, size=X.shape)
        return 1.0 + r.uniform(0.0, 1.0, size=X.shape) + 0.1 * X
    pf, path = make_input(p, wd, names=names, payload=payload, specials=False)
    vf = names.index("volFrac")
    rng = random.Random(p["seed"])
    combos = []
    for lim in [None] + list(range(pf.L + 1)):
        for use_vf in (False, True):
            combos.append((rng.choice([n for n in names if n != "volFrac"]), lim, use_vf))
    rng.shuffle(combos)
    pck = None
    for field, lim, use_vf in combos[: p.get("ncombos", 4)]:
        what = f"volume_integral(pck, {field!r}, limit_level={lim}, use_volfrac={use_vf})"
        checks += 1
        L = pf.L if lim is None else lim
        exp = expected_integral(pf, names.index(field), L, vf if use_vf else None)
        try:
            if pck is None:
                pck = PlotfileCooker(path, ghost=True)
            got = volume_integral(pck, field, limit_level=lim, use_volfrac=use_vf)
        except Exception as e:      # noqa
            fails.append({"what": "volume_integral raised on a valid request", "call": what,
                          "detail": f"{type(e).__name__}: {str(e)[:120]}", "limit": lim,
                          "mixed": bool(p.get("box_sizes"))})
            continue
        if not np.isfinite(got) or abs(got - exp) > 1e-9 * max(abs(exp), 1e-300):
            fails.append({"what": "volume integral differs from the exactly-once sum", "call": what,
                          "detail": f"{got!r} vs {exp!r} (rel {abs(got - exp) / abs(exp):.3e})", "limit": lim,
                          "mixed": bool(p.get("box_sizes"))})
    return {"fails": fails[:20], "checks": checks}


def ck_expected(ck, gradp, reactions, flooring, species=None):
    """the plotfile chk2plt must write for a checkpoint (the property's pure chk->plt operation)"""
    sp = species or ck.species
    names = ["x_velocity", "y_velocity", "z_velocity", "density"] + [f"Y({s})" for s in sp] + ["rhoh", "temp", "RhoRT"]
    if gradp:
        names += ["gradpx", "gradpy", "gradpz"]
    if reactions:
        names += [f"I_R({s})" for s in sp]
    L = ck.L
    data = []
    for lv in range(L + 1):
        lvd = []
        for b in range(ck.nboxes(lv)):
            st = np.array(ck.data["state"][lv][b], dtype=float, copy=True)
            if flooring:
                ys = st[..., 4:-3]
                st[..., 4:-3] = ys / np.sum(ys, axis=-1)[..., None]
            parts = [st]
            if gradp:
                parts.append(ck.data["gradp"][lv][b])
            if reactions:
                parts.append(ck.data["I_R"][lv][b])
            lvd.append(np.concatenate(parts, axis=-1))
        data.append(lvd)
    geo_hi = ck.geo_hi
    exp = {"names": names, "ndims": 3, "time": ck.time, "geo_lo": list(ck.geo_lo), "geo_hi": list(geo_hi), "L": L,
           "n": [ck.n(lv) for lv in range(L + 1)], "dx": [ck.dx(lv) for lv in range(L + 1)],
           "boxes": [list(ck.levels[lv]) for lv in range(L + 1)], "data": data,
           "bounds": [[[(ck.geo_lo[d] + lo[d] * ck.dx(lv)[d], ck.geo_lo[d] + (hi[d] + 1) * ck.dx(lv)[d]) for d in range(3)]
                       for lo, hi in ck.levels[lv]] for lv in range(L + 1)]}
    exp["mins"] = [np.array([np.min(d, axis=(0, 1, 2)) for d in lvd]) for lvd in data]
    exp["maxs"] = [np.array([np.max(d, axis=(0, 1, 2)) for d in lvd]) for lvd in data]
    return exp


def run_chk2plt_scenario(p, wd):
    """C17: chk2plt carries the checkpoint's interior state into a valid plotfile."""
    from amr_kitchen.chk2plt.chk2plt import chk2plt
    fails = []
    checks = 0
    rng = random.Random(p["seed"])
    ck = gen.make_ck(n0=tuple(p.get("n0", (16, 16, 8))), geo_lo=tuple(p.get("geo_lo", (0.5, -1.0, 2.0))),
                     dx0=tuple(p.get("dx0", (0.1, 0.2, 0.4))), time=p.get("time", 0.3721), step=p.get("step", 7),
                     nspecies=p.get("nspecies", 3), ghost=p.get("ghost", 2), nlevels=p.get("nlevels", 2), box=8,
                     box_sizes=tuple(p["box_sizes"]) if p.get("box_sizes") else None, nfiles=p.get("nfiles", 2),
                     layout=p.get("layout", "shuffled"), payload=p.get("payload", "random"), seed=p["seed"])
    chk = os.path.join(wd, p.get("chk_name", "chk00007"))
    gen.write_checkpoint(chk, ck)
    before = tree_digest(chk)
    ref = None
    if p.get("species_source") == "plotfile":
        # a reference plotfile that only provides species names
        rp = gen.make_pf(ndims=3, names=[f"Y({s})" for s in ck.species] + ["temp"], n0=(8, 8, 8), nlevels=1, nfiles=1, seed=1)
        ref = os.path.join(wd, "ref_plt")
        gen.write_plotfile(ref, rp)
    combos = [(g, r, f) for g in (True, False) for r in (False, True) for f in (True, False)]
    rng.shuffle(combos)
    if p.get("force_floor"):
        combos.sort(key=lambda c: not c[2])          # the flooring variants first
    for ci, (gradp, reac, floor) in enumerate(combos[: p.get("ncombos", 3)]):
        out = os.path.join(wd, f"plt_out_{ci}")
        what = f"chk2plt(chk, gradp={gradp}, species_reactions={reac}, floor_massfracs={floor}, ghost={ck.ghost})"
        checks += 1
        try:
            if ref:
                chk2plt(chk, target_plotfile=ref, gradp=gradp, species_reactions=reac, floor_massfracs=floor, pltdir=out)
            else:
                chk2plt(chk, species=list(ck.species), gradp=gradp, species_reactions=reac, floor_massfracs=floor, pltdir=out)
        except Exception as e:      # noqa
            fails.append({"what": "chk2plt raised on a valid checkpoint", "call": what, "detail": f"{type(e).__name__}: {str(e)[:120]}"})
            continue
        exp = ck_expected(ck, gradp, reac, floor)
        n0 = len(fails)
        compare_plotfile(out, exp, fails, "chk2plt output", data_mode="bits" if not floor else "close", rtol=1e-14, minmax_rtol=1e-12,
                         geom_rtol=1e-13)
        if len(fails) == n0:
            taste_ok(out, fails, "chk2plt output", coords=True)
        for f in fails[n0:]:
            f["call"] = what
    if tree_digest(chk) != before:
        fails.append({"what": "chk2plt wrote into the checkpoint", "call": "", "detail": ""})
    return {"fails": fails[:20], "checks": checks}


def merged_expected(pf1, pf2, vars1, vars2):
    """merge(PF1, PF2, vars1, vars2): selected fields of the first, then those of the second not already taken"""
    n1, n2 = list(pf1.names), list(pf2.names)
    s1 = n1 if vars1 is None else [v for v in vars1 if v in n1]
    s2 = n2 if vars2 is None else [v for v in vars2 if v in n2]
    s2 = [v for v in s2 if v not in s1]
    k1, k2 = [n1.index(v) for v in s1], [n2.index(v) for v in s2]
    exp = pf_expected(pf1, comps=k1)
    e2 = pf_expected(pf2, comps=k2)
    exp["names"] = s1 + s2
    for lv in range(pf1.L + 1):
        boxes2 = list(pf2.levels[lv])
        for b, bx in enumerate(pf1.levels[lv]):
            b2 = boxes2.index(bx)
            exp["data"][lv][b] = np.concatenate([exp["data"][lv][b], e2["data"][lv][b2]], axis=-1)
        perm = [boxes2.index(bx) for bx in pf1.levels[lv]]
        exp["mins"][lv] = np.concatenate([exp["mins"][lv], e2["mins"][lv][perm]], axis=1)
        exp["maxs"][lv] = np.concatenate([exp["maxs"][lv], e2["maxs"][lv][perm]], axis=1)
    return exp, s1, s2


def run_combine_scenario(p, wd):
    """C06: combine merges fields box by box whatever the two binary layouts; different meshes are refused before
    anything is written."""
    from amr_kitchen import PlotfileCooker
    from amr_kitchen.combine.combine import combine
    fails = []
    checks = 0
    rng = random.Random(p["seed"])
    names1 = ["density", "temp", "Y(H2)", "pressure"][: p.get("nf1", 3)]
    names2 = ["HeatRelease", "temp", "mag_vort"][: p.get("nf2", 2)]
    pp = dict(p, ndims=3)
    pf1, path1 = make_input(dict(pp, layout=p["layout1"], nfiles=p["nfiles1"]), wd, name="plt_first", names=names1)
    lay2 = p["layout2"]
    if lay2 == "same-as-first":
        layout2 = [(pf1.files[lv], {k: list(v) for k, v in pf1.order[lv].items()}) for lv in range(pf1.L + 1)]
    else:
        layout2 = lay2
    pf2 = gen.make_pf(ndims=3, names=names2, n0=pf1.n0, geo_lo=pf1.geo_lo, dx0=pf1.dx0, levels=pf1.levels, time=pf1.time,
                      nfiles=p["nfiles2"], layout=layout2, seed=p["seed"] + 77, payload="random")
    path2 = os.path.join(wd, "plt_second")
    gen.write_plotfile(path2, pf2)
    d1, d2 = tree_digest(path1), tree_digest(path2)
    sels = [(None, None), (names1[:1], None), (None, names2[-1:]), (list(reversed(names1)), list(names2)),
            (names1[:2] + ["no_such"], ["temp", names2[0]])]
    rng.shuffle(sels)
    for ci, (v1, v2) in enumerate(sels[: p.get("ncombos", 3)]):
        out = os.path.join(wd, f"comb_{ci}")
        as_str = (ci % 2 == 1)
        a1 = None if v1 is None else (" ".join(v1) if as_str else list(v1))
        a2 = None if v2 is None else (" ".join(v2) if as_str else list(v2))
        what = f"combine(first[{p['layout1']}], second[{p['layout2']}], vars1={a1!r}, vars2={a2!r})"
        checks += 1
        try:
            combine(PlotfileCooker(path1), PlotfileCooker(path2), pltout=out, vars1=a1, vars2=a2)
        except Exception as e:      # noqa
            exp, s1, s2 = merged_expected(pf1, pf2, v1, v2)
            if not s2 or not s1:
                continue        # nothing to take from one side: refusing is the documented behaviour
            fails.append({"what": "combine raised on a valid request", "call": what, "detail": f"{type(e).__name__}: {str(e)[:120]}"})
            continue
        exp, s1, s2 = merged_expected(pf1, pf2, v1, v2)
        n0 = len(fails)
        compare_plotfile(out, exp, fails, "combine output")
        if len(fails) == n0:
            taste_ok(out, fails, "combine output")
        for f in fails[n0:]:
            f["call"] = what
    # refusals: other level count, other boxes -> error before anything is written
    other = gen.make_pf(ndims=3, names=["zeta"], n0=pf1.n0, geo_lo=pf1.geo_lo, dx0=pf1.dx0, levels=pf1.levels[:-1] if pf1.L > 0 else None,
                        nlevels=pf1.L + 2 if pf1.L == 0 else None or 1, nfiles=1, seed=5, time=pf1.time)
    other_path = os.path.join(wd, "plt_other_levels")
    gen.write_plotfile(other_path, other)
    shifted_levels = [list(lv) for lv in pf1.levels]
    if pf1.L >= 1 and len(shifted_levels[-1]) > 1:
        shifted_levels[-1] = shifted_levels[-1][:-1]       # one box less at the finest level
        ob = gen.make_pf(ndims=3, names=["zeta"], n0=pf1.n0, geo_lo=pf1.geo_lo, dx0=pf1.dx0, levels=shifted_levels, nfiles=1,
                         seed=6, time=pf1.time)
        ob_path = os.path.join(wd, "plt_other_boxes")
        gen.write_plotfile(ob_path, ob)
    else:
        ob_path = None
    # the same physical decomposition at twice the resolution: same level count, same physical box bounds, other index ranges
    fine = gen.make_pf(ndims=3, names=["zeta"], n0=tuple(2 * n for n in pf1.n0), geo_lo=pf1.geo_lo, dx0=tuple(d / 2 for d in pf1.dx0),
                       levels=[[(tuple(2 * x for x in lo), tuple(2 * x + 1 for x in hi)) for lo, hi in lvb] for lvb in pf1.levels],
                       nfiles=1, seed=7, time=pf1.time)
    fine_path = os.path.join(wd, "plt_same_boxes_finer_cells")
    gen.write_plotfile(fine_path, fine)
    # the same index ranges on another physical domain (other origin)
    moved = gen.make_pf(ndims=3, names=["zeta"], n0=pf1.n0, geo_lo=tuple(g + 3.0 for g in pf1.geo_lo), dx0=pf1.dx0, levels=pf1.levels,
                        nfiles=1, seed=8, time=pf1.time)
    moved_path = os.path.join(wd, "plt_same_indices_other_origin")
    gen.write_plotfile(moved_path, moved)
    for desc_, bad in (("different level count", other_path), ("different boxes", ob_path),
                       ("same physical boxes, finer cells (other index ranges)", fine_path),
                       ("same index ranges, other physical domain", moved_path)):
        if bad is None:
            continue
        out = os.path.join(wd, "comb_refused_" + desc_.replace(" ", "_"))
        checks += 1
        try:
            combine(PlotfileCooker(path1), PlotfileCooker(bad), pltout=out)
            fails.append({"what": "combine accepted inputs on different meshes", "call": desc_, "detail": ""})
        except Exception:
            if os.path.exists(out) and any(True for _ in os.scandir(out)):
                fails.append({"what": "combine wrote output before refusing different meshes", "call": desc_,
                              "detail": str(os.listdir(out))[:80]})
    if tree_digest(path1) != d1 or tree_digest(path2) != d2:
        fails.append({"what": "combine modified an input plotfile", "call": "", "detail": ""})
    return {"fails": fails[:20], "checks": checks}
