"""Run-time contracts of the writing tools (colander, combine, chef, chk2plt, mandoline-plotfile) on generated inputs."""
import os
import random
import numpy as np
from replay import gen
from .rt_common import compare_plotfile, pf_expected, taste_ok, tree_digest


def make_input(p, wd, name="plt_in", names=None, payload="coded", specials=True):
    nd = p["ndims"]
    nf = p.get("nf", 3)
    names = names or [["density", "temp", "Y(H2)", "Y(O2)", "x_velocity", "pressure", "mag_vort", "Y(N2)"][i % 8] +
                      ("" if i < 8 else f"_{i}") for i in range(nf)]
    n0 = tuple(p.get("n0") or ((16, 16, 16) if nd == 3 else (32, 16)))
    pf = gen.make_pf(ndims=nd, names=names, n0=n0, geo_lo=tuple(p.get("geo_lo", (1., 2., 3.)))[:nd],
                     dx0=tuple(p.get("dx0", (0.1, 0.2, 0.4)))[:nd], nlevels=p.get("nlevels", 2),
                     nfiles=p.get("nfiles", 2), layout=p.get("layout", "shuffled"), seed=p.get("seed", 0),
                     box=p.get("box", 8), box_sizes=tuple(p["box_sizes"]) if p.get("box_sizes") else None,
                     payload=payload, time=p.get("time", 0.1 + p.get("seed", 0) * 1e-3),
                     ref_line_extra=p.get("ref_line_extra", 0),
                     levels=[[(tuple(lo), tuple(hi)) for lo, hi in lv] for lv in p["levels"]] if p.get("levels") else None)
    if specials:
        rng = random.Random(p.get("seed", 0) + 17)
        for val in (float("inf"), 5e-324, -0.0):
            lv = rng.randrange(pf.L + 1)
            b = rng.randrange(pf.nboxes(lv))
            arr = pf.data[lv][b]
            arr[tuple(rng.randrange(s) for s in arr.shape)] = val
    path = os.path.join(wd, name)
    gen.write_plotfile(path, pf)
    return pf, path


def run_colander_scenario(p, wd):
    from amr_kitchen.colander.colander import Colander
    fails = []
    checks = 0
    pf, path = make_input(p, wd)
    before = tree_digest(path)
    rng = random.Random(p["seed"])
    names = list(pf.names)
    sels = [["all"], [names[-1]], list(reversed(names)), [names[0], "no_such_field", names[-1]]]
    if len(names) >= 3:
        sels.append(rng.sample(names, 2))
    limits = [None] + list(range(pf.L + 1))
    combos = [(s, l) for s in sels for l in limits]
    rng.shuffle(combos)
    for i, (sel, lim) in enumerate(combos[: p.get("ncombos", 4)]):
        out = os.path.join(wd, f"out{i}")
        what = f"colander(variables={sel}, limit_level={lim})"
        checks += 1
        try:
            Colander(plotfile=path, limit_level=lim, output=out, variables=list(sel)).strain()
        except Exception as e:      # noqa
            fails.append({"what": "colander raised on a valid request", "call": what,
                          "detail": f"{type(e).__name__}: {str(e)[:150]}"})
            continue
        kept = list(range(len(names))) if sel == ["all"] else [names.index(v) for v in sel if v in names]
        L = pf.L if lim is None else lim
        exp = pf_expected(pf, comps=kept, L=L)
        n0 = len(fails)
        compare_plotfile(out, exp, fails, what)
        if len(fails) == n0:
            taste_ok(out, fails, what)
        for f in fails[n0:]:
            f["call"] = what
    if tree_digest(path) != before:
        fails.append({"what": "colander modified its input plotfile", "call": "", "detail": ""})
    return {"fails": fails[:20], "checks": checks}


def run_whip_scenario(p, wd):
    """C10: the saved uniform grid is the covering grid of the field (finest level <= limit wins, replicated), cast to
    the dtype, axes (x,y,z), for every completion order of the per-file tasks."""
    import sys
    from replay import oracle
    from harness.fakepool import patch_pools
    import amr_kitchen.whip.cli as whip
    fails = []
    checks = 0
    pf, path = make_input(p, wd)
    rng = random.Random(p["seed"])
    names = list(pf.names)
    combos = []
    for dtype in ("float64", "float32"):
        for lim in [None] + list(range(pf.L + 1)):
            combos.append((rng.choice(names), dtype, lim))
    rng.shuffle(combos)
    orders = p.get("orders", ["real", "shuffle", "reversed"])
    for ci, (field, dtype, lim) in enumerate(combos[: p.get("ncombos", 3)]):
        comp = names.index(field)
        exp, lvl = oracle.covering_grid(path, comp, limit=lim, with_level=True)
        exp = exp.astype(dtype)
        for oi, order in enumerate(orders):
            out = os.path.join(wd, f"ug_{ci}_{oi}")
            argv = ["whip", "-v", field, "-o", out, "-y", "-d", dtype, path]
            if lim is not None:
                argv[1:1] = ["-l", str(lim)]
            what = f"whip {' '.join(argv[1:-1])} <plt> (completion order: {order})"
            restore = patch_pools(order, p["seed"] + oi) if order != "real" else (lambda: None)
            old_argv = sys.argv
            sys.argv = argv
            checks += 1
            try:
                whip.main()
            except SystemExit as e:
                fails.append({"what": "whip exited instead of writing the grid", "call": what, "detail": str(e.code)})
                continue
            except Exception as e:      # noqa
                fails.append({"what": "whip raised on a valid request", "call": what, "detail": f"{type(e).__name__}: {str(e)[:120]}"})
                continue
            finally:
                sys.argv = old_argv
                restore()
            try:
                got = np.load(out + ".npy")
            except Exception as e:      # noqa
                fails.append({"what": "whip output not found", "call": what, "detail": str(e)[:100]})
                continue
            if got.shape != exp.shape or got.dtype != exp.dtype:
                fails.append({"what": "uniform grid has wrong shape/dtype (level limit or axes)", "call": what,
                              "detail": f"{got.shape} {got.dtype} vs {exp.shape} {exp.dtype}"})
                continue
            same = (got == exp) | (np.isnan(got) & np.isnan(exp))
            if not same.all():
                bad = np.argwhere(~same)[0]
                fails.append({"what": "uniform grid differs from the covering grid", "call": what,
                              "detail": f"{int((~same).sum())} cells differ, first {tuple(int(x) for x in bad)}: {got[tuple(bad)]} vs {exp[tuple(bad)]} (level {lvl[tuple(bad)]})"})
    return {"fails": fails[:20], "checks": checks}


def expected_integral(pf, comp, limit, vf=None):
    """sum over cells not covered by a finer selected level of value * dV (* volFrac): every point exactly once"""
    total = 0.0
    for lv in range(limit + 1):
        dV = float(np.prod(pf.dx(lv)))
        for b, (lo, hi) in enumerate(pf.levels[lv]):
            vals = pf.data[lv][b][..., comp].astype(float)
            if vf is not None:
                vals = vals * pf.data[lv][b][..., vf]
            keep = np.ones(vals.shape, dtype=bool)
            if lv < limit:
                for (flo, fhi) in pf.levels[lv + 1]:
                    clo = [max(l // 2, a) for l, a in zip(flo, lo)]
                    chi = [min(h // 2, c) for h, c in zip(fhi, hi)]
                    if all(x <= y for x, y in zip(clo, chi)):
                        sl = tuple(slice(x - a, y - a + 1) for x, y, a in zip(clo, chi, lo))
                        keep[sl] = False
            total += dV * float(np.sum(vals[keep]))
    return total


def run_pestle_scenario(p, wd):
    """C09: volume_integral(pck, field, limit_level, use_volfrac) counts every point of the domain exactly once."""
    from amr_kitchen import PlotfileCooker
    from amr_kitchen.pestle.pestle import volume_integral
    fails = []
    checks = 0
    nf = p.get("nf", 3)
    names = ["density", "temp", "volFrac", "Y(H2)", "pressure"][:max(3, nf)]

    def payload(lv, b, lo, hi, X, Y, Z, c):
        r = np.random.default_rng(p["seed"] * 100003 + lv * 1009 + b * 31 + c)
        if names[c] == "volFrac":
            return r.uniform(0.0, 1.0, size=X.shape)
        return 1.0 + r.uniform(0.0, 1.0, size=X.shape) + 0.1 * X
    pf, path = make_input(p, wd, names=names, payload=payload, specials=False)
    vf = names.index("volFrac")
    rng = random.Random(p["seed"])
    combos = []
    for lim in [None] + list(range(pf.L + 1)):
        for use_vf in (False, True):
            combos.append((rng.choice([n for n in names if n != "volFrac"]), lim, use_vf))
    rng.shuffle(combos)
    pck = None
    for field, lim, use_vf in combos[: p.get("ncombos", 4)]:
        what = f"volume_integral(pck, {field!r}, limit_level={lim}, use_volfrac={use_vf})"
        checks += 1
        L = pf.L if lim is None else lim
        exp = expected_integral(pf, names.index(field), L, vf if use_vf else None)
        try:
            if pck is None:
                pck = PlotfileCooker(path, ghost=True)
            got = volume_integral(pck, field, limit_level=lim, use_volfrac=use_vf)
        except Exception as e:      # noqa
            fails.append({"what": "volume_integral raised on a valid request", "call": what,
                          "detail": f"{type(e).__name__}: {str(e)[:120]}", "limit": lim,
                          "mixed": bool(p.get("box_sizes"))})
            continue
        if not np.isfinite(got) or abs(got - exp) > 1e-9 * max(abs(exp), 1e-300):
            fails.append({"what": "volume integral differs from the exactly-once sum", "call": what,
                          "detail": f"{got!r} vs {exp!r} (rel {abs(got - exp) / abs(exp):.3e})", "limit": lim,
                          "mixed": bool(p.get("box_sizes"))})
    return {"fails": fails[:20], "checks": checks}
