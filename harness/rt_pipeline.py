"""C14 bounded layer: every tool output is a valid tool input; pipelines equal the composed pure operations.
C12 bounded layer: outputs do not depend on worker count, task order or serial/parallel mode."""
import copy
import os
import random
import numpy as np
from replay import gen
from .rt_tools import make_input
from .rt_common import compare_plotfile, pf_expected, taste_ok, tree_digest, bits_equal

RECIPE = '''
def recipe(field_indexes, box_array):
    """%(name)s"""
    return 2.0 * box_array[..., 0] + 1.0
'''


def minmax(exp):
    exp["mins"] = [np.array([np.min(d, axis=tuple(range(d.ndim - 1))) for d in lvd]).reshape(len(lvd), -1) for lvd in exp["data"]]
    exp["maxs"] = [np.array([np.max(d, axis=tuple(range(d.ndim - 1))) for d in lvd]).reshape(len(lvd), -1) for lvd in exp["data"]]
    return exp


def op_colander(exp, variables, limit):
    names = exp["names"]
    kept = list(range(len(names))) if variables == ["all"] else [names.index(v) for v in variables if v in names]
    L = exp["L"] if limit is None else limit
    out = dict(exp)
    out["names"] = [names[k] for k in kept]
    out["L"] = L
    for k in ("n", "dx", "boxes", "bounds"):
        out[k] = exp[k][: L + 1]
    out["data"] = [[d[..., kept] for d in lvd] for lvd in exp["data"][: L + 1]]
    return minmax(out)


def op_chef(exp, newname, kept):
    names = exp["names"]
    kidx = [names.index(k) for k in kept if k in names]
    out = dict(exp)
    out["names"] = [names[k] for k in kidx] + [newname]
    out["data"] = [[np.concatenate([d[..., kidx], (2.0 * d[..., 0] + 1.0)[..., None]], axis=-1) for d in lvd] for lvd in exp["data"]]
    return minmax(out)


def op_combine(e1, e2, v1, v2):
    n1, n2 = e1["names"], e2["names"]
    s1 = n1 if v1 is None else [v for v in v1 if v in n1]
    s2 = n2 if v2 is None else [v for v in v2 if v in n2]
    s2 = [v for v in s2 if v not in s1]
    k1, k2 = [n1.index(v) for v in s1], [n2.index(v) for v in s2]
    out = dict(e1)
    out["names"] = s1 + s2
    out["data"] = [[np.concatenate([a[..., k1], b[..., k2]], axis=-1) for a, b in zip(la, lb)] for la, lb in zip(e1["data"], e2["data"])]
    return minmax(out), s1, s2


def same_mesh(e1, e2):
    """same boxes on the levels both have (the deeper one is then opened with limit_level = the shallower one's depth)"""
    return all(list(map(tuple, a)) == list(map(tuple, b)) for a, b in zip(e1["boxes"], e2["boxes"])) \
        and e1["ndims"] == 3 and e2["ndims"] == 3


def apply_op(kind, states, cur, wd, step, rng, fails):
    """states: list of (path, exp); cur index. Returns new (path, exp) or None when the op is not applicable."""
    from amr_kitchen import PlotfileCooker
    path, exp = states[cur]
    out = os.path.join(wd, f"step{step}_{kind}")
    if kind == "colander":
        from amr_kitchen.colander.colander import Colander
        nm = exp["names"]
        variables = rng.choice([["all"], list(reversed(nm)), rng.sample(nm, max(1, len(nm) - 1)), [nm[0], "zzz_missing"]])
        limit = rng.choice([None] + list(range(exp["L"] + 1)))
        desc = f"colander(variables={variables}, limit_level={limit})"
        Colander(plotfile=path, limit_level=limit, output=out, variables=list(variables)).strain()
        return out, op_colander(exp, variables, limit), desc
    if kind == "chef":
        from amr_kitchen.chef.chef import Chef
        if exp["ndims"] != 3:
            return None
        newname = f"derived{step}"
        rec = os.path.join(wd, f"recipe_{step}.py")
        with open(rec, "w") as fh:
            fh.write(RECIPE % {"name": newname})
        kept = rng.choice([[], [exp["names"][-1]], list(exp["names"])])
        desc = f"chef(user recipe -> {newname}, kept_fields={kept})"
        Chef(plotfile=path, recipe=rec, outfile=out, serial=bool(rng.getrandbits(1)), kept_fields=" ".join(kept) if kept else None).cook()
        return out, op_chef(exp, newname, kept), desc
    if kind == "combine":
        from amr_kitchen.combine.combine import combine
        if exp["ndims"] != 3:
            return None
        cands = [i for i, (p2, e2) in enumerate(states) if i != cur and same_mesh(exp, e2) and
                 any(n not in exp["names"] for n in e2["names"])]
        if not cands:
            return None
        j = rng.choice(cands)
        p2, e2 = states[j]
        v1 = rng.choice([None, exp["names"][:1]])
        v2 = rng.choice([None, [n for n in e2["names"] if n not in (v1 or exp["names"])][:1] or None])
        Lm = min(exp["L"], e2["L"])
        l1 = Lm if exp["L"] > Lm else rng.choice([None, Lm])
        l2 = Lm if e2["L"] > Lm else rng.choice([None, Lm])
        desc = f"combine(PlotfileCooker(current, limit_level={l1}), PlotfileCooker(state{j}, limit_level={l2}), vars1={v1}, vars2={v2})"
        new, s1, s2 = op_combine(op_colander(exp, ["all"], Lm), op_colander(e2, ["all"], Lm), v1, v2)
        combine(PlotfileCooker(path, limit_level=l1), PlotfileCooker(p2, limit_level=l2), pltout=out, vars1=v1, vars2=v2)
        return out, new, desc
    raise ValueError(kind)


def run_pipeline_scenario(p, wd):
    fails = []
    checks = 0
    rng = random.Random(p["seed"])
    nd = p.get("ndims", 3)
    names = ["alpha", "beta", "gamma"][: p.get("nf", 3)]
    pf, path = make_input(dict(p, ndims=nd, nf=len(names)), wd, names=names, payload="random")
    root = pf_expected(pf)
    # a sibling on the same mesh with other fields and another layout
    sib = gen.make_pf(ndims=nd, names=["sigma", "tau"], n0=pf.n0, geo_lo=pf.geo_lo, dx0=pf.dx0, levels=pf.levels, time=pf.time,
                      nfiles=3, layout="shuffled", seed=p["seed"] + 9, payload="random")
    sib_path = os.path.join(wd, "plt_sibling")
    gen.write_plotfile(sib_path, sib)
    for seq in p["sequences"]:
        states = [(path, root), (sib_path, pf_expected(sib))]
        cur = 0
        history = []
        for step, kind in enumerate(seq):
            checks += 1
            try:
                r = apply_op(kind, states, cur, os.path.join(wd), f"{len(fails)}_{checks}_{step}", rng, fails)
            except Exception as e:      # noqa
                fails.append({"what": f"{kind} raised on the output of a previous tool", "call": " -> ".join(history + [kind]),
                              "detail": f"{type(e).__name__}: {str(e)[:140]}"})
                break
            if r is None:
                continue
            out, new, desc = r
            history.append(desc)
            n0 = len(fails)
            compare_plotfile(out, new, fails, "pipeline result differs from the composed pure operations")
            if len(fails) == n0:
                taste_ok(out, fails, "intermediate result")
            for f in fails[n0:]:
                f["call"] = " -> ".join(history)
            if len(fails) > n0:
                break
            states.append((out, new))
            cur = len(states) - 1
        if len(fails) > 6:
            break
    # named corollaries
    if nd == 3:
        from amr_kitchen.colander.colander import Colander
        from amr_kitchen.chef.chef import Chef
        from amr_kitchen.combine.combine import combine
        from amr_kitchen import PlotfileCooker
        checks += 2
        try:
            ident = os.path.join(wd, "identity")
            Colander(plotfile=path, output=ident, variables=["all"]).strain()
            n0 = len(fails)
            compare_plotfile(ident, root, fails, "straining with all fields and levels is not the identity on contents")
            rec = os.path.join(wd, "recipe_cor.py")
            with open(rec, "w") as fh:
                fh.write(RECIPE % {"name": "derived_cor"})
            ck = os.path.join(wd, "cooked")
            Chef(plotfile=path, recipe=rec, outfile=ck, serial=True).cook()
            back = os.path.join(wd, "cooked_back")
            combine(PlotfileCooker(path), PlotfileCooker(ck), pltout=back)
            exp, _, _ = op_combine(root, op_chef(root, "derived_cor", []), None, None)
            compare_plotfile(back, exp, fails, "cooking a field and combining it back is not original + new field")
            if len(fails) == n0:
                taste_ok(back, fails, "cook+combine result")
        except Exception as e:      # noqa
            fails.append({"what": "corollary pipeline raised", "call": "colander(all) / chef -> combine", "detail": f"{type(e).__name__}: {str(e)[:140]}"})
        # a level-limited descendant combined back into its ancestor (opened with the same level limit), then used again
        for lim in range(root["L"]):
            checks += 1
            call = f"colander([{names[-1]}], limit_level={lim}) -> combine(PlotfileCooker(ancestor, limit_level={lim}), strained) -> colander(all)"
            try:
                st = os.path.join(wd, f"lim{lim}_strained")
                Colander(plotfile=path, limit_level=lim, output=st, variables=[names[-1]]).strain()
                back = os.path.join(wd, f"lim{lim}_back")
                combine(PlotfileCooker(path, limit_level=lim), PlotfileCooker(st), pltout=back, vars1=names[:1], vars2=None)
                exp, _, _ = op_combine(op_colander(root, ["all"], lim), op_colander(root, [names[-1]], lim), names[:1], None)
                n0 = len(fails)
                compare_plotfile(back, exp, fails, "level-limited descendant combined with its ancestor differs from the composed operations")
                if len(fails) == n0:
                    taste_ok(back, fails, "limited combine result")
                    again = os.path.join(wd, f"lim{lim}_again")
                    Colander(plotfile=back, output=again, variables=["all"]).strain()
                    compare_plotfile(again, exp, fails, "straining the limited combine result is not the identity")
                for f in fails[n0:]:
                    f["call"] = call
            except Exception as e:      # noqa
                fails.append({"what": "tool raised on the output of a previous tool", "call": call, "detail": f"{type(e).__name__}: {str(e)[:140]}"})
    return {"fails": fails[:20], "checks": checks}


# -----------------------------------------------------------------------------------------------------------------
# C12


def _real_pool_with(k):
    import multiprocessing

    class P:
        def __new__(cls, *a, **kw):
            return multiprocessing.get_context("fork").Pool(processes=k)
    return P


def schedules(p):
    """(label, patcher) list: controllable pool in several orders + the real pool with 1 / 2 / 16 workers."""
    from .fakepool import patch_pools
    out = [("in-process submission order", lambda: patch_pools("submission", 0)),
           ("in-process reversed order", lambda: patch_pools("reversed", 0))]
    for s in range(p.get("nshuffles", 2)):
        out.append((f"in-process shuffled order #{s}", lambda s=s: patch_pools("shuffle", p["seed"] + s)))
    for k in p.get("workers", []):
        def patch(k=k):
            import importlib
            undo = []
            for modname, attr in (("amr_kitchen.plotfile_cooker", "multiprocessing"), ("amr_kitchen.taste.taste", "multiprocessing"),
                                  ("amr_kitchen.colander.colander", "multiprocessing"), ("amr_kitchen.combine.combine", "multiprocessing"),
                                  ("amr_kitchen.mandoline.mandoline", "multiprocessing"), ("amr_kitchen.pestle.pestle", "multiprocessing"),
                                  ("amr_kitchen.whip.cli", "multiprocessing"), ("amr_kitchen.chk2plt.chk2plt", "Pool")):
                m = importlib.import_module(modname)
                old = getattr(m, attr)
                if attr == "multiprocessing":
                    class MP:
                        Pool = _real_pool_with(k)

                        def __getattr__(self, n):
                            import multiprocessing
                            return getattr(multiprocessing, n)
                    setattr(m, attr, MP())
                else:
                    setattr(m, attr, _real_pool_with(k))
                undo.append((m, attr, old))
            return lambda: [setattr(m, a, o) for m, a, o in undo]
        out.append((f"real pool with {k} worker(s)", patch))
    return out


def run_schedule_scenario(p, wd):
    """Each pool-using tool is run under several schedules; files must be byte-identical and values equal."""
    import sys
    from amr_kitchen import PlotfileCooker
    fails = []
    checks = 0
    rng = random.Random(p["seed"])
    names = ["density", "temp", "volFrac"]

    def payload(lv, b, lo, hi, X, Y, Z, c):
        r = np.random.default_rng(p["seed"] * 977 + lv * 31 + b * 5 + c)
        return r.uniform(0.1, 1.0, size=X.shape)
    pf, path = make_input(dict(p, ndims=3, nf=3), wd, names=names, payload=payload, specials=False)
    pf2d, path2d = make_input(dict({k: v for k, v in p.items() if k not in ("levels", "box_sizes")}, ndims=2, nf=2, n0=[32, 16]), wd,
                              name="plt2d", names=["a", "b"], payload="random", specials=False)
    sib = gen.make_pf(ndims=3, names=["sigma"], n0=pf.n0, geo_lo=pf.geo_lo, dx0=pf.dx0, levels=pf.levels, time=pf.time, nfiles=2,
                      layout="shuffled", seed=p["seed"] + 3, payload="random")
    sib_path = os.path.join(wd, "plt_sib")
    gen.write_plotfile(sib_path, sib)
    ck = gen.make_ck(n0=(16, 16, 8), nspecies=2, ghost=2, nlevels=2, nfiles=3, seed=p["seed"], payload="massfrac")
    ck_path = os.path.join(wd, "chk00003")
    gen.write_checkpoint(ck_path, ck)
    rec = os.path.join(wd, "rec.py")
    with open(rec, "w") as fh:
        fh.write(RECIPE % {"name": "derived"})

    def t_colander(out):
        from amr_kitchen.colander.colander import Colander
        Colander(plotfile=path, output=out, variables=["temp", "density"]).strain()
        return None

    def t_combine(out):
        from amr_kitchen.combine.combine import combine
        combine(PlotfileCooker(path), PlotfileCooker(sib_path), pltout=out)

    def t_chef(out, serial=False):
        from amr_kitchen.chef.chef import Chef
        import amr_kitchen.chef.chef as cm
        from .fakepool import FakePool
        old = cm.Pool
        if old.__name__ != "FakePool" and not serial:
            cm.Pool = FakePool       # pathos caches one pool per process: only the controllable pool is varied for chef
        try:
            Chef(plotfile=path, recipe=rec, outfile=out, serial=serial, kept_fields="temp").cook()
        finally:
            cm.Pool = old

    def t_chef_serial(out):
        return t_chef(out, serial=True)

    def t_chk(out):
        from amr_kitchen.chk2plt.chk2plt import chk2plt
        chk2plt(ck_path, species=["S0", "S1"], pltdir=out)

    def t_mand_plt(out):
        from amr_kitchen.mandoline.mandoline import Mandoline
        Mandoline(path, fields=["temp", "density"], serial=False, verbose=0).slice(normal=1, outfile=out, fformat="plotfile")

    def t_mand_plt_serial(out):
        from amr_kitchen.mandoline.mandoline import Mandoline
        Mandoline(path, fields=["temp", "density"], serial=True, verbose=0).slice(normal=1, outfile=out, fformat="plotfile")

    def t_mand_ret(out):
        from amr_kitchen.mandoline.mandoline import Mandoline
        r = Mandoline(path, fields=["temp", "grid_level"], serial=False, verbose=0).slice(normal=2, fformat="return")
        return [r["temp"], r["grid_level"]]

    def t_mand_ret_serial(out):
        from amr_kitchen.mandoline.mandoline import Mandoline
        r = Mandoline(path, fields=["temp", "grid_level"], serial=True, verbose=0).slice(normal=2, fformat="return")
        return [r["temp"], r["grid_level"]]

    def t_plate(out):
        from amr_kitchen.mandoline.mandoline import Mandoline
        r = Mandoline(path2d, fields=["a", "b"], serial=False, verbose=0).slice(fformat="return")
        return [r["a"], r["b"]]

    def t_plate_serial(out):
        from amr_kitchen.mandoline.mandoline import Mandoline
        r = Mandoline(path2d, fields=["a", "b"], serial=True, verbose=0).slice(fformat="return")
        return [r["a"], r["b"]]

    def t_pestle(out):
        from amr_kitchen.pestle.pestle import volume_integral
        pck = PlotfileCooker(path, ghost=True)
        return [np.array([volume_integral(pck, "temp"), volume_integral(pck, "density", use_volfrac=True)])]

    def t_whip(out):
        import amr_kitchen.whip.cli as w
        old = sys.argv
        sys.argv = ["whip", "-v", "temp", "-y", "-o", out, path]
        try:
            w.main()
        finally:
            sys.argv = old

    def t_reader(out):
        pck = PlotfileCooker(path)
        nb = len(pck.cells[pck.limit_level]["files"])
        sel = list(range(nb))[::-1][: 6]
        # (a list selection not starting at the first field, read through one stream for many boxes and box by box)
        lst = pck[[1, 2]][pck.limit_level]
        return list(pck[:][pck.limit_level][sel]) + list(pck[1][0][:]) + list(lst[:]) + [lst[0], lst[nb - 1]] + \
            list(pck[["temp", "volFrac"]][0][[len(pck.cells[0]["files"]) - 1, 0]])

    def t_iter(out):
        pck = PlotfileCooker(path)
        # the SEQUENCE is compared (the order is unspecified by C15 but must not depend on the schedule: C12)
        return list(pck[0:2][pck.limit_level])

    def t_taste(out):
        from amr_kitchen.taste.taste import Taster
        return [np.array([bool(Taster(path, verbose=0, nofail=True, boxes_coordinates=True))])]

    tools = [("colander", t_colander, None), ("combine", t_combine, None), ("chef", t_chef, t_chef_serial),
             ("chk2plt", t_chk, None), ("mandoline plotfile", t_mand_plt, t_mand_plt_serial),
             ("mandoline return", t_mand_ret, t_mand_ret_serial), ("mandoline 2D", t_plate, t_plate_serial),
             ("pestle", t_pestle, None), ("whip", t_whip, None), ("reader selection", t_reader, None),
             ("reader iteration", t_iter, None), ("taste", t_taste, None)]
    if p.get("tools"):
        tools = [t for t in tools if t[0] in p["tools"]]
    scheds = schedules(p)
    for name, fn, serial_fn in tools:
        ref = None
        runs = list(scheds) + ([("serial mode", None)] if serial_fn else [])
        for si, (label, patcher) in enumerate(runs):
            out = os.path.join(wd, f"o_{name.replace(' ', '_')}_{si}")
            checks += 1
            restore = patcher() if patcher else (lambda: None)
            try:
                val = (serial_fn if label == "serial mode" else fn)(out)
            except Exception as e:      # noqa
                fails.append({"what": "tool raised under a schedule", "call": f"{name} [{label}]", "detail": f"{type(e).__name__}: {str(e)[:120]}"})
                continue
            finally:
                restore()
            dig = None
            if os.path.isdir(out):
                dig = tree_digest(out)
            elif os.path.exists(out + ".npy"):
                dig = tree_digest(os.path.dirname(out)) if False else __import__("hashlib").sha256(open(out + ".npy", "rb").read()).hexdigest()
            res = (dig, val)
            if ref is None:
                ref = (label, res)
                continue
            rl, (rd, rv) = ref
            if dig != rd:
                fails.append({"what": "files written differ between schedules / worker counts / modes", "call": name,
                              "detail": f"[{label}] vs [{rl}]"})
            elif (val is None) != (rv is None) or (val is not None and (len(val) != len(rv) or not all(
                    np.asarray(a).shape == np.asarray(b).shape and bits_equal(np.asarray(a, dtype=float), np.asarray(b, dtype=float))
                    for a, b in zip(val, rv)))):
                fails.append({"what": "values returned differ between schedules / worker counts / modes", "call": name,
                              "detail": f"[{label}] vs [{rl}]"})
    return {"fails": fails[:20], "checks": checks}
