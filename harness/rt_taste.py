"""Run-time contracts of taste (bounded layer of C03 / C04 / C20)."""
import itertools
import os
import random
import shutil
import numpy as np
from replay import gen, oracle
from .rt_tools import make_input
from .rt_common import bits_equal


def _taste(path, **kw):
    from amr_kitchen.taste.taste import Taster
    return Taster(path, verbose=0, **kw)


def run_accept_scenario(p, wd):
    """C03: every option combination accepts a well-formed plotfile, in both modes, for every level limit."""
    fails = []
    checks = 0
    pf, path = make_input(p, wd, specials=False)
    rng = random.Random(p["seed"])
    limits = [None] + list(range(pf.L + 1))
    for bh, bs, bd, bc in itertools.product([True, False], repeat=4):
        lims = limits if p.get("all_limits") else [rng.choice(limits)]
        for lim in lims:
            for nofail in (True, False):
                checks += 1
                kw = dict(binary_headers=bh, binary_shape=bs, binary_data=bd, boxes_coordinates=bc,
                          limit_level=lim, nofail=nofail)
                call = f"Taster(good, {kw})"
                finding = "D2" if (bd and not (bh and bs)) else None
                try:
                    t = _taste(path, **kw)
                    if not bool(t):
                        fails.append({"what": "taste rejects a well-formed plotfile", "call": call, "detail": "",
                                      "finding": finding})
                except Exception as e:      # noqa
                    fails.append({"what": "taste raised on a well-formed plotfile", "call": call,
                                  "detail": f"{type(e).__name__}: {str(e)[:120]}", "finding": finding})
    return {"fails": fails[:40], "checks": checks}


# ----------------------------------------------------------------------------------------------------------


def corruption_sites(pf, path, rng, limit, full):
    """Enumerate (description, list of gen.corrupt calls, needs_coords) of the statement's corruption classes at their
    applicable sites within levels 0..limit."""
    info = oracle.read(path)
    out = []
    for lv in range(limit + 1):
        lvi = info["levels"][lv]
        files = sorted(set(lvi["files"]))
        fsel = files if full else [rng.choice(files)]
        for fn in fsel:
            rel = os.path.join(f"Level_{lv}", fn)
            scan = oracle.scan_file(os.path.join(path, rel))
            size = os.path.getsize(os.path.join(path, rel))
            out.append((f"delete {rel}", [("delete_file", dict(file=rel))], False))
            out.append((f"{rel} replaced by a dangling symbolic link (name listed, file missing)", [("_dangling_link", dict(file=rel))], False))
            out.append((f"{rel} replaced by a directory of that name (name listed, no file)", [("_directory", dict(file=rel))], False))
            for nb in ([1, 8, 64] if full else [rng.choice([1, 8, 64])]):
                out.append((f"truncate {rel} by {nb}", [("truncate", dict(file=rel, nbytes=nb))], False))
                out.append((f"extend {rel} by {nb}", [("extend", dict(file=rel, nbytes=nb))], False))
            fabs = [0, len(scan) // 2, len(scan) - 1] if full else [rng.randrange(len(scan))]
            for fi in sorted(set(fabs)):
                lo, hi, nc, hoff, doff, nbytes = scan[fi]
                poss = {"before header": hoff, "inside header": hoff + 5, "start of data": doff,
                        "inside data": doff + 8 * (nbytes // 16), "end of data": doff + nbytes}
                for nm, pos in (poss.items() if full else [rng.choice(list(poss.items()))]):
                    out.append((f"insert 8 bytes {nm} of fab {fi} in {rel}",
                                [("insert", dict(file=rel, pos=pos, bytes=b"\x00" * 7 + b"A"))], False))
                    if pos + 8 <= size:
                        out.append((f"remove 8 bytes {nm} of fab {fi} in {rel}",
                                    [("remove", dict(file=rel, pos=pos, n=8))], False))
            # a FAB that is not the last of its file loses its last value (the following FABs move up by 8 bytes: their
            # recorded offsets then point 8 bytes inside their own header line)
            if len(scan) >= 2:
                for fi in ([0, len(scan) - 2] if full else [len(scan) - 2]):
                    lo, hi, nc, hoff, doff, nbytes = scan[fi]
                    out.append((f"remove the last value of fab {fi} (not the last one) in {rel}",
                                [("remove", dict(file=rel, pos=doff + nbytes - 8, n=8))], False))
        # a FAB is missing from its binary file (the one stored last, so that nothing else moves) and the level-header entry of
        # its box repeats the entry of another box of that file: every recorded position holds a FAB header, the file is a
        # gap-free sequence of FABs - but no FAB of the file names that box
        cellh0 = open(os.path.join(path, f"Level_{lv}", "Cell_H")).read().split("\n")
        fod0 = 5 + lvi["nboxes"] + 2
        for fn in fsel:
            rel = os.path.join(f"Level_{lv}", fn)
            scan = oracle.scan_file(os.path.join(path, rel))
            size = os.path.getsize(os.path.join(path, rel))
            if len(scan) < 2:
                continue
            hoff = scan[-1][3]
            inb = [b for b in range(lvi["nboxes"]) if cellh0[fod0 + b].split()[1] == fn]
            last = [b for b in inb if int(cellh0[fod0 + b].split()[2]) == hoff]
            others = [c for c in inb if c not in last]
            # (both a lower- and a higher-numbered box as the one whose entry is repeated: which of two boxes recorded at
            # one position is looked at first depends on their order)
            for c in ([] if len(last) != 1 else [x for x in (max([o for o in others if o < last[0]], default=None),
                                                            min([o for o in others if o > last[0]], default=None)) if x is not None]):
                out.append((f"last fab of {rel} (box {last[0]}) missing, its file entry repeats the entry of box {c}",
                            [("truncate", dict(file=rel, nbytes=size - hoff)),
                             ("edit_cellh_line", dict(level=lv, lineno=fod0 + last[0], newtext=cellh0[fod0 + c]))], False))
        # level-header edits
        cellh = open(os.path.join(path, f"Level_{lv}", "Cell_H")).read().split("\n")
        nb = lvi["nboxes"]
        first_idx = 5
        first_fod = 5 + nb + 2
        boxes = [0, nb // 2, nb - 1] if full else [rng.randrange(nb)]
        for b in sorted(set(boxes)):
            lo, hi = lvi["indexes"][b]
            nd = len(lo)
            # index range differs between level header and FAB header (shifted box, same shape / other shape)
            lo2 = list(lo)
            hi2 = list(hi)
            lo2[0] += 1
            hi2[0] += 1
            out.append((f"level {lv} header: box {b} index range shifted",
                        [("edit_cellh_line", dict(level=lv, lineno=first_idx + b, newtext=gen.box_str(lo2, hi2)))], False))
            hi3 = list(hi)
            hi3[-1] += 1
            out.append((f"level {lv} header: box {b} index range enlarged",
                        [("edit_cellh_line", dict(level=lv, lineno=first_idx + b, newtext=gen.box_str(lo, hi3)))], False))
            out.append((f"level {lv} header: box {b} index entry unparsable",
                        [("edit_cellh_line", dict(level=lv, lineno=first_idx + b,
                                                  newtext=cellh[first_idx + b].replace(",", ";", 1)))], False))
            fodl = cellh[first_fod + b].split()
            out.append((f"level {lv} header: box {b} names a missing file",
                        [("edit_cellh_line", dict(level=lv, lineno=first_fod + b,
                                                  newtext=f"FabOnDisk: Cell_D_09999 {fodl[2]}"))], False))
            out.append((f"level {lv} header: box {b} offset moved by 8",
                        [("edit_cellh_line", dict(level=lv, lineno=first_fod + b,
                                                  newtext=f"FabOnDisk: {fodl[1]} {int(fodl[2]) + 8}"))], False))
        # a box whose file entry repeats the entry of ANOTHER box of the same binary file (two boxes recorded at one position:
        # what is read there is the other box's FAB)
        for b in sorted(set(boxes)):
            fb = cellh[first_fod + b].split()[1]
            others = [c for c in range(nb) if c != b and cellh[first_fod + c].split()[1] == fb and
                      (tuple(lvi["indexes"][c][0]), tuple(lvi["indexes"][c][1])) != (tuple(lvi["indexes"][b][0]), tuple(lvi["indexes"][b][1]))]
            lowhigh = [x for x in (max([o for o in others if o < b], default=None), min([o for o in others if o > b], default=None))
                       if x is not None]
            for c in (others if full else lowhigh):
                out.append((f"level {lv} header: file entry of box {b} repeats the entry of box {c}",
                            [("edit_cellh_line", dict(level=lv, lineno=first_fod + b, newtext=cellh[first_fod + c]))], False))
        # the box stored FIRST in a binary file (true offset 0): recorded a little inside its own FAB header line
        firsts = [b for b in range(nb) if int(cellh[first_fod + b].split()[2]) == 0]
        for b in (firsts if full else ([rng.choice(firsts)] if firsts else [])):
            fodl = cellh[first_fod + b].split()
            for sh in ([1, 8, 40] if full else [rng.choice([1, 8, 40])]):
                out.append((f"level {lv} header: offset of box {b} (first in {fodl[1]}) recorded as {sh}",
                            [("edit_cellh_line", dict(level=lv, lineno=first_fod + b, newtext=f"FabOnDisk: {fodl[1]} {sh}"))], False))
        for b in sorted(set(boxes)):
            lo, hi = lvi["indexes"][b]
            nd = len(lo)
            fodl = cellh[first_fod + b].split()
            out.append((f"level {lv} header: box {b} offset past end of file",
                        [("edit_cellh_line", dict(level=lv, lineno=first_fod + b,
                                                  newtext=f"FabOnDisk: {fodl[1]} {10 ** 9}"))], False))
            out.append((f"level {lv} header: box {b} file entry unparsable",
                        [("edit_cellh_line", dict(level=lv, lineno=first_fod + b, newtext=f"FabOnDisk: {fodl[1]}"))], False))
            out.append((f"level {lv} header: box {b} offset not a number",
                        [("edit_cellh_line", dict(level=lv, lineno=first_fod + b,
                                                  newtext=f"FabOnDisk: {fodl[1]} 12x"))], False))
            # FAB header edits (shape / component count), offsets of later boxes kept consistent
            out.append((f"fab header of box {b} level {lv}: wrong component count",
                        [("edit_fab_header", dict(level=lv, box=b, newtext=gen.fab_header(lo, hi, info_nf(info) + 1).decode().rstrip("\n")))], False))
            out.append((f"fab header of box {b} level {lv}: wrong shape",
                        [("edit_fab_header", dict(level=lv, box=b, newtext=gen.fab_header(lo, hi3, info_nf(info)).decode().rstrip("\n")))], False))
        # a box or file entry missing altogether
        out.append((f"level {lv} header: last index line removed (count kept)",
                    [("_drop_line", dict(level=lv, lineno=first_idx + nb - 1))], False))
        out.append((f"level {lv} header: last FabOnDisk line removed",
                    [("_drop_line", dict(level=lv, lineno=first_fod + nb - 1))], False))
    # physical box bounds contradicting index ranges (with box-coordinate validation)
    hdr = open(os.path.join(path, "Header")).read().split("\n")
    nf = info_nf(info)
    ln = 1 + 1 + nf + 1 + 1 + 1 + 2 + 1 + 1 + 1 + (info["L"] + 1) + 2     # first "lv nboxes time" line
    for lv in range(limit + 1):
        nb = info["levels"][lv]["nboxes"]
        nd = info["ndims"]
        b = rng.randrange(nb)
        d = rng.randrange(nd)
        lineno = ln + 2 + b * nd + d
        lo_s, hi_s = hdr[lineno].split()
        dx = info["dx"][lv][d]
        out.append((f"Header: bound of box {b} level {lv} dim {d} shifted by one cell",
                    [("edit_header_line", dict(lineno=lineno, newtext=f"{repr(float(lo_s) + dx)} {repr(float(hi_s) + dx)}"))], True))
        out.append((f"Header: upper bound of box {b} level {lv} dim {d} enlarged by one cell",
                    [("edit_header_line", dict(lineno=lineno, newtext=f"{lo_s} {repr(float(hi_s) + dx)}"))], True))
        ln += 2 + nb * nd + 1
    return out


def info_nf(info):
    return len(info["names"])


def apply_corruption(path, calls):
    for kind, site in calls:
        if kind in ("_dangling_link", "_directory"):
            # the name is still listed in the level directory, but what it names cannot be opened as a file: the binary file is
            # missing although os.listdir shows its name
            fp = os.path.join(path, site["file"])
            os.remove(fp)
            if kind == "_dangling_link":
                os.symlink(os.path.join(path, "no_such_target"), fp)
            else:
                os.makedirs(fp)
        elif kind == "_drop_line":
            fp = os.path.join(path, f"Level_{site['level']}", "Cell_H")
            lines = open(fp).read().split("\n")
            del lines[site["lineno"]]
            open(fp, "w").write("\n".join(lines))
        else:
            gen.corrupt(path, kind, **site)


def judge_rejected(path, desc, coords, limit, fails):
    kw = dict(limit_level=limit, boxes_coordinates=coords)
    try:
        t = _taste(path, nofail=True, **kw)
        if bool(t):
            fails.append({"what": "taste reports a corrupted plotfile good", "call": desc, "detail": f"non-failing mode {kw}"})
            return
    except Exception as e:      # noqa
        fails.append({"what": "taste raised in non-failing mode", "call": desc, "detail": f"{type(e).__name__}: {str(e)[:100]}"})
        return
    try:
        t = _taste(path, nofail=False, **kw)
        fails.append({"what": "taste did not raise in failing mode on a corrupted plotfile", "call": desc,
                      "detail": f"bool={bool(t)}"})
    except Exception:
        pass


def run_reject_scenario(p, wd):
    """C04: every listed corruption, at sampled (quick) or all (thorough) sites, singly and in pairs, is rejected."""
    fails = []
    checks = 0
    pf, path = make_input(p, wd, specials=False)
    rng = random.Random(p["seed"])
    limit = pf.L if p.get("limit") is None else min(p["limit"], pf.L)
    sites = corruption_sites(pf, path, rng, limit, p.get("full", False))
    if p.get("max_sites"):
        rng.shuffle(sites)
        sites = sites[: p["max_sites"]]
    work = os.path.join(wd, "work")
    todo = [(d, c, co) for d, c, co in sites]
    for _ in range(p.get("pairs", 0)):
        (d1, c1, co1), (d2, c2, co2) = rng.sample(sites, 2)
        todo.append((d1 + " + " + d2, c1 + c2, co1 or co2))
    for desc, calls, coords in todo:
        shutil.rmtree(work, ignore_errors=True)
        shutil.copytree(path, work)
        try:
            apply_corruption(work, calls)
        except Exception:
            continue      # second corruption of a pair no longer applicable
        if " + " in desc and _still_wellformed(work, limit):
            continue      # two edits that cancel structurally (e.g. insert + remove at one place) only change data values
        checks += 1
        judge_rejected(work, desc, coords, None if p.get("limit") is None else limit, fails)
        if len(fails) >= 12:
            break
    return {"fails": fails, "checks": checks}


def _still_wellformed(work, limit):
    """every level <= limit: each binary file is a clean concatenation of FABs and every box has, at its recorded offset, a FAB
    with its index range and the header's field count (then the directory is not corrupted in the sense of C04)"""
    try:
        info = oracle.read(work)
        nf = len(info["names"])
        for lv in range(limit + 1):
            lvi = info["levels"][lv]
            scans = {}
            for b in range(lvi["nboxes"]):
                fn = lvi["files"][b]
                fp = os.path.join(work, f"Level_{lv}", os.path.basename(fn))
                if fn not in scans:
                    scans[fn] = {s[3]: s for s in oracle.scan_file(fp)}
                    end = max((s[4] + s[5] for s in scans[fn].values()), default=0)
                    if end != os.path.getsize(fp):
                        return False
                sc = scans[fn].get(lvi["offsets"][b])
                lo, hi = lvi["indexes"][b]
                if sc is None or list(sc[0]) != list(lo) or list(sc[1]) != list(hi) or sc[2] != nf:
                    return False
        return True
    except Exception:
        return False


# ----------------------------------------------------------------------------------------------------------


def benign_edits(pf, path, rng):
    """Byte-level edits that may keep a directory acceptable (C20): taste decides; if it accepts, reading must work."""
    info = oracle.read(path)
    out = []
    for lv in range(info["L"] + 1):
        lvi = info["levels"][lv]
        nb = lvi["nboxes"]
        cellh = open(os.path.join(path, f"Level_{lv}", "Cell_H")).read().split("\n")
        first_idx, first_fod = 5, 5 + nb + 2
        b = rng.randrange(nb)
        fodl = cellh[first_fod + b].split()
        out.append((f"Cell_H whitespace: extra blanks in FabOnDisk line of box {b} level {lv}",
                    [("edit_cellh_line", dict(level=lv, lineno=first_fod + b, newtext=f"FabOnDisk:   {fodl[1]}    {fodl[2]}  "))]))
        out.append((f"Cell_H whitespace: extra blanks in index line of box {b} level {lv}",
                    [("edit_cellh_line", dict(level=lv, lineno=first_idx + b, newtext=cellh[first_idx + b].replace(") (", ")   (")))]))
        lo, hi = lvi["indexes"][b]
        hdr = gen.fab_header(lo, hi, len(info["names"])).decode().rstrip("\n")
        out.append((f"FAB header text: doubled blank before the count, box {b} level {lv}",
                    [("edit_fab_header", dict(level=lv, box=b, newtext=hdr.replace(")) ", "))  ")))]))
        out.append((f"FAB header text: leading junk, box {b} level {lv}",
                    [("edit_fab_header", dict(level=lv, box=b, newtext="XX" + hdr))]))
        out.append((f"FAB header text: other precision descriptor, box {b} level {lv}",
                    [("edit_fab_header", dict(level=lv, box=b, newtext=hdr.replace("(8, (64 11 52 0 1 12 0 1023))", "(8, (64 11 52 0 1 12 0 1022))")))]))
        # offset edited to point at header-like bytes planted inside another box's payload
        files = lvi["files"]
        # the box stored right behind b in the same file (keeps the offset order of the file unchanged)
        offs = lvi["offsets"]
        same = sorted((offs[c], c) for c in range(nb) if files[c] == files[b] and offs[c] > offs[b])
        if same:
            c = same[0][1]
            rel = os.path.join(f"Level_{lv}", files[b])
            lo_c, hi_c = lvi["indexes"][c]
            target = lvi["offsets"][b] + len(hdr) + 1 + 16
            plant = gen.fab_header(lo_c, hi_c, len(info["names"]))
            out.append((f"offset of box {c} level {lv} edited to a planted header inside box {b}'s payload",
                        [("_plant", dict(file=rel, pos=target, data=plant)),
                         ("edit_cellh_line", dict(level=lv, lineno=first_fod + c, newtext=f"FabOnDisk: {files[c]} {target}"))]))
        out.append((f"offset of box {b} level {lv} moved into its own header line",
                    [("edit_cellh_line", dict(level=lv, lineno=first_fod + b, newtext=f"FabOnDisk: {fodl[1]} {int(fodl[2]) + 4}"))]))
        # the counting lines of the level header (what validation never compares with the binary files directly)
        nf = len(info["names"])
        out.append((f"Cell_H of level {lv}: component count line says {nf + 1}",
                    [("edit_cellh_line", dict(level=lv, lineno=2, newtext=str(nf + 1)))]))
        if nf > 1:
            out.append((f"Cell_H of level {lv}: component count line says {nf - 1}",
                        [("edit_cellh_line", dict(level=lv, lineno=2, newtext=str(nf - 1)))]))
        out.append((f"Cell_H of level {lv}: box count line says {nb + 1}",
                    [("edit_cellh_line", dict(level=lv, lineno=4, newtext=f"({nb + 1} 0"))]))
        out.append((f"Cell_H of level {lv}: second box count line says {nb + 1}",
                    [("edit_cellh_line", dict(level=lv, lineno=first_fod - 1, newtext=str(nb + 1)))]))
        out.append((f"Cell_H of level {lv}: version lines changed",
                    [("edit_cellh_line", dict(level=lv, lineno=0, newtext="2")), ("edit_cellh_line", dict(level=lv, lineno=1, newtext="0"))]))
    return out


def _scan_by_text(fpath):
    """[(lo, hi, nc, header offset, data offset, number of bytes up to the next header or the end of the file)] from the FAB
    header texts found in the file"""
    import re
    blob = open(fpath, "rb").read()
    out = []
    starts = [m.start() for m in re.finditer(rb"FAB \(\(", blob)]
    for k, st in enumerate(starts):
        eol = blob.find(b"\n", st)
        if eol < 0:
            continue
        line = blob[st:eol].decode("ascii", "replace")
        m = re.search(r"\(\(([-\d,]+)\) \(([-\d,]+)\) \([-\d,]+\)\) (\d+)\s*$", line)
        if not m:
            continue
        try:
            lo = [int(x) for x in m.group(1).split(",")]
            hi = [int(x) for x in m.group(2).split(",")]
            nc = int(m.group(3))
        except ValueError:
            continue
        end = starts[k + 1] if k + 1 < len(starts) else len(blob)
        out.append((lo, hi, nc, st, eol + 1, end - (eol + 1)))
    return out


def read_everything(path, limit, fails, desc):
    """the reader reads every box of every validated level, with the level-header shape for all fields, and returns
    the values of the FAB in that file whose header names the box's index range."""
    from amr_kitchen import PlotfileCooker
    try:
        info = oracle.read(path)
    except Exception:
        info = None
    try:
        pck = PlotfileCooker(path, limit_level=limit)
        nf = len(pck.fields)
        for lv in range(pck.limit_level + 1):
            nb = len(pck.cells[lv]["indexes"])
            scans = {}
            for b in range(nb):
                arr = pck[:][lv][b]
                lo, hi = pck.cells[lv]["indexes"][b]
                shape = tuple(int(x) for x in (np.array(hi) - np.array(lo) + 1)) + (nf,)
                if arr.shape != shape:
                    fails.append({"what": "accepted by taste but a box is read with a shape other than its level header's",
                                  "call": desc, "detail": f"level {lv} box {b}: {arr.shape} vs {shape}"})
                    return
                fpath = pck.cells[lv]["files"][b]
                if fpath not in scans:
                    try:
                        scans[fpath] = oracle.scan_file(fpath)
                    except Exception:
                        scans[fpath] = None
                sc = scans[fpath]
                if sc is None:
                    # the file is not a clean concatenation of FABs: locate the FAB headers by their text; the values of a
                    # FAB are the bytes between the end of its header line and the next header (or the end of the file)
                    sc = _scan_by_text(fpath)
                    scans[fpath] = sc
                hits = [s for s in sc if tuple(s[0]) == tuple(int(x) for x in lo) and tuple(s[1]) == tuple(int(x) for x in hi)]
                if len(hits) == 0:
                    # the reader returned values for this box, and no FAB of the file it is recorded in names its index range
                    fails.append({"what": "accepted by taste and read without error, but no FAB of the box's binary file names its index range",
                                  "call": desc, "detail": f"level {lv} box {b}: range {tuple(lo)}..{tuple(hi)} in {os.path.basename(fpath)}"})
                    return
                if len(hits) != 1:
                    continue        # (several FABs name the range: which one 'the' FAB is stays open)
                _, _, nc, hoff, doff, nbytes = hits[0]
                if nbytes != int(np.prod(shape)) * 8:
                    fails.append({"what": "accepted by taste but the FAB naming a box's index range does not hold the values of a box "
                                          "of that shape", "call": desc,
                                  "detail": f"level {lv} box {b}: {nbytes} bytes stored for shape {shape}"})
                    return
                with open(fpath, "rb") as f:
                    f.seek(doff)
                    raw = np.frombuffer(f.read(nbytes), dtype="<f8")
                exp = raw.reshape(shape, order="F")
                if not bits_equal(arr, exp):
                    fails.append({"what": "accepted by taste but a box is read with other values than its FAB's",
                                  "call": desc, "detail": f"level {lv} box {b}"})
                    return
    except Exception as e:      # noqa
        fails.append({"what": "accepted by taste but the reader fails", "call": desc,
                      "detail": f"{type(e).__name__}: {str(e)[:120]}"})


def run_agree_scenario(p, wd):
    """C20: whatever default validation accepts (good or damaged), the reader reads completely and consistently."""
    fails = []
    checks = 0
    pf, path = make_input(p, wd, specials=False)
    rng = random.Random(p["seed"])
    limit = None
    cands = [(d, c) for d, c, co in corruption_sites(pf, path, rng, pf.L, False) if not co]
    rng.shuffle(cands)
    cands = [("unchanged", [])] + benign_edits(pf, path, rng) + cands[: p.get("max_sites", 25)]
    for _ in range(p.get("pairs", 0)):
        (d1, c1), (d2, c2) = rng.sample(cands[1:], 2)
        cands.append((d1 + " + " + d2, c1 + c2))
    work = os.path.join(wd, "work")
    accepted = 0
    for desc, calls in cands:
        shutil.rmtree(work, ignore_errors=True)
        shutil.copytree(path, work)
        try:
            for kind, site in calls:
                if kind == "_plant":
                    fp = os.path.join(work, site["file"])
                    blob = bytearray(open(fp, "rb").read())
                    blob[site["pos"]:site["pos"] + len(site["data"])] = site["data"]
                    open(fp, "wb").write(bytes(blob))
                else:
                    apply_corruption(work, [(kind, site)])
        except Exception:
            continue
        checks += 1
        try:
            good = bool(_taste(work, nofail=True))
        except Exception as e:      # noqa
            fails.append({"what": "taste raised in non-failing mode", "call": desc, "detail": f"{type(e).__name__}: {str(e)[:100]}"})
            continue
        if good:
            accepted += 1
            read_everything(work, limit, fails, desc)
        if len(fails) >= 10:
            break
    return {"fails": fails, "checks": checks, "accepted": accepted}
