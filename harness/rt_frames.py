"""C13 bounded layer: tools never touch their inputs, write only under the requested/default output, and report an
I/O fault injected at any individual write-class call (open-for-write, write, mkdir, makedirs, rmtree) instead of
returning normally.  Everything runs in-process (controllable pool) so that the instrumentation sees the workers."""
import builtins
import os
import random
import shutil
import sys
import numpy as np
from replay import gen, oracle
from .rt_tools import make_input
from .rt_common import tree_digest
from .fakepool import patch_pools

RECIPE = '''
def recipe(field_indexes, box_array):
    """twice_first"""
    first = box_array[..., 0]
    first *= 2.0          # in place on the array the tool hands to the recipe: must never reach the input files
    return first
'''


class Injected(OSError):
    pass


class Instr:
    """counts write-class calls; raises Injected at the target-th one"""

    def __init__(self, target=None):
        self.count = 0
        self.target = target
        self.sites = []

    def hit(self, what):
        self.count += 1
        self.sites.append(what)
        if self.target is not None and self.count == self.target:
            raise Injected(28, f"No space left on device (injected at write-class call #{self.count}: {what})")


class WProxy:
    def __init__(self, f, instr, name):
        self._f, self._i, self._n = f, instr, name

    def write(self, data):
        self._i.hit(f"write {self._n}")
        return self._f.write(data)

    def __enter__(self):
        self._f.__enter__()
        return self

    def __exit__(self, *a):
        return self._f.__exit__(*a)

    def __getattr__(self, k):
        return getattr(self._f, k)

    def __iter__(self):
        return iter(self._f)


def instrument(instr):
    real_open, real_mkdir, real_makedirs, real_rmtree = builtins.open, os.mkdir, os.makedirs, shutil.rmtree

    def my_open(file, mode="r", *a, **k):
        if isinstance(mode, str) and any(c in mode for c in "wax+") and isinstance(file, (str, bytes, os.PathLike)):
            instr.hit(f"open {file} {mode}")
            return WProxy(real_open(file, mode, *a, **k), instr, str(file))
        return real_open(file, mode, *a, **k)

    def my_mkdir(p, *a, **k):
        instr.hit(f"mkdir {p}")
        return real_mkdir(p, *a, **k)

    def my_makedirs(p, *a, **k):
        instr.hit(f"makedirs {p}")
        return real_makedirs(p, *a, **k)

    def my_rmtree(p, *a, **k):
        instr.hit(f"rmtree {p}")
        return real_rmtree(p, *a, **k)
    builtins.open, os.mkdir, os.makedirs, shutil.rmtree = my_open, my_mkdir, my_makedirs, my_rmtree

    def undo():
        builtins.open, os.mkdir, os.makedirs, shutil.rmtree = real_open, real_mkdir, real_makedirs, real_rmtree
    return undo


def snapshot(root):
    out = {}
    for dp, dn, fn in os.walk(root):
        for d in dn:
            out[os.path.join(dp, d)] = "dir"
        for f in fn:
            p = os.path.join(dp, f)
            st = os.stat(p)
            out[p] = (st.st_size, st.st_mtime_ns)
    return out


def inside(p, root):
    p, root = os.path.realpath(p), os.path.realpath(root)
    return p == root or p.startswith(root + os.sep)


def invocations(pf_path, pf2_path, ck_path, wd, rng):
    """(name, callable(inp_form) -> None, inputs, explicit_out or None).  inp_form maps an absolute path to the form
    under test (relative / absolute / trailing slash)."""
    inv = []
    names = None

    def colander(f, out):
        from amr_kitchen.colander.colander import Colander
        Colander(plotfile=f(pf_path), limit_level=None, output=out, variables=["temp", "density"]).strain()
    inv.append(("colander", colander, [pf_path], "explicit-only"))

    def colander_rerun(f, out):
        # a sequence: every field kept (in plotfile order), then a subset strained into the SAME output path
        from amr_kitchen.colander.colander import Colander
        Colander(plotfile=f(pf_path), limit_level=None, output=out, variables=["all"]).strain()
        Colander(plotfile=f(pf_path), limit_level=0, output=out, variables=["pressure"]).strain()
    inv.append(("colander-rerun", colander_rerun, [pf_path], "explicit-only"))

    def combine(f, out):
        from amr_kitchen import PlotfileCooker
        from amr_kitchen.combine.combine import combine as cb
        cb(PlotfileCooker(f(pf_path)), PlotfileCooker(f(pf2_path)), pltout=out)
    inv.append(("combine", combine, [pf_path, pf2_path], "cwd-default"))

    def chef(f, out):
        from amr_kitchen.chef.chef import Chef
        rec = os.path.join(wd, "user_recipe.py")
        if not os.path.exists(rec):
            with open(rec, "w") as fh:
                fh.write(RECIPE)
        Chef(plotfile=f(pf_path), recipe=rec, outfile=out, serial=True, kept_fields=None).cook()
    inv.append(("chef", chef, [pf_path], "beside-default"))

    def mand_array(f, out):
        from amr_kitchen.mandoline.mandoline import Mandoline
        Mandoline(f(pf_path), fields=["temp"], serial=True, verbose=0).slice(normal=2, outfile=out, fformat="array")
    inv.append(("mandoline-array", mand_array, [pf_path], "beside-default"))

    def mand_plt(f, out):
        from amr_kitchen.mandoline.mandoline import Mandoline
        Mandoline(f(pf_path), fields=["temp", "density"], serial=True, verbose=0).slice(normal=0, outfile=out, fformat="plotfile")
    inv.append(("mandoline-plotfile", mand_plt, [pf_path], "beside-default"))

    def whip(f, out):
        import amr_kitchen.whip.cli as w
        old = sys.argv
        sys.argv = ["whip", "-v", "temp", "-y", "-o", out, f(pf_path)]
        try:
            w.main()
        finally:
            sys.argv = old
    inv.append(("whip", whip, [pf_path], "explicit-only"))

    def marinate(f, out):
        import amr_kitchen.marinate as m
        old = sys.argv
        sys.argv = ["marinate", f(pf_path)]
        try:
            m.main()
        finally:
            sys.argv = old
    inv.append(("marinate", marinate, [pf_path], "default-only"))

    if ck_path:
        def chk(f, out):
            from amr_kitchen.chk2plt.chk2plt import chk2plt
            chk2plt(f(ck_path), species=["S0", "S1"], gradp=True, species_reactions=False, pltdir=out)
        inv.append(("chk2plt", chk, [ck_path], "beside-default"))
    return inv


def run_frame_scenario(p, wd):
    fails = []
    checks = 0
    rng = random.Random(p["seed"])
    work = os.path.join(wd, "work")
    os.makedirs(work)
    names = ["density", "temp", "pressure"]
    pp = dict(p, ndims=3, nf=3)
    pf, pf_path = make_input(pp, work, name=p.get("plt_name", "plt00010"), names=names, specials=False)
    pp2 = dict(pp, seed=p["seed"] + 1, layout="roundrobin")
    pf2 = gen.make_pf(ndims=3, names=["alpha", "beta"], n0=pf.n0, geo_lo=pf.geo_lo, dx0=pf.dx0, levels=pf.levels,
                      nfiles=2, layout="shuffled", seed=p["seed"] + 5, time=pf.time)
    pf2_path = os.path.join(work, "plt00020")
    gen.write_plotfile(pf2_path, pf2)
    ck_path = None
    if p.get("with_chk", True):
        ck = gen.make_ck(n0=(16, 16, 8), nspecies=2, ghost=2, nlevels=2, nfiles=2, seed=p["seed"], payload="massfrac")
        ck_path = os.path.join(work, p.get("chk_name", "chk00005"))
        gen.write_checkpoint(ck_path, ck)
    forms = {"absolute": lambda a: a, "relative": lambda a: os.path.relpath(a, work),
             "trailing-slash": lambda a: a + os.sep, "relative-trailing-slash": lambda a: os.path.relpath(a, work) + os.sep}
    oldcwd = os.getcwd()
    os.chdir(work)
    restore_pool = patch_pools("submission", 0)
    try:
        todo = []
        for name, fn, inputs, outkind in invocations(pf_path, pf2_path, ck_path, work, rng):
            if p.get("tools") and name not in p["tools"]:
                continue
            for form in (p.get("forms") or list(forms)):
                outs = []
                if outkind != "default-only":
                    outs.append("explicit")
                if outkind in ("beside-default", "cwd-default", "default-only"):
                    outs.append("default")
                for o in outs:
                    todo.append((name, fn, inputs, outkind, form, o))
        rng.shuffle(todo)
        for name, fn, inputs, outkind, form, o in todo[: p.get("max_invocations", 10)]:
            call = f"{name} input={form} output={o}"
            digests = {i: tree_digest(i) for i in inputs}
            before = snapshot(work)
            outroot = os.path.join(work, f"OUT_{name}_{form}_{o}".replace("-", "_"))
            explicit = outroot if o == "explicit" else None
            instr = Instr(None)
            undo = instrument(instr)
            checks += 1
            ok = True
            try:
                fn(forms[form], explicit)
            except BaseException as e:      # noqa
                ok = False
                fails.append({"what": "tool failed on a valid invocation", "call": call, "detail": f"{type(e).__name__}: {str(e)[:120]}"})
            finally:
                undo()
            after = snapshot(work)
            changed = [q for q in after if q not in before or before[q] != after[q]]
            removed = [q for q in before if q not in after]
            for i in inputs:
                if tree_digest(i) != digests[i] or any(inside(q, i) for q in changed + removed):
                    fails.append({"what": "tool created, modified or deleted something inside its input", "call": call,
                                  "detail": str([os.path.relpath(q, work) for q in changed + removed if inside(q, i)][:4])})
            # nothing the run produced may BE a file of an input under another name (hard link / symbolic link): whatever is
            # later written through the output would be written into the input
            input_inodes = {}
            for i in inputs:
                for dp, dn, fn in os.walk(i):
                    for f_ in fn:
                        st = os.stat(os.path.join(dp, f_))
                        input_inodes[(st.st_dev, st.st_ino)] = os.path.join(dp, f_)
            for q in changed:
                if any(inside(q, i) for i in inputs) or not os.path.exists(q) or os.path.isdir(q):
                    continue
                st = os.stat(q)
                if (st.st_dev, st.st_ino) in input_inodes or os.path.islink(q):
                    fails.append({"what": "a file written by the tool is a link to a file of its input (writes to it reach the input)", "call": call,
                                  "detail": f"{os.path.relpath(q, work)} -> {os.path.relpath(input_inodes.get((st.st_dev, st.st_ino), '?'), work)}"})
                    break
            # audit of the write-class calls: nothing inside an input may even be OPENED for writing
            for site in instr.sites:
                if site.startswith("open "):
                    fpath = site[5:].rsplit(" ", 1)[0]
                    ap = fpath if os.path.isabs(fpath) else os.path.join(work, fpath)
                    if any(inside(ap, i) for i in inputs):
                        fails.append({"what": "tool opened a file inside its input for writing", "call": call, "detail": site[:160]})
                        break
            stray = []
            for q in changed:
                if any(inside(q, i) for i in inputs) or q.endswith("user_recipe.py") or "__pycache__" in q:
                    continue
                if explicit is not None:
                    if not (inside(q, explicit) or q.startswith(explicit + ".")):
                        stray.append(q)
                else:
                    # documented default: beside the (first) input or in the working directory, never elsewhere
                    par = os.path.dirname(os.path.normpath(inputs[0]))
                    if not (inside(q, par) or inside(q, work)):
                        stray.append(q)
                    if os.path.dirname(q) == work and after[q] != "dir" and name in ("combine", "chef", "chk2plt", "mandoline-plotfile"):
                        stray.append(q)      # plotfile pieces (Header...) dropped directly in the working directory
            if stray:
                fails.append({"what": "tool wrote outside the requested / default output location", "call": call,
                              "detail": str([os.path.relpath(q, work) for q in stray][:4])})
            nsites = instr.count
            # clean what the run produced (keeps the scratch small and the next default name free)
            for q in sorted(changed, key=len, reverse=True):
                if any(inside(q, i) for i in inputs) or q.endswith("user_recipe.py"):
                    continue
                if os.path.isdir(q):
                    shutil.rmtree(q, ignore_errors=True)
                elif os.path.exists(q):
                    os.remove(q)
            if not ok or nsites == 0:
                continue
            # ---- fault at the n-th write-class call
            ks = list(range(1, nsites + 1))
            if p.get("max_faults") and len(ks) > p["max_faults"]:
                ks = sorted(set([1, nsites] + rng.sample(ks, p["max_faults"] - 2)))
            for k in ks:
                before = snapshot(work)
                instr = Instr(k)
                undo = instrument(instr)
                checks += 1
                returned = False
                try:
                    fn(forms[form], explicit)
                    returned = True
                except SystemExit as e:
                    if e.code in (None, 0):
                        returned = True
                except BaseException:      # noqa
                    pass
                finally:
                    undo()
                if returned and instr.count >= k:
                    fails.append({"what": "an I/O error at a write was swallowed: the tool returned normally", "call": call,
                                  "detail": f"fault at call #{k} of {nsites}: {instr.sites[k - 1] if k <= len(instr.sites) else '?'}"})
                after = snapshot(work)
                changed = [q for q in after if q not in before or before[q] != after[q]]
                for i in inputs:
                    if tree_digest(i) != digests[i]:
                        fails.append({"what": "input modified by a failing run", "call": call, "detail": f"fault #{k}"})
                for q in sorted(changed, key=len, reverse=True):
                    if any(inside(q, i) for i in inputs) or q.endswith("user_recipe.py"):
                        continue
                    if os.path.isdir(q):
                        shutil.rmtree(q, ignore_errors=True)
                    elif os.path.exists(q):
                        os.remove(q)
                if len(fails) > 12:
                    break
            if len(fails) > 12:
                break
        # ---- an input whose binary file stops at a FAB boundary (the FABs before the cut are intact, the rest is missing): every
        # tool that reads the box data must fail, not return with an output made of what was left
        def cut_copy(src, name):
            dst = os.path.join(work, name)
            shutil.copytree(src, dst)
            info = oracle.read(dst)
            for lv in range(info["L"] + 1):
                for fn in sorted(set(info["levels"][lv]["files"])):
                    fp = os.path.join(dst, f"Level_{lv}", fn)
                    scan = oracle.scan_file(fp)
                    if len(scan) >= 2:
                        with open(fp, "r+b") as fh:
                            fh.truncate(scan[-1][3])        # the last FAB is gone, nothing else changes
                        return dst
            return None
        cut1, cut2 = cut_copy(pf_path, "plt_cut_a"), cut_copy(pf2_path, "plt_cut_b")
        # (the same with two plotfiles that store their boxes in the same files in box order: combine then reads both files
        # front to back, another code path)
        mono = []
        for tag, nms in (("m1", ["density", "temp"]), ("m2", ["alpha"])):
            pm = gen.make_pf(ndims=3, names=nms, n0=pf.n0, geo_lo=pf.geo_lo, dx0=pf.dx0, levels=pf.levels, nfiles=1, layout="monotone",
                             seed=p["seed"] + 11, time=pf.time)
            pth = os.path.join(work, "plt_mono_" + tag)
            gen.write_plotfile(pth, pm)
            mono.append(pth)
        cut_m2 = cut_copy(mono[1], "plt_mono_cut")
        # ... and with two FABs per binary file, so that ONE is left after the cut (a single result is not a length mismatch for
        # numpy: it is broadcast)
        mono2 = []
        for tag, nms in (("n1", ["density", "temp"]), ("n2", ["alpha"])):
            pm = gen.make_pf(ndims=3, names=nms, n0=pf.n0, geo_lo=pf.geo_lo, dx0=pf.dx0, levels=[pf.levels[0][:4]] if len(pf.levels[0]) >= 4 else pf.levels[:1],
                             nfiles=2, layout="monotone", seed=p["seed"] + 12, time=pf.time)
            pth = os.path.join(work, "plt_mono2_" + tag)
            gen.write_plotfile(pth, pm)
            mono2.append(pth)
        cut_n2, cut_n1 = cut_copy(mono2[1], "plt_mono2_cut_b"), cut_copy(mono2[0], "plt_mono2_cut_a")

        def _chef_cut(a, serial):
            from amr_kitchen.chef.chef import Chef
            rec = os.path.join(work, "user_recipe.py")
            if not os.path.exists(rec):
                with open(rec, "w") as fh:
                    fh.write(RECIPE)
            Chef(plotfile=a, recipe=rec, outfile=os.path.join(work, "o_cut_chef"), serial=serial, kept_fields=None).cook()

        def _combine_cut(a, b):
            from amr_kitchen import PlotfileCooker
            from amr_kitchen.combine.combine import combine as cb
            cb(PlotfileCooker(a), PlotfileCooker(b), pltout=os.path.join(work, "o_cut_combine"))

        def _colander_cut(a):
            from amr_kitchen.colander.colander import Colander
            Colander(plotfile=a, output=os.path.join(work, "o_cut_colander"), variables=["temp"]).strain()
        cut_cases = []
        if cut_n2:
            cut_cases.append(("combine (two FABs per file, one left), second input cut at a FAB boundary", lambda: _combine_cut(mono2[0], cut_n2)))
        if cut_n1:
            cut_cases.append(("chef serial (two FABs per file, one left), input cut at a FAB boundary", lambda: _chef_cut(cut_n1, True)))
            cut_cases.append(("chef parallel (two FABs per file, one left), input cut at a FAB boundary", lambda: _chef_cut(cut_n1, False)))
        if cut_m2:
            cut_cases.append(("combine (boxes in the same files in box order), second input cut at a FAB boundary", lambda: _combine_cut(mono[0], cut_m2)))
        if cut2:
            cut_cases.append(("combine, second input cut at a FAB boundary", lambda: _combine_cut(pf_path, cut2)))
        if cut1:
            cut_cases.append(("combine, first input cut at a FAB boundary", lambda: _combine_cut(cut1, pf2_path)))
            cut_cases.append(("colander, input cut at a FAB boundary", lambda: _colander_cut(cut1)))
        for desc_, thunk in cut_cases:
            checks += 1
            try:
                thunk()
                fails.append({"what": "failing request returned normally", "call": desc_, "detail": "an input binary file lacks its last FAB"})
            except SystemExit as e:
                if e.code in (None, 0):
                    fails.append({"what": "failing request exited with status 0", "call": desc_, "detail": ""})
            except BaseException:      # noqa
                pass
            for o_ in ("o_cut_combine", "o_cut_colander", "o_cut_chef"):
                shutil.rmtree(os.path.join(work, o_), ignore_errors=True)
        # ---- failing requests must raise: unknown field, unreadable input
        from amr_kitchen.mandoline.mandoline import Mandoline
        for desc_, thunk in (("mandoline unknown field", lambda: Mandoline(pf_path, fields=["nope"], serial=True, verbose=0).slice(fformat="return")),
                             ("colander unreadable input", lambda: __import__("amr_kitchen.colander.colander", fromlist=["Colander"]).Colander(
                                 plotfile=os.path.join(work, "missing_plt"), output=os.path.join(work, "o_x"), variables=["all"]).strain())):
            checks += 1
            try:
                thunk()
                fails.append({"what": "failing request returned normally", "call": desc_, "detail": ""})
            except SystemExit as e:
                if e.code in (None, 0):
                    fails.append({"what": "failing request exited with status 0", "call": desc_, "detail": ""})
            except BaseException:      # noqa
                pass
    finally:
        restore_pool()
        os.chdir(oldcwd)
    return {"fails": fails[:20], "checks": checks}
