"""Run-time contracts of mandoline (bounded layer of C07, C08, C16)."""
import os
import random
import numpy as np
from replay import gen, oracle
from .rt_tools import make_input
from .rt_common import compare_plotfile, taste_ok, tree_digest


class _NpProxy:
    """numpy with np.empty poisoned by NaN (makes reads of never-written cells visible)."""

    def __getattr__(self, name):
        return getattr(np, name)

    @staticmethod
    def empty(shape, dtype=float, **kw):
        a = np.empty(shape, dtype=dtype, **kw)
        if np.issubdtype(a.dtype, np.floating):
            a.fill(np.nan)
        return a


def poison():
    import amr_kitchen.mandoline.mandoline as M
    old = M.np
    M.np = _NpProxy()
    return lambda: setattr(M, "np", old)


def affine_payload(lv, b, lo, hi, X, Y, Z, c):
    return (c + 1.0) + 2.0 * X + 3.0 * Y + 5.0 * Z


def run_plate_scenario(p, wd):
    """C08: flattening a 2D plotfile is the covering grid at the finest selected level (exact), [y, x] arrays."""
    from amr_kitchen.mandoline.mandoline import Mandoline
    fails = []
    checks = 0
    pf, path = make_input(p, wd)
    rng = random.Random(p["seed"])
    names = list(pf.names)
    field_sets = [[names[0]], [names[-1], "grid_level"], list(reversed(names)), ["all"], ["grid_level"], names[0]]
    restore = poison()
    try:
        for ci in range(p.get("ncombos", 4)):
            fields = rng.choice(field_sets)
            # the first combination has no limit, the second a limit strictly below the finest level (when there is one), the
            # others any
            lim = None if ci == 0 else (rng.randrange(pf.L) if (ci == 1 and pf.L > 0) else rng.choice([None] + list(range(pf.L + 1))))
            serial = rng.random() < 0.5
            what = f"Mandoline(2D, fields={fields}, limit_level={lim}, serial={serial}).slice(fformat='return')"
            checks += 1
            try:
                out = Mandoline(path, fields=fields, limit_level=lim, serial=serial, verbose=0).slice(fformat="return")
            except Exception as e:      # noqa
                fails.append({"what": "mandoline raised on a valid 2D request", "call": what,
                              "detail": f"{type(e).__name__}: {str(e)[:120]}"})
                continue
            L = pf.L if lim is None else lim
            flist = [fields] if isinstance(fields, str) else fields
            want = names if "all" in flist else [f for f in flist if f != "grid_level"]
            want_grid = "all" in flist or "grid_level" in flist
            lvl = None
            for f in want:
                exp, lvl = oracle.covering_grid(path, names.index(f), limit=L, with_level=True)
                got = out.get(f)
                if got is None or got.shape != exp.T.shape or not np.array_equal(got, exp.T, equal_nan=True):
                    fails.append({"what": "2D covering grid differs", "call": what,
                                  "detail": f"field {f}: shape {None if got is None else got.shape} vs {exp.T.shape}"})
                    break
            if want_grid:
                if lvl is None:
                    _, lvl = oracle.covering_grid(path, 0, limit=L, with_level=True)
                got = out.get("grid_level")
                if got is None or got.shape != lvl.T.shape or not np.array_equal(got, lvl.T):
                    fails.append({"what": "2D grid_level differs from the covering level", "call": what, "detail": ""})
            for ax, nm in ((0, "x"), (1, "y")):
                cen = pf.geo_lo[ax] + (np.arange(pf.n(L)[ax]) + 0.5) * pf.dx(L)[ax]
                if nm not in out or np.shape(out[nm]) != cen.shape or not np.allclose(out[nm], cen, rtol=1e-12, atol=0):
                    fails.append({"what": "2D slice coordinates are not the cell centres of the grid", "call": what,
                                  "detail": nm})
    finally:
        restore()
    return {"fails": fails[:20], "checks": checks}


# ---------------------------------------------------------------------------------------------------------------


def cell_owner_tables(pf, L):
    """owner[lv] = int array over level-lv cells: box id or -1"""
    out = []
    for lv in range(L + 1):
        a = -np.ones(tuple(pf.n(lv)), dtype=int)
        for b, (lo, hi) in enumerate(pf.levels[lv]):
            a[tuple(slice(l, h + 1) for l, h in zip(lo, hi))] = b
        out.append(a)
    return out


def isclose(a, b):
    return abs(a - b) <= 1e-8 + 1e-5 * abs(b)


def expected_slice(pf, comps, cn, pos, L, per_level=False, lenient=False):
    """Independent evaluation of the statement: per pixel of the level-L grid, each side takes the finest level <= L
    offering a stored cell-centre sample on that side of the plane at that pixel; output = linear interpolation."""
    cx, cy = [d for d in range(3) if d != cn]
    own = cell_owner_tables(pf, L)
    nx, ny = pf.n(L)[cx], pf.n(L)[cy]
    shp = (nx, ny)
    res = {"left": np.full(shp + (len(comps),), np.nan), "right": np.full(shp + (len(comps),), np.nan),
           "zl": np.full(shp, np.nan), "zr": np.full(shp, np.nan), "ll": -np.ones(shp, int), "lr": -np.ones(shp, int)}
    levels_out = []
    for lv in range(L + 1):
        dxn = pf.dx(lv)[cn]
        n = pf.n(lv)[cn]
        cen = pf.geo_lo[cn] + (np.arange(n) + 0.5) * dxn
        hit = [k for k in range(n) if isclose(pos, cen[k])]
        if hit:
            kl = kr = hit[0]
        elif pos < cen[0]:
            kl = kr = 0
        elif pos > cen[-1]:
            kl = kr = n - 1
        else:
            kl = int(np.searchsorted(cen, pos)) - 1
            kr = kl + 1
        f = 2 ** (L - lv)
        lvres = {"left": np.full(shp + (len(comps),), np.nan), "right": np.full(shp + (len(comps),), np.nan),
                 "zl": np.full(shp, np.nan), "zr": np.full(shp, np.nan)}
        sides = [("l", kl), ("r", kr)]
        if lenient and hit:
            # the position is a centre plane of this level: where the level has no box on that plane but has one on the plane one
            # cell further on a side, that stored sample is the level's nearest sample of that side (also "bracketing the plane")
            sides = ([("l", kl - 1)] if kl - 1 >= 0 else []) + ([("r", kr + 1)] if kr + 1 < n else []) + sides
        for side, k in sides:
            idx = [slice(None)] * 3
            idx[cn] = k
            plane_owner = own[lv][tuple(idx)]          # (n_cx, n_cy) at level lv
            for b in np.unique(plane_owner):
                if b < 0:
                    continue
                lo, hi = pf.levels[lv][b]
                sel = [slice(None)] * 3
                sel[cn] = k - lo[cn]
                vals = pf.data[lv][b][tuple(sel)][..., comps]        # (sx, sy, ncomp)
                X0, X1 = lo[cx] * f, (hi[cx] + 1) * f
                Y0, Y1 = lo[cy] * f, (hi[cy] + 1) * f
                big = np.repeat(np.repeat(vals, f, axis=0), f, axis=1)
                key = "left" if side == "l" else "right"
                zk = "zl" if side == "l" else "zr"
                res[key][X0:X1, Y0:Y1, :] = big
                res[zk][X0:X1, Y0:Y1] = cen[k]
                res["ll" if side == "l" else "lr"][X0:X1, Y0:Y1] = lv
                lvres[key][X0:X1, Y0:Y1, :] = big
                lvres[zk][X0:X1, Y0:Y1] = cen[k]
        levels_out.append(lvres)

    def lerp(r):
        zl, zr = r["zl"][..., None], r["zr"][..., None]
        same = np.isclose(r["zl"], r["zr"])[..., None]
        with np.errstate(invalid="ignore", divide="ignore"):
            v = (r["left"] * (zr - pos) + r["right"] * (pos - zl)) / (zr - zl)
        return np.where(same, r["right"], v)
    if per_level:
        return [lerp(r) for r in levels_out], levels_out
    return lerp(res), res


def positions(pf, cn, L, rng, n):
    """position classes of the statement: cell centres, faces, box faces, half-cell gaps next to box faces, domain
    faces and their half cells, random."""
    lo, hi = pf.geo_lo[cn], pf.geo_hi[cn]
    out = []
    dx0 = pf.dx(0)[cn]
    dxL = pf.dx(L)[cn]
    faces = sorted({pf.geo_lo[cn] + b[0][cn] * pf.dx(lv)[cn] for lv in range(L + 1) for b in pf.levels[lv]} |
                   {pf.geo_lo[cn] + (b[1][cn] + 1) * pf.dx(lv)[cn] for lv in range(L + 1) for b in pf.levels[lv]})
    inner = [f for f in faces if lo < f < hi]
    out.append(("domain centre (default)", None))
    out.append(("lower domain face", lo))
    out.append(("upper domain face", hi))
    out.append(("first half cell of the domain", lo + 0.2 * dxL))
    out.append(("last half cell of the domain", hi - 0.3 * dxL))
    # per level: the half cell (of THAT level) on either side of a face shared by two boxes of that level stacked along
    # the normal -- the plane needs the first/last sample of the neighbouring box of the same level
    gaps = []
    for lv in range(L + 1):
        los = {b[0][cn] for b in pf.levels[lv]}
        shared = sorted({b[1][cn] + 1 for b in pf.levels[lv]} & los)
        if shared:
            f = pf.geo_lo[cn] + rng.choice(shared) * pf.dx(lv)[cn]
            gaps.append((f"level-{lv} half-cell gap below a face shared by two level-{lv} boxes", f - 0.3 * pf.dx(lv)[cn]))
            gaps.append((f"level-{lv} half-cell gap above a face shared by two level-{lv} boxes", f + 0.3 * pf.dx(lv)[cn]))
    out += gaps
    nhead = len(out)
    for f in rng.sample(inner, min(len(inner), 3)):
        out.append(("on an interior box face", f))
        out.append(("half-cell gap below a box face", f - 0.3 * dxL))
        out.append(("half-cell gap above a box face", f + 0.2 * dxL))
        out.append(("coarse half-cell gap below a box face", f - 0.4 * dx0))
    k = rng.randrange(pf.n(L)[cn])
    out.append(("a finest-level cell centre", lo + (k + 0.5) * dxL))
    k0 = rng.randrange(pf.n(0)[cn])
    out.append(("a level-0 cell centre", lo + (k0 + 0.5) * dx0))
    for _ in range(3):
        out.append(("random", lo + rng.random() * (hi - lo)))
    head, tail = out[:nhead], out[nhead:]
    rng.shuffle(tail)
    return (head + tail)[:n] if n < len(out) else out


def run_slice_scenario(p, wd):
    """C07: every pixel of a 3D axis-aligned slice is the interpolation of the bracketing stored samples of the finest
    selected level available on each side; no pixel (or grid_level) comes from uninitialised memory."""
    from amr_kitchen.mandoline.mandoline import Mandoline
    fails = []
    checks = 0
    payload = affine_payload if p.get("payload") == "affine" else "random"
    pf, path = make_input(p, wd, payload=payload, specials=False)
    rng = random.Random(p["seed"])
    names = list(pf.names)
    restore = poison()
    try:
        for ci in range(p.get("ncombos", 3)):
            cn = rng.choice(p["normals"]) if p.get("normals") else rng.randrange(3)
            # the first combination has no limit, the second a limit strictly below the finest level (when there is one), the
            # others any
            lim = None if ci == 0 else (rng.randrange(pf.L) if (ci == 1 and pf.L > 0) else rng.choice([None] + list(range(pf.L + 1))))
            L = pf.L if lim is None else lim
            serial = rng.random() < 0.6
            nsel = rng.randrange(1, len(names) + 1)
            fields = rng.sample(names, nsel) + (["grid_level"] if rng.random() < 0.7 else [])
            comps = [names.index(f) for f in fields if f != "grid_level"]
            cx, cy = [d for d in range(3) if d != cn]
            try:
                m = Mandoline(path, fields=fields, limit_level=lim, serial=serial, verbose=0)
            except Exception as e:      # noqa
                fails.append({"what": "Mandoline constructor raised", "call": str(fields), "detail": str(e)[:100]})
                continue
            for pname, pos in positions(pf, cn, L, rng, p.get("npos", 8)):
                what = (f"Mandoline(fields={fields}, limit_level={lim}, serial={serial}).slice(normal={cn}, pos={pos!r}, "
                        f"fformat='return')  [{pname}]")
                checks += 1
                try:
                    out = m.slice(normal=cn, pos=pos, fformat="return")
                except Exception as e:      # noqa
                    fails.append({"what": "mandoline raised on an in-domain position", "call": what, "pos_class": pname,
                                  "detail": f"{type(e).__name__}: {str(e)[:120]}"})
                    continue
                real_pos = pos if pos is not None else 0.5 * (pf.geo_lo[cn] + pf.geo_hi[cn])
                if pos is None and not np.isclose(out["slice_pos"], real_pos, rtol=1e-12):
                    fails.append({"what": "default position is not the domain centre", "call": what, "pos_class": pname,
                                  "detail": f"{out['slice_pos']} vs {real_pos}"})
                    continue
                exp, res = expected_slice(pf, comps, cn, real_pos, L)
                bad = None
                for i, f in enumerate([f for f in fields if f != "grid_level"]):
                    got = out.get(f)
                    e = exp[..., i].T
                    if got is None or got.shape != e.shape:
                        bad = f"field {f}: shape {None if got is None else got.shape} vs {e.shape}"
                        break
                    if np.isnan(got).any():
                        bad = f"field {f}: {int(np.isnan(got).sum())} pixels come from uninitialised memory"
                        break
                    okpix = np.isclose(got, e, rtol=1e-10, atol=1e-12)
                    if not okpix.all():
                        # a position on a centre plane of a level that has no box there at some pixels: the statement's "two
                        # stored samples that bracket the plane, from the finest level that has data there" admits that level's
                        # next sample one cell further on a side; either reading is accepted, pixel by pixel
                        exp2, _ = expected_slice(pf, comps, cn, real_pos, L, lenient=True)
                        okpix = okpix | np.isclose(got, exp2[..., i].T, rtol=1e-10, atol=1e-12)
                    if not okpix.all():
                        d = np.argwhere(~okpix)[0]
                        bad = f"field {f}: pixel {tuple(int(x) for x in d)} is {got[tuple(d)]!r}, expected {e[tuple(d)]!r}"
                        break
                if bad:
                    fails.append({"what": "slice differs from the interpolation of the bracketing samples", "call": what,
                                  "pos_class": pname, "detail": bad})
                    continue
                if "grid_level" in fields:
                    gl = out.get("grid_level")
                    if gl is None or np.isnan(np.asarray(gl, float)).any():
                        fails.append({"what": "grid_level comes from uninitialised memory", "call": what,
                                      "pos_class": pname, "detail": ""})
                    else:
                        okl = (gl == res["ll"].T) | (gl == res["lr"].T)
                        if not okl.all():
                            fails.append({"what": "grid_level is not a level with a box at that pixel", "call": what,
                                          "pos_class": pname, "detail": f"{int((~okl).sum())} pixels"})
                for ax, nm in ((cx, "x"), (cy, "y")):
                    cen = pf.geo_lo[ax] + (np.arange(pf.n(L)[ax]) + 0.5) * pf.dx(L)[ax]
                    if not np.allclose(out[nm], cen, rtol=1e-12, atol=0):
                        fails.append({"what": "slice coordinates are not the cell centres", "call": what, "detail": nm})
            # positions outside the domain are refused
            for badpos in (pf.geo_lo[cn] - 0.01 * pf.dx(0)[cn], pf.geo_hi[cn] + 0.01 * pf.dx(0)[cn]):
                checks += 1
                try:
                    m.slice(normal=cn, pos=badpos, fformat="return")
                    fails.append({"what": "position outside the domain accepted", "call": f"pos={badpos}", "detail": ""})
                except ValueError:
                    pass
                except Exception as e:      # noqa
                    fails.append({"what": "position outside the domain: unexpected exception", "call": f"pos={badpos}",
                                  "detail": f"{type(e).__name__}"})
            if len(fails) > 12:
                break
    finally:
        restore()
    return {"fails": fails[:20], "checks": checks}


def run_slice_plotfile_scenario(p, wd):
    """C16: a 3D slice saved in plotfile format is a valid 2D plotfile of each level's own data on the plane."""
    from amr_kitchen.mandoline.mandoline import Mandoline
    fails = []
    checks = 0
    payload = affine_payload if p.get("payload") == "affine" else "random"
    pf, path = make_input(p, wd, payload=payload, specials=False)
    before = tree_digest(path)
    rng = random.Random(p["seed"])
    names = list(pf.names)
    restore = poison()
    try:
        for ci in range(p.get("ncombos", 3)):
            cn = rng.randrange(3) if p.get("normal") is None else p["normal"]
            # the first combination has no limit, the second a limit strictly below the finest level (when there is one), the
            # others any
            lim = None if ci == 0 else (rng.randrange(pf.L) if (ci == 1 and pf.L > 0) else rng.choice([None] + list(range(pf.L + 1))))
            L = pf.L if lim is None else lim
            nsel = len(names) if p.get("all_fields") else rng.randrange(1, len(names) + 1)
            fields = rng.sample(names, nsel)
            comps = [names.index(f) for f in fields]
            cx, cy = [d for d in range(3) if d != cn]
            plist = positions(pf, cn, L, rng, p.get("npos", 4))
            if p.get("interior_only"):
                plist = [q for q in plist if q[0] in ("random", "a finest-level cell centre", "a level-0 cell centre",
                                                      "domain centre (default)")]
            for pi, (pname, pos) in enumerate(plist):
                out = os.path.join(wd, f"slice_{ci}_{pi}")
                what = (f"Mandoline(fields={fields}, limit_level={lim}).slice(normal={cn}, pos={pos!r}, outfile=..., "
                        f"fformat='plotfile')  [{pname}]")
                checks += 1
                try:
                    Mandoline(path, fields=fields, limit_level=lim, serial=True, verbose=0).slice(
                        normal=cn, pos=pos, outfile=out, fformat="plotfile")
                except Exception as e:      # noqa
                    fails.append({"what": "mandoline plotfile output raised", "call": what, "pos_class": pname,
                                  "detail": f"{type(e).__name__}: {str(e)[:120]}"})
                    continue
                real_pos = pos if pos is not None else 0.5 * (pf.geo_lo[cn] + pf.geo_hi[cn])
                per_level, raw = expected_slice(pf, comps, cn, real_pos, L, per_level=True)
                exp = {"names": fields, "ndims": 2, "time": pf.time, "geo_lo": [pf.geo_lo[cx], pf.geo_lo[cy]],
                       "geo_hi": [pf.geo_hi[cx], pf.geo_hi[cy]], "L": L,
                       "n": [[pf.n(lv)[cx], pf.n(lv)[cy]] for lv in range(L + 1)],
                       "dx": [[pf.dx(lv)[cx], pf.dx(lv)[cy]] for lv in range(L + 1)], "boxes": [], "bounds": [], "data": [],
                       "same_box_order": False}
                one_sided = False
                for lv in range(L + 1):
                    f = 2 ** (L - lv)
                    bxs, bnds, dat = [], [], []
                    for b, (lo, hi) in enumerate(pf.levels[lv]):
                        bb = pf.box_bounds(lv, b)
                        if not (bb[cn][0] <= real_pos <= bb[cn][1]):
                            continue
                        bxs.append(((lo[cx], lo[cy]), (hi[cx], hi[cy])))
                        bnds.append([bb[cx], bb[cy]])
                        X0, X1, Y0, Y1 = lo[cx] * f, (hi[cx] + 1) * f, lo[cy] * f, (hi[cy] + 1) * f
                        d = per_level[lv][X0:X1:f, Y0:Y1:f, :]
                        zl, zr = raw[lv]["zl"][X0:X1:f, Y0:Y1:f], raw[lv]["zr"][X0:X1:f, Y0:Y1:f]
                        if np.isnan(zl).any() or np.isnan(zr).any():
                            # this level has a sample on one side only here: nearest single sample
                            one_sided = True
                            side = raw[lv]["right"] if np.isnan(zl).any() else raw[lv]["left"]
                            d = np.where(np.isnan(d), side[X0:X1:f, Y0:Y1:f, :], d)
                        dat.append(d)
                    exp["boxes"].append(bxs)
                    exp["bounds"].append(bnds)
                    exp["data"].append(dat)
                exp["mins"] = [np.array([[np.min(d[..., c]) for c in range(len(comps))] for d in lvd]).reshape(len(lvd), len(comps))
                               for lvd in exp["data"]]
                exp["maxs"] = [np.array([[np.max(d[..., c]) for c in range(len(comps))] for d in lvd]).reshape(len(lvd), len(comps))
                               for lvd in exp["data"]]
                n0 = len(fails)
                compare_plotfile(out, exp, fails, "2D slice plotfile", data_mode="close", rtol=1e-10, minmax_rtol=1e-9)
                if len(fails) == n0:
                    taste_ok(out, fails, "2D slice plotfile")
                for fl in fails[n0:]:
                    fl["call"] = what
                    fl["pos_class"] = pname
                    fl["one_sided"] = one_sided
            if len(fails) > 10:
                break
    finally:
        restore()
    if tree_digest(path) != before:
        fails.append({"what": "mandoline modified its input plotfile", "call": "", "detail": ""})
    return {"fails": fails[:20], "checks": checks}
