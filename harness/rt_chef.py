"""Run-time contract of chef (bounded layer of C11)."""
import os
import random
import numpy as np
from replay import gen
from .rt_tools import make_input
from .rt_common import compare_plotfile, pf_expected, taste_ok, tree_digest

MECH = os.path.join(os.environ.get("VERIF_REPO", "/repo"), "test_assets/drm19.yaml")

REC1 = '''
def recipe(field_indexes, box_array):
    """twice_first"""
    return 2.0 * box_array[..., field_indexes[%(f0)r]] + 1.0
'''
RECN = '''
import numpy as np
def recipe(field_indexes, box_array):
    """sum_ab diff_ab prod_ab"""
    a = box_array[..., field_indexes[%(f0)r]]
    b = box_array[..., field_indexes[%(f1)r]]
    return np.stack([a + b, a - b, a * b], axis=-1)
'''
RECS = '''
def recipe(field_indexes, box_array, sol_array):
    """cp_mass_user"""
    return sol_array.cp_mass
'''
RECSN = '''
import numpy as np
def recipe(field_indexes, box_array, sol_array):
    """rho_user T_user"""
    return np.stack([sol_array.density, sol_array.T], axis=-1)
'''


def thermo_names():
    import cantera as ct
    g = ct.Solution(MECH)
    return [s.name for s in g.species()]


def thermo_payload(names, seed):
    sp0 = names.index([n for n in names if n.startswith("Y(")][0])
    nsp = len([n for n in names if n.startswith("Y(")])

    def payload(lv, b, lo, hi, X, Y, Z, c):
        r = np.random.default_rng(seed * 1009 + lv * 101 + b * 7)
        ys = r.uniform(0.01, 1.0, size=X.shape + (nsp,))
        ys /= ys.sum(axis=-1, keepdims=True)
        T = r.uniform(400.0, 2200.0, size=X.shape)
        if b == 0 and lv == 0:
            T.flat[0] = 0.0                 # an undefined state: chef cleans it (T=1) for Cantera only
            ys.reshape(-1, nsp)[1, :] = 0.0  # sum(Y)=0: chef sets Y(O2)=1 for Cantera only
        if names[c] == "temp":
            return T
        if names[c].startswith("Y("):
            return ys[..., c - sp0]
        return r.uniform(0.5, 1.5, size=X.shape) + c
    return payload


def cantera_expected(kind, arr, names, opt):
    import cantera as ct
    g = ct.Solution(MECH)
    sp0 = names.index(f"Y({g.species()[0].name})")
    nsp = len(g.species())
    T = np.array(arr[..., names.index("temp")], copy=True)
    Y = np.array(arr[..., sp0:sp0 + nsp], copy=True)
    T[np.isclose(T, 0)] = 1
    Y[np.isclose(np.sum(Y, axis=-1), 0), g.species_index("O2")] = 1.0
    sa = ct.SolutionArray(g, T.shape)
    sa.TPY = T, opt["pressure"] * ct.one_atm * np.ones(T.shape), Y
    if kind == "HRR":
        return sa.heat_release_rate[..., None]
    if kind == "ENT":
        return sa.enthalpy_mass[..., None]
    if kind == "SRi":
        return sa.net_production_rates[..., [g.species_index(s) for s in opt["species"]]]
    if kind == "SDi":
        return sa.mix_diff_coeffs_mass[..., [g.species_index(s) for s in opt["species"]]]
    if kind == "RRi":
        return sa.net_rates_of_progress[..., opt["reactions"]]
    if kind == "user_s1":
        return sa.cp_mass[..., None]
    if kind == "user_sn":
        return np.stack([sa.density, sa.T], axis=-1)
    raise ValueError(kind)


def run_chef_scenario(p, wd):
    """C11: new fields = recipe(box), kept fields bit-identical, names match components, min/max = extrema written."""
    from amr_kitchen.chef.chef import Chef
    from harness.fakepool import FakePool
    import amr_kitchen.chef.chef as chefmod
    fails = []
    checks = 0
    rng = random.Random(p["seed"])
    thermo = p.get("thermo", False)
    if thermo:
        sp = thermo_names()
        names = ["density", "temp"] + [f"Y({s})" for s in sp] + ["pressure"]
        pf, path = make_input(dict(p, ndims=3, nf=len(names)), wd, names=names, payload=thermo_payload(names, p["seed"]), specials=False)
    else:
        names = ["alpha", "beta", "gamma", "delta"][: p.get("nf", 3)]
        pf, path = make_input(dict(p, ndims=3, nf=len(names)), wd, names=names, payload="random", specials=False)
    before = tree_digest(path)
    recs = {}
    for nm, txt in (("r1", REC1), ("rn", RECN), ("rs", RECS), ("rsn", RECSN)):
        fp = os.path.join(wd, f"recipe_{nm}.py")
        with open(fp, "w") as fh:
            fh.write(txt % {"f0": names[0], "f1": names[1]})
        recs[nm] = fp
    cases = [("user1", recs["r1"], ["twice_first"], {}), ("usern", recs["rn"], ["sum_ab", "diff_ab", "prod_ab"], {})]
    if thermo:
        cases = [("HRR", "HRR", ["HeatRelease"], {}), ("ENT", "ENT", ["Enthalpy"], {}),
                 ("SRi", "SRi", None, {"species": rng.sample(sp, 2)}), ("SDi", "SDi", None, {"species": rng.sample(sp, 3)}),
                 ("RRi", "RRi", None, {"reactions": sorted(rng.sample(range(84), 3))}),
                 ("SDi_all", "SDi", None, {"species": rng.choice(["all", ["all"]])}),
                 ("user_s1", recs["rs"], ["cp_mass_user"], {}), ("user_sn", recs["rsn"], ["rho_user", "T_user"], {})]
    keeps = [None, names[1], f"{names[-1]} {names[0]}", "temp" if thermo else names[0], f"no_such {names[1]}"]
    if thermo:
        keeps.append(f"Y({sp[3]}) temp")
    combos = [(c, k, s) for c in cases for k in keeps for s in (True, False)]
    rng.shuffle(combos)
    # every recipe kind at least once
    chosen, seen = [], set()
    for c in combos:
        if c[0][0] not in seen:
            chosen.append(c)
            seen.add(c[0][0])
    chosen += [c for c in combos if c not in chosen][: max(0, p.get("ncombos", 4) - len(chosen))]
    for ci, ((kind, recipe, newnames, opt), kept, serial) in enumerate(chosen):
        out = os.path.join(wd, f"ck_{ci}")
        kw = dict(plotfile=path, recipe=recipe, outfile=out, serial=serial, kept_fields=kept)
        # several cooks in one process, each with its own pressure: a cook depends on its own arguments only
        pres = [1.0, 3.0, 0.5][ci % 3]
        o2 = {"pressure": pres}
        if thermo:
            kw.update(mech=MECH, pressure=pres)
            if "species" in opt:
                kw["species"] = opt["species"] if isinstance(opt["species"], str) else list(opt["species"])
                if opt["species"] in ("all", ["all"]):
                    opt = dict(opt, species=list(sp))       # every species of the mechanism, in mechanism order
                o2["species"] = list(opt["species"])
                pre = {"SRi": "IRm", "SDi": "DI", "SDi_all": "DI"}[kind]
                newnames = [f"{pre}({s})" for s in opt["species"]]
            if "reactions" in opt:
                kw["reactions"] = list(opt["reactions"])
                o2["reactions"] = list(opt["reactions"])
                newnames = [f"R{i}" for i in opt["reactions"]]
        what = f"Chef(recipe={kind}, kept_fields={kept!r}, serial={serial}{', pressure=' + str(pres) if thermo else ''}{', ' + str(opt) if opt else ''}).cook()  [cook #{ci + 1} of this process]"
        checks += 1
        # parallel mode uses a pathos pool: substitute the controllable pool (pathos caches its pool across instances)
        old_pool = chefmod.Pool
        chefmod.Pool = FakePool
        FakePool.configure("shuffle", p["seed"] + ci)
        try:
            Chef(**kw).cook()
        except Exception as e:      # noqa
            fails.append({"what": "chef raised on a valid request", "call": what, "detail": f"{type(e).__name__}: {str(e)[:140]}"})
            continue
        finally:
            chefmod.Pool = old_pool
        kidx = [names.index(k) for k in (kept.split() if kept else []) if k in names]
        exp = pf_expected(pf, comps=kidx)
        exp["names"] = [names[k] for k in kidx] + list(newnames)
        for lv in range(pf.L + 1):
            for b in range(pf.nboxes(lv)):
                arr = pf.data[lv][b]
                if kind == "user1":
                    new = (2.0 * arr[..., 0] + 1.0)[..., None]
                elif kind == "usern":
                    a_, b_ = arr[..., 0], arr[..., 1]
                    new = np.stack([a_ + b_, a_ - b_, a_ * b_], axis=-1)
                else:
                    new = cantera_expected({"SDi_all": "SDi"}.get(kind, kind), arr, names, o2)
                exp["data"][lv][b] = np.concatenate([arr[..., kidx], new], axis=-1)
            exp["mins"][lv] = np.array([np.min(d, axis=(0, 1, 2)) for d in exp["data"][lv]])
            exp["maxs"][lv] = np.array([np.max(d, axis=(0, 1, 2)) for d in exp["data"][lv]])
        n0 = len(fails)
        info = compare_plotfile(out, exp, fails, "chef output", data_mode="bits" if not thermo else "close", rtol=1e-11,
                                minmax_rtol=1e-11)
        if len(fails) == n0 and info is not None and kidx:
            # kept fields bit-identical even when the new fields are only close (Cantera)
            from replay import oracle
            from .rt_common import bits_equal
            for lv in range(pf.L + 1):
                for b in range(pf.nboxes(lv)):
                    got = oracle.read_box(out, info, lv, b)[..., :len(kidx)]
                    if not bits_equal(got, pf.data[lv][b][..., kidx]):
                        fails.append({"what": "chef output: kept fields are not bit-identical to the input", "detail": f"level {lv} box {b}"})
                        break
                else:
                    continue
                break
        if len(fails) == n0:
            taste_ok(out, fails, "chef output")
        for f in fails[n0:]:
            f["call"] = what
        if len(fails) > 8:
            break
    if tree_digest(path) != before:
        fails.append({"what": "chef modified its input plotfile", "call": "", "detail": ""})
    return {"fails": fails[:20], "checks": checks}
