"""Run-time contracts of the header-only tools (bounded layer of C18): minuterie, menu, marinate."""
import contextlib
import io
import os
import pickle
import random
import re
import sys
import numpy as np
from replay import gen, oracle
from .rt_tools import make_input
from .rt_common import bits_equal


def capture(fn, *a, **k):
    buf = io.StringIO()
    with contextlib.redirect_stdout(buf):
        fn(*a, **k)
    return buf.getvalue()


def section_tokens(text, title):
    """tokens printed between the two '+---+' caps following `title`"""
    lines = text.split("\n")
    for i, ln in enumerate(lines):
        if title in ln:
            # (a one-species listing two characters wide has the cap "++")
            caps = [j for j in range(i + 1, len(lines)) if re.match(r"^\+-*\+\s*$", lines[j])]
            if len(caps) >= 2:
                body = lines[caps[0] + 1:caps[1]]
                return [t for l in body for t in l.split()]
    return None


def _spread_file(pf, path, lv):
    """binary files larger than 2 GiB / 4 GiB without the disk space: the FABs of every binary file of level lv are moved apart
    (holes of a sparse file in between) and the level header records the new byte positions - what a reader sees of a large
    plotfile (byte offsets that do not fit 32 bits)."""
    import re as _re
    lvdir = os.path.join(path, f"Level_{lv}")
    ch = os.path.join(lvdir, "Cell_H")
    lines = open(ch).read().split("\n")
    gaps = [0, 40000, 2 ** 31 + 4096, 2 ** 31 + 65536, 2 ** 32 + 40000, 2 ** 33 + 8]
    for fn in sorted(set(pf.files[lv])):
        fp = os.path.join(lvdir, fn)
        blob = open(fp, "rb").read()
        scan = oracle.scan_file(fp)
        newpos = {}
        with open(fp, "wb") as fh:
            pos = 0
            for k, (lo, hi, nc, hoff, doff, nbytes) in enumerate(scan):
                pos = max(pos, gaps[min(k, len(gaps) - 1)])
                fh.seek(pos)
                fh.write(blob[hoff:doff + nbytes])
                newpos[hoff] = pos
                pos += doff + nbytes - hoff
        for i, ln in enumerate(lines):
            m = _re.match(r"^FabOnDisk: (\S+) (\d+)$", ln)
            if m and m.group(1) == fn:
                lines[i] = f"FabOnDisk: {fn} {newpos[int(m.group(2))]}"
        if pf.offsets is not None:
            for b in range(pf.nboxes(lv)):
                if pf.files[lv][b] == fn:
                    pf.offsets[lv][b] = newpos[pf.offsets[lv][b]]
    open(ch, "w").write("\n".join(lines))


def run_menu_scenario(p, wd):
    from amr_kitchen.menu.menu import Menu
    import amr_kitchen.minuterie as minuterie
    fails = []
    checks = 0
    rng = random.Random(p["seed"])
    names = list(p["names"])
    # independent copy of the database as shipped (patterns are data of the program)
    db = {k: v[0] for k, v in Menu.field_info.items() if k in p.get("db_keys", Menu.field_info)}

    def payload(lv, b, lo, hi, X, Y, Z, c):
        r = np.random.default_rng(p["seed"] * 31 + lv * 7 + b * 3 + c)
        # (the scale depends on the scenario: two plotfiles written to one path have visibly different extrema)
        return (-1.0) ** c * (c + 1.0) * 10.0 ** (c - 2) * (1 + r.uniform(0, 1, size=X.shape)) * (1.0 + (p["seed"] % 17) * 0.37)
    pp = dict(p)
    pp["nf"] = len(names)
    pf, path = make_input(pp, wd, names=names, payload=payload, specials=False)
    if p.get("large_offsets"):
        _spread_file(pf, path, pf.L)
    # --- minuterie
    checks += 1
    old = sys.argv
    sys.argv = ["minuterie", path]
    try:
        out = capture(minuterie.main)
        m = re.search(r"Plotfile time =\s*(\S+)", out)
        if not m or float(m.group(1)) != float(pf.time):
            fails.append({"what": "minuterie does not print the header time", "call": "minuterie <plt>", "detail": out[:80]})
    except Exception as e:      # noqa
        fails.append({"what": "minuterie raised", "call": "minuterie <plt>", "detail": f"{type(e).__name__}: {e}"})
    finally:
        sys.argv = old
    # --- menu: default listing
    def class_of(f):
        for k, pat in db.items():
            if re.compile(pat).search(f):
                return k
        return f
    exp_vars = sorted({class_of(f) for f in names}, key=str.lower)
    exp_species = sorted(re.sub(r"\)$", "", re.sub(r"^Y\(", "", f)) for f in names if re.search(r"^Y\(.+\)$", f))
    for rep in range(2):      # twice in one process: a listing must not depend on the previous one
        checks += 1
        try:
            out = capture(Menu, path)
        except Exception as e:      # noqa
            fails.append({"what": "menu raised on a well-formed plotfile", "call": "Menu(plt)", "detail": f"{type(e).__name__}: {str(e)[:100]}"})
            break
        got = section_tokens(out, "Fields found in file:")
        if got is None or sorted(got) != sorted(exp_vars):
            fails.append({"what": "menu does not list every field exactly once", "call": f"Menu(plt) run {rep + 1}",
                          "detail": f"printed {got}, header fields {names} -> expected {exp_vars}"})
            break
        gs = section_tokens(out, "Species found in file:")
        if exp_species and (gs is None or sorted(gs) != exp_species):
            fails.append({"what": "menu does not list every species exactly once", "call": "Menu(plt)",
                          "detail": f"printed {gs}, expected {exp_species}"})
            break
    # --- menu: min/max tables
    info = oracle.read(path)
    for finest, both in ((False, False), (True, False), (True, True)):      # -m ; -f ; -m -f (= the finest level)
        checks += 1
        mm = (not finest) or both
        call = f"Menu(plt, min_max={mm}, finest_lv={finest})"
        try:
            out = capture(Menu, path, min_max=mm, finest_lv=finest)
        except Exception as e:      # noqa
            fails.append({"what": "menu min/max raised", "call": call, "detail": f"{type(e).__name__}: {str(e)[:100]}"})
            continue
        rows = {}
        dup = False
        for ln in out.split("\n"):
            for ent in ln.split("\t"):
                m = re.match(r"^(\S+)\s+:\s+(\S+)\s+(\S+)\s+(\[.*\])\s*$", ent.rstrip())
                if m:
                    if m.group(1) in rows:
                        dup = True
                    rows[m.group(1)] = (m.group(2), m.group(3))
        lvs = [info["L"]] if finest else range(info["L"] + 1)
        for c, f in enumerate(names):
            mn = min(float(np.min(info["levels"][lv]["mins"][:, c])) for lv in lvs)
            mx = max(float(np.max(info["levels"][lv]["maxs"][:, c])) for lv in lvs)
            e = ("{:.3}".format(mn), "{:.3}".format(mx))
            if f not in rows:
                fails.append({"what": "menu min/max table misses a field", "call": call, "detail": f"{f} of {names}"})
                break
            if rows[f] != e:
                fails.append({"what": "menu min/max table shows wrong extrema", "call": call, "detail": f"{f}: {rows[f]} vs {e}"})
                break
        if dup or len(rows) != len(names):
            fails.append({"what": "menu min/max table does not show every field exactly once", "call": call,
                          "detail": f"{sorted(rows)} vs {names}"})
    # --- marinate (3D only: needs the ghost map)
    if pf.ndims == 3:
        import amr_kitchen.marinate as marinate
        from amr_kitchen import PlotfileCooker
        checks += 1
        sys.argv = ["marinate", path]
        try:
            marinate.main()
            with open(path + ".pkl", "rb") as fh:
                pk = pickle.load(fh)
            ref = PlotfileCooker(path, maxmins=True)
            same = (list(pk.fields) == list(ref.fields) and pk.time == ref.time and pk.limit_level == ref.limit_level
                    and pk.geo_low == ref.geo_low and pk.geo_high == ref.geo_high and pk.dx == ref.dx
                    and all(np.array_equal(a, b) for a, b in zip(pk.grid_sizes, ref.grid_sizes))
                    and pk.boxes == ref.boxes
                    and all(pk.cells[lv]["files"] == ref.cells[lv]["files"] and pk.cells[lv]["offsets"] == ref.cells[lv]["offsets"]
                            and np.array_equal(np.array(pk.cells[lv]["indexes"]), np.array(ref.cells[lv]["indexes"]))
                            and all(np.array_equal(pk.cells[lv]["mins"][f], ref.cells[lv]["mins"][f]) for f in ref.fields)
                            for lv in range(ref.limit_level + 1)))
            if not same:
                fails.append({"what": "unpickled reader exposes different metadata", "call": "marinate <plt>", "detail": ""})
            else:
                lv = pf.L
                for b in (range(pf.nboxes(lv)) if p.get("large_offsets") else [rng.randrange(pf.nboxes(lv))]):
                    if not bits_equal(pk[:][lv][b], pf.data[lv][b]):
                        fails.append({"what": "unpickled reader reads different box data", "call": "marinate <plt>", "detail": f"level {lv} box {b}"})
                        break
        except Exception as e:      # noqa
            fails.append({"what": "marinate raised", "call": "marinate <plt>", "detail": f"{type(e).__name__}: {str(e)[:100]}"})
        finally:
            sys.argv = old
    return {"fails": fails[:20], "checks": checks}
