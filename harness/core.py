"""Check driver: proof layer (PyVC tasks) + bounded run-time layer (real code vs oracle on generated inputs),
verdict logic, known findings, evidence."""
import concurrent.futures as cf
import hashlib
import importlib
import json
import multiprocessing
import os
import signal
import sys
import tempfile
import shutil
import time
import traceback

ROOT = os.path.dirname(os.path.dirname(os.path.abspath(__file__)))
sys.path.insert(0, ROOT)
KNOWN_FILE = os.path.join(ROOT, "known_findings.json")
REPO_DIR = os.environ.get("VERIF_REPO", "/repo")       # tree under check (seedcheck.sh points this at a scratch copy)
OUT = os.environ.get("VERIF_OUT", ROOT)                  # where evidence/ and replays/ are written
sys.path.insert(0, REPO_DIR)                              # the run-time layer imports amr_kitchen from the same tree
NPROC = int(os.environ.get("VERIF_NPROC", "16"))


def load_known():
    if not os.path.exists(KNOWN_FILE):
        return []
    return json.load(open(KNOWN_FILE))["findings"]


# ---------------------------------------------------------------------------------------------------------
# proof layer


def _run_task_worker(arg):
    modname, idx, tier, overrides = arg
    try:
        from pyvc.repo import Repo
        from pyvc.task import run_task
        mod = importlib.import_module(modname)
        ov = None
        if overrides:
            ov = {}
            for f in {o[0] for o in overrides}:
                reps = [(a, b) for f2, a, b in overrides if f2 == f]

                def apply(s, reps=reps):
                    for a, b in reps:
                        s = s.replace(a, b, 1)
                    return s
                ov[f] = apply
        repo = Repo(overrides=ov)
        tasks = mod.tasks(tier)
        t = tasks[idx]
        r = run_task(t, repo, stop_on_refuted=bool(overrides))
        d = dict(r.__dict__)
        return d
    except Exception:
        return {"task": f"{modname}[{idx}]", "errors": [traceback.format_exc()[-2000:]], "obligs": [], "paths": 0,
                "unsupported": [], "vacuous": False, "expect": "proved", "finding": None, "reach": "U",
                "qual": None, "ast_sha": {}, "solver_s": 0, "wall_s": 0, "calls": [], "ret_paths": 0, "exc_paths": 0,
                "precond_model": None, "prop": "?"}


def run_tasks(modname, tier, overrides=None, only=None):
    mod = importlib.import_module(modname)
    tasks = mod.tasks(tier)
    idxs = [i for i, t in enumerate(tasks) if only is None or t.name in only]
    args = [(modname, i, tier, overrides) for i in idxs]
    if not args:
        return []
    ctxm = multiprocessing.get_context("fork")
    with cf.ProcessPoolExecutor(max_workers=min(NPROC, len(args)), mp_context=ctxm) as ex:
        return list(ex.map(_run_task_worker, args))


# ---------------------------------------------------------------------------------------------------------
# run-time layer


class Timeout(Exception):
    pass


def _alarm(signum, frame):
    raise Timeout()


def _scenario_worker(arg):
    modname, params, timeout = arg
    mod = importlib.import_module(modname)
    wd = tempfile.mkdtemp(prefix="verif_rt_")
    old = signal.signal(signal.SIGALRM, _alarm)
    signal.alarm(timeout)
    t0 = time.time()
    # the repository prints progress (also from pool workers): keep the check's stdout for verdict lines only
    sys.stdout.flush()
    saved_fd = os.dup(1)
    saved_fd2 = os.dup(2)
    devnull = os.open(os.devnull, os.O_WRONLY)
    os.dup2(devnull, 1)
    if not os.environ.get("VERIF_RT_STDERR"):
        os.dup2(devnull, 2)
    try:
        res = mod.run_scenario(params, wd)
        if isinstance(res, dict):
            fails, stats = res.get("fails", []), {"checks": res.get("checks", 0)}
        else:
            fails, stats = res, {"checks": 0}
        # a HISTORY: the scenario named by "then" is run afterwards in the same process on the same paths - every directory the
        # first one made is removed and written again with other contents (what re-running a tool into an existing location, or
        # re-using a path for another plotfile, looks like); plain files left beside them (a pickle, an .npz) stay.  What an
        # operation yields depends on what is on disk when it runs, not on what the process did before.
        nxt = params.get("then")
        while nxt:
            # ("in_place": nothing is removed - the second plotfile is written over the first one, file by file, the way a tool
            # re-run into its existing output directory does; the directories, and their modification times, stay)
            for ent in ([] if nxt.get("in_place") else os.listdir(wd)):
                pth = os.path.join(wd, ent)
                if os.path.isdir(pth) and not os.path.islink(pth):
                    shutil.rmtree(pth, ignore_errors=True)
            res2 = mod.run_scenario(nxt, wd)
            f2 = res2.get("fails", []) if isinstance(res2, dict) else res2
            for f_ in f2:
                f_["call"] = str(f_.get("call", "")) + "  [second use of the same paths in one process]"
            fails = list(fails) + list(f2)
            stats["checks"] += res2.get("checks", 0) if isinstance(res2, dict) else 0
            nxt = nxt.get("then")
        return {"params": params, "fails": fails, "error": None, "s": time.time() - t0, "stats": stats}
    except Timeout:
        return {"params": params, "fails": [], "error": f"timeout after {timeout}s", "s": time.time() - t0}
    except Exception:
        return {"params": params, "fails": [], "error": traceback.format_exc()[-1500:], "s": time.time() - t0}
    finally:
        signal.alarm(0)
        signal.signal(signal.SIGALRM, old)
        try:
            sys.stdout.flush()
        except Exception:
            pass
        os.dup2(saved_fd, 1)
        os.dup2(saved_fd2, 2)
        os.close(saved_fd)
        os.close(saved_fd2)
        os.close(devnull)
        shutil.rmtree(wd, ignore_errors=True)


def run_scenarios(modname, scen, timeout=300, workers=4):
    if not scen:
        return []
    ctxm = multiprocessing.get_context("fork")
    with cf.ProcessPoolExecutor(max_workers=min(workers, len(scen)), mp_context=ctxm) as ex:
        return list(ex.map(_scenario_worker, [(modname, p, timeout) for p in scen]))


# ---------------------------------------------------------------------------------------------------------


def write_replay(prop, name, payload):
    d = os.path.join(OUT, "replays", prop)
    os.makedirs(d, exist_ok=True)
    h = hashlib.sha256(json.dumps(payload, sort_keys=True, default=str).encode()).hexdigest()[:10]
    safe = "".join(c if c.isalnum() or c in "._-" else "_" for c in name)[:80]
    p = os.path.join(d, f"{safe}-{h}.json")
    json.dump(payload, open(p, "w"), indent=1, default=str)
    return p


def check_property(prop, tier, seed, replay=None):
    """Returns exit code."""
    t_start = time.time()
    modname = f"props.{prop}"
    mod = importlib.import_module(modname)
    known = [k for k in load_known() if k["property"] == prop]
    open_ids = {k["id"]: k for k in known if k["status"] == "open"}
    lines = []
    exit_code = 0

    if replay:
        payload = json.load(open(replay))
        print(f"replaying {replay}")
        if payload.get("scenario") is not None:
            r = _scenario_worker((modname, payload["scenario"], 600))
            print(json.dumps(r, indent=1, default=str)[:4000])
            bad = bool(r["fails"]) or bool(r["error"])
            if bad:
                print(f"VIOLATION property={prop} replay={replay}")
            return 1 if bad else 0
        print("replay file carries no concrete scenario (obligation-only); obligation:", payload.get("obligation"))
        print(json.dumps(payload.get("solver_output"), indent=1)[:3000])
        return 1

    # ---- proof layer
    results = run_tasks(modname, tier)
    task_objs = {t.name: t for t in mod.tasks(tier)}
    n_obl = n_dis = 0
    s_obl = s_dis = 0
    s_tasks = []
    samples = []
    funcs = {}
    backends = {}
    solver_s = 0.0
    degraded = []
    checker_errors = []
    refuted = []        # (task dict, oblig dict)
    known_hit = {}
    assumptions = set(getattr(mod, "ASSUMPTIONS", []))
    trusted = set(getattr(mod, "TRUSTED", []))
    for r in results:
        solver_s += r.get("solver_s", 0)
        for q, sha in r.get("ast_sha", {}).items():
            funcs[q] = {"qualname": q, "ast_sha": sha, "reach": r.get("reach", "U")}
        if r.get("errors"):
            checker_errors.append((r["task"], r["errors"][0]))
            continue
        if r.get("vacuous"):
            checker_errors.append((r["task"], "vacuous precondition (contract hypotheses unsatisfiable)"))
            continue
        is_known_region = r.get("expect") == "refuted"
        if r.get("unsupported"):
            if not is_known_region:
                degraded.append((r["task"], "unsupported: " + "; ".join(sorted(set(r["unsupported"]))[:3])))
        if not r["obligs"] and not r.get("unsupported"):
            checker_errors.append((r["task"], "zero obligations generated"))
            continue
        any_ref = False
        for o in r["obligs"]:
            for s_ in o["solvers"]:
                backends.setdefault(s_, {"discharged": 0, "solver_s": 0.0})
            if is_known_region:
                if o["status"] == "refuted":
                    any_ref = True
                continue
            if r.get("reach", "U") == "U":
                n_obl += 1
            else:
                s_obl += 1
                if r["task"] not in s_tasks:
                    s_tasks.append(r["task"])
            if o["status"] == "proved":
                if r.get("reach", "U") == "U" and not r.get("unsupported"):
                    n_dis += 1
                elif r.get("reach", "U") != "U" and not r.get("unsupported"):
                    s_dis += 1
                b = backends.setdefault(o["solvers"][-1] if o["solvers"] else "trivial",
                                        {"discharged": 0, "solver_s": 0.0})
                b["discharged"] += 1
                b["solver_s"] = round(b["solver_s"] + o["ms"] / 1000, 4)
            elif o["status"] == "refuted":
                refuted.append((r, o))
            else:
                degraded.append((r["task"], f"{o['name']}: solver unknown ({o.get('reason', '')[:80]})"))
            if len(samples) < 12:
                samples.append({"obligation": f"{r['task']}.{o['name']}", "kind": o["kind"], "status": o["status"],
                                "solver": "+".join(o["solvers"]), "ms": round(o["ms"], 2), "paths": o["paths"]})
        if is_known_region:
            fid = r.get("finding")
            known_hit.setdefault(fid, {"refuted": False, "task": r["task"]})
            if any_ref:
                known_hit[fid]["refuted"] = True

    # ---- canaries (engine soundness guard)
    canary_report = {"run": 0, "refuted": 0, "skipped": 0, "surviving": []}
    todo = []
    for can in mod.canaries(tier) if hasattr(mod, "canaries") else []:
        desc, overrides, only = can
        # skip if the mutated text is not present in the current tree (someone edited that line)
        applicable = True
        for f, a, b in overrides:
            try:
                if a not in open(os.path.join(REPO_DIR, f)).read():
                    applicable = False
            except OSError:
                applicable = False
        if not applicable:
            canary_report["skipped"] += 1
            continue
        todo.append(can)
    if todo:
        import concurrent.futures as _cf
        with _cf.ThreadPoolExecutor(max_workers=min(6, len(todo))) as tp:       # each canary runs its tasks in its own process pool
            results = list(tp.map(lambda c: run_tasks(modname, tier, overrides=c[1], only=c[2]), todo))
        for (desc, overrides, only), rs in zip(todo, results):
            canary_report["run"] += 1
            hit = any(o["status"] == "refuted" for r in rs for o in r["obligs"])
            # the mutant VERIFIES only when every obligation is proved and nothing was left unexecuted; a mutant whose
            # obligations the solvers leave undecided within the budget (load, hard satisfiable query) is inconclusive
            undecided = any(o["status"] != "proved" for r in rs for o in r["obligs"]) or \
                any(r.get("unsupported") or r.get("errors") for r in rs) or not any(r["obligs"] for r in rs)
            if hit:
                canary_report["refuted"] += 1
            elif undecided:
                canary_report.setdefault("inconclusive", []).append(desc)
            else:
                canary_report["surviving"].append(desc)
    # a surviving canary on a tree where the un-mutated proof goes through means the engine lost its teeth
    if canary_report["surviving"] and not degraded and not refuted:
        checker_errors.append(("canaries", "surviving: " + "; ".join(canary_report["surviving"])))

    # ---- run-time layer
    scen = mod.scenarios(tier, seed) if hasattr(mod, "scenarios") else []
    workers = getattr(mod, "SCENARIO_WORKERS", 4)
    if tier == "thorough" and hasattr(mod, "scenarios"):
        # the thorough tier widens the bounded layer: the scenario families of several derived seeds (VERIF_THOROUGH_SEEDS,
        # default 4), identical parameter sets run once
        extra = max(1, int(os.environ.get("VERIF_THOROUGH_SEEDS", "4")))
        seen_p = {json.dumps(p_, sort_keys=True, default=str) for p_ in scen}
        for k in range(1, extra):
            for p_ in mod.scenarios(tier, seed + 37 * k):
                key_ = json.dumps(p_, sort_keys=True, default=str)
                if key_ not in seen_p:
                    seen_p.add(key_)
                    scen.append(p_)
        workers = min(8, max(workers, 2 * workers))
    rt = run_scenarios(modname, scen, timeout=getattr(mod, "SCENARIO_TIMEOUT", 300), workers=workers)
    rt_fail = []
    rt_err = []
    rt_evals = 0
    for r in rt:
        if r["error"]:
            rt_err.append(r)
        for f in r["fails"]:
            rt_fail.append((r["params"], f))
        rt_evals += r.get("evals", 0) if isinstance(r, dict) else 0
    n_checks = sum(f.get("checks", 0) for r in rt for f in [r.get("stats", {})] if isinstance(f, dict))

    # ---- verdicts
    violations = []
    classify = getattr(mod, "classify_failure", lambda params, fail: None)
    reproduced = {}
    seen_what = {}
    for params, f in rt_fail:
        fid = f.get("finding") or classify(params, f)
        if fid and fid in open_ids:
            reproduced.setdefault(fid, (params, f))
        else:
            # one VIOLATION line per distinct kind of failure (first failing input kept as the replay)
            seen_what[f.get("what")] = seen_what.get(f.get("what"), 0) + 1
            if seen_what[f.get("what")] > 1:
                continue
            path = write_replay(prop, "runtime-" + f.get("what", "fail")[:40], {
                "property": prop, "layer": "run-time contract (bounded)", "scenario": params, "failure": f,
                "replay_cmd": f"bin/vcheck {prop} --replay <this file>"})
            violations.append((f"run-time contract: {f.get('what')}", path, True))
    for r, o in refuted:
        name = f"{r['task']}.{o['name']}"
        t = task_objs.get(r["task"])
        scn = None
        if t is not None and hasattr(t, "replay_params"):
            try:
                scn = t.replay_params(o.get("model") or {})
            except Exception:
                scn = None
        confirmed = False
        fails = None
        if scn is not None:
            rr = _scenario_worker((modname, scn, 300))
            # (a replay that crashes reproduces nothing: it is recorded, it does not confirm)
            fails = rr["fails"] or ([{"what": "replay-error (not a reproduction)", "detail": rr["error"], "replay_error": True}] if rr["error"] else [])
            # a replay that lands in a known-finding region does not confirm THIS obligation
            fails = [f for f in fails if not ((f.get("finding") or classify(scn, f)) in open_ids)]
            confirmed = any(not f.get("replay_error") for f in fails)
        if not confirmed and rt_fail:
            # the bounded layer found a failing input on the same tree
            pass
        path = write_replay(prop, name, {
            "property": prop, "layer": "proof obligation", "obligation": name, "kind": o["kind"],
            "function": r.get("qual"), "line": o.get("lineno"), "solver": "+".join(o["solvers"]),
            "solver_output": {"result": "sat (negated VC satisfiable)", "model": o.get("model")},
            "scenario": scn, "replay_failures": fails,
            "replay_cmd": f"bin/vcheck {prop} --replay <this file>"})
        violations.append((f"obligation {name} refuted", path, confirmed))

    # known findings
    for fid, k in open_ids.items():
        hit = known_hit.get(fid, {}).get("refuted") or fid in reproduced
        if hit:
            lines.append(f"KNOWN-FINDING: property={prop} {fid}: {k['what']}")
        else:
            lines.append(f"NOTE: known finding {fid} of {prop} was not reproduced on this tree (stale entry?)")

    if checker_errors and not violations:
        for t, e in checker_errors:
            print(f"CHECKER-ERROR property={prop} task={t}: {e}")
        exit_code = 3
    for t, why in degraded:
        lines.append(f"DEGRADED property={prop} task={t} reason={why}")
    for what, path, confirmed in violations:
        tail = "" if confirmed else " no-failing-input-found"
        lines.append(f"VIOLATION property={prop} replay={path}{tail}")
        exit_code = 1
    for r in rt_err:
        lines.append(f"RT-ERROR property={prop} scenario={json.dumps(r['params'], default=str)[:200]} {r['error'][-300:]}")
        if exit_code == 0:
            exit_code = 3

    # ---- evidence
    level = "proof" if (n_obl > 0 and n_dis == n_obl and not degraded and exit_code == 0) else "other"
    rt_distinct = len({json.dumps(r["params"], sort_keys=True, default=str) for r in rt})
    cov = {
        "obligations": n_obl, "discharged": n_dis,
        "checker_cmd": f"bin/vcheck {prop} --tier {tier}",
        "trusted_base": sorted(trusted),
        "functions_under_contract": sorted(funcs.values(), key=lambda x: x["qualname"]),
        "backends": backends, "solver_s": round(solver_s, 3),
        "bounded": ([{"layer": "S (real code executed symbolically on bounded skeletons: structure concrete, every number and name "
                               "symbolic; labelled bounded, not counted under obligations/discharged)",
                      "obligations": s_obl, "discharged": s_dis, "skeletons": s_tasks[:40]}] if s_obl else []) + [
                    {"layer": "R (run-time contract on generated inputs; bounded, not counted as proof)",
                     "scenarios": len(rt), "distinct": rt_distinct,
                     "checks": sum(r.get("stats", {}).get("checks", 0) if isinstance(r.get("stats"), dict) else 0
                                   for r in rt) + sum(len(r["fails"]) for r in rt),
                     "failed": len(rt_fail), "seed": seed,
                     "samples": [r["params"] for r in rt[:3]]}],
        "bounded_skeleton_obligations": s_obl, "bounded_skeleton_discharged": s_dis,
        "canaries": canary_report,
        "known_findings": [{"id": k["id"], "status": k["status"],
                            "reproduced": bool(known_hit.get(k["id"], {}).get("refuted") or k["id"] in reproduced)}
                           for k in known],
        "degraded": [f"{t}: {w}" for t, w in degraded],
        "samples": samples or [{"note": "no proof obligations in this run"}],
        "explanation": ("Contract-based deductive verification: PyVC executes the real AST of the listed functions "
                        "symbolically against sidecar contracts and discharges every obligation with z3/cvc5; "
                        "the bounded run-time layer replays the top-level contracts on generated plotfiles."),
        "evaluations": max(1, n_obl + len(rt)), "distinct_nontrivial": max(2, n_obl + rt_distinct),
    }
    ev = {"property_id": prop, "tier": tier, "seed": seed, "level": level, "coverage": cov,
          "assumptions": sorted(assumptions), "wall_s": round(time.time() - t_start, 2),
          "violations": len(violations)}
    os.makedirs(os.path.join(OUT, "evidence"), exist_ok=True)
    json.dump(ev, open(os.path.join(OUT, "evidence", f"{prop}.json"), "w"), indent=1, default=str)
    for ln in lines:
        print(ln)
    print(f"[{prop}] tier={tier} obligations={n_obl} discharged={n_dis} skeleton={s_dis}/{s_obl} rt_scenarios={len(rt)} rt_failed={len(rt_fail)} "
          f"canaries={canary_report['refuted']}/{canary_report['run']}"
          f"{'(' + str(len(canary_report.get('inconclusive', []))) + ' inconclusive)' if canary_report.get('inconclusive') else ''} level={level} exit={exit_code} "
          f"wall={time.time() - t_start:.1f}s")
    return exit_code


def main(argv):
    import argparse
    ap = argparse.ArgumentParser()
    ap.add_argument("prop")
    ap.add_argument("--tier", default=os.environ.get("VERIF_TIER", "quick"))
    ap.add_argument("--replay")
    a = ap.parse_args(argv)
    seed = int(os.environ.get("VERIF_SEED", "0"))
    if a.tier == "thorough":
        os.environ.setdefault("PYVC_Z3_MS", "40000")       # read by pyvc.vc at import (first import happens below)
        os.environ.setdefault("PYVC_CVC5_MS", "20000")
    try:
        import amr_kitchen
        if not os.path.realpath(amr_kitchen.__file__).startswith(os.path.realpath(REPO_DIR) + os.sep):
            raise RuntimeError(f"run-time layer would import {amr_kitchen.__file__}, not the tree under check {REPO_DIR}")
        rc = check_property(a.prop, a.tier, seed, a.replay)
    except Exception:
        print(f"CHECKER-ERROR property={a.prop} {traceback.format_exc()[-2000:]}")
        rc = 3
    sys.stdout.flush()
    return rc


if __name__ == "__main__":
    sys.exit(main(sys.argv[1:]))
