"""A controllable in-process stand-in for multiprocessing.Pool / pathos ProcessingPool used by the bounded layer:
tasks are EXECUTED in a chosen permutation; ordered calls (map, imap) return results in submission order,
imap_unordered returns them in execution (completion) order."""
import random


class FakePool:
    order = "shuffle"       # 'submission' | 'reversed' | 'shuffle'
    seed = 0
    calls = []              # log of (method, ntasks)

    def __init__(self, *a, **k):
        self.args = (a, k)

    def __enter__(self):
        return self

    def __exit__(self, *a):
        return False

    def close(self):
        pass

    def join(self):
        pass

    def terminate(self):
        pass

    @classmethod
    def configure(cls, order="shuffle", seed=0):
        cls.order, cls.seed, cls.calls = order, seed, []

    def _perm(self, n):
        idx = list(range(n))
        if FakePool.order == "reversed":
            idx.reverse()
        elif FakePool.order == "shuffle":
            random.Random(FakePool.seed + 7919 * len(FakePool.calls)).shuffle(idx)
        return idx

    def _run(self, f, items):
        items = list(items)
        perm = self._perm(len(items))
        res = {}
        for i in perm:
            res[i] = f(items[i])
        return perm, res

    def map(self, f, items, chunksize=None):
        perm, res = self._run(f, items)
        FakePool.calls.append(("map", len(res)))
        return [res[i] for i in range(len(res))]

    def imap(self, f, items, chunksize=None):
        perm, res = self._run(f, items)
        FakePool.calls.append(("imap", len(res)))
        return iter([res[i] for i in range(len(res))])

    def imap_unordered(self, f, items, chunksize=None):
        perm, res = self._run(f, items)
        FakePool.calls.append(("imap_unordered", len(res)))
        return iter([res[i] for i in perm])


class FakeMP:
    """replacement for the `multiprocessing` module object inside a repo module"""
    Pool = FakePool

    def __getattr__(self, name):
        import multiprocessing
        return getattr(multiprocessing, name)


def patch_pools(order="shuffle", seed=0):
    """Substitute the pool in every repo module (returns an undo function)."""
    import importlib
    FakePool.configure(order, seed)
    undo = []
    for modname, attr in (("amr_kitchen.plotfile_cooker", "multiprocessing"), ("amr_kitchen.taste.taste", "multiprocessing"),
                          ("amr_kitchen.colander.colander", "multiprocessing"), ("amr_kitchen.combine.combine", "multiprocessing"),
                          ("amr_kitchen.mandoline.mandoline", "multiprocessing"), ("amr_kitchen.pestle.pestle", "multiprocessing"),
                          ("amr_kitchen.whip.cli", "multiprocessing"), ("amr_kitchen.chef.chef", "Pool"),
                          ("amr_kitchen.chk2plt.chk2plt", "Pool")):
        try:
            m = importlib.import_module(modname)
        except Exception:
            continue
        if not hasattr(m, attr):
            continue
        old = getattr(m, attr)
        setattr(m, attr, FakeMP() if attr == "multiprocessing" else FakePool)
        undo.append((m, attr, old))

    def restore():
        for m, attr, old in undo:
            setattr(m, attr, old)
    return restore
