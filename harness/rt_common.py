"""Shared pieces of the bounded run-time layer: judging a written plotfile against an expected abstract plotfile."""
import os
import numpy as np
from replay import oracle


def bits_equal(x, y):
    x = np.ascontiguousarray(x, dtype=np.float64)
    y = np.ascontiguousarray(y, dtype=np.float64)
    return x.shape == y.shape and bool((x.view(np.uint64) == y.view(np.uint64)).all())


def taste_ok(path, fails, what, coords=True, limit=None):
    """validation accepts the directory (default options, and with box coordinates)."""
    from amr_kitchen.taste.taste import Taster
    for kw in ({},) + (({"boxes_coordinates": True},) if coords else ()):
        try:
            t = Taster(path, nofail=True, verbose=0, limit_level=limit, **kw)
            good = bool(t)
        except Exception as e:      # noqa
            fails.append({"what": f"{what}: validation raised in non-failing mode", "detail": f"{type(e).__name__}: {str(e)[:150]}"})
            return False
        if not good:
            fails.append({"what": f"{what}: validation rejects the written plotfile", "detail": str(kw)})
            return False
    return True


def compare_plotfile(outdir, exp, fails, what, data_mode="bits", minmax="rows", rtol=1e-12, minmax_rtol=1e-14, geom_rtol=0.0):
    # geom_rtol: tolerance on the cell sizes (0 = exact: tools that copy the header text; chk2plt COMPUTES them from the
    # domain bounds and cell counts, one rounding error is not a different geometry)
    """exp: dict(names, ndims, time, geo_lo, geo_hi, L, n[lv], dx[lv], boxes[lv] = [(lo,hi)], bounds[lv] (optional),
    data[lv][b] array (..., nf), mins/maxs[lv] arrays (nb, nf) or None)."""
    try:
        info = oracle.read(outdir)
    except Exception as e:      # noqa
        fails.append({"what": f"{what}: output is not a readable plotfile", "detail": f"{type(e).__name__}: {str(e)[:200]}"})
        return None
    def bad(msg, detail=""):
        fails.append({"what": f"{what}: {msg}", "detail": str(detail)[:300]})
    if list(info["names"]) != list(exp["names"]):
        bad("field names differ", f"{info['names']} vs {exp['names']}")
        return info
    if info["ndims"] != exp["ndims"]:
        bad("dimensionality differs", f"{info['ndims']} vs {exp['ndims']}")
        return info
    if float(info["time"]) != float(exp["time"]):
        bad("time differs", f"{info['time']} vs {exp['time']}")
    if info["L"] != exp["L"]:
        bad("number of levels differs", f"finest {info['L']} vs {exp['L']}")
        return info
    if not np.array_equal(np.asarray(info["geo_lo"], float), np.asarray(exp["geo_lo"], float)) or \
            not np.array_equal(np.asarray(info["geo_hi"], float), np.asarray(exp["geo_hi"], float)):
        bad("domain bounds differ", f"{info['geo_lo']} {info['geo_hi']} vs {exp['geo_lo']} {exp['geo_hi']}")
    ref = list(info.get("ref") or [])
    if len(ref) < exp["L"] or any(int(r) != 2 for r in ref[: exp["L"]]):
        bad("refinement-ratio line does not give a ratio of 2 for every level transition", f"{ref} for finest level {exp['L']}")
    for lv in range(exp["L"] + 1):
        lvi = info["levels"][lv]
        if not np.array_equal(np.asarray(info["n"][lv]), np.asarray(exp["n"][lv])):
            bad(f"grid size of level {lv} differs", f"{info['n'][lv]} vs {exp['n'][lv]}")
        if not (np.array_equal(np.asarray(info["dx"][lv], float), np.asarray(exp["dx"][lv], float)) if geom_rtol == 0.0 else
                np.allclose(np.asarray(info["dx"][lv], float), np.asarray(exp["dx"][lv], float), rtol=geom_rtol, atol=0.0)):
            bad(f"cell size of level {lv} differs", f"{info['dx'][lv]} vs {exp['dx'][lv]}")
        got_boxes = [(tuple(lo), tuple(hi)) for lo, hi in lvi["indexes"]]
        exp_boxes = [(tuple(lo), tuple(hi)) for lo, hi in exp["boxes"][lv]]
        if sorted(got_boxes) != sorted(exp_boxes):
            bad(f"boxes of level {lv} differ", f"{len(got_boxes)} vs {len(exp_boxes)} boxes")
            return info
        if exp.get("same_box_order", True) and got_boxes != exp_boxes:
            bad(f"box order of level {lv} differs from the input's")
        if exp.get("bounds") is not None:
            for b, bx in enumerate(exp_boxes):
                gb = got_boxes.index(bx)
                if not np.allclose(np.asarray(lvi["bounds"][gb], float), np.asarray(exp["bounds"][lv][b], float),
                                   rtol=1e-12, atol=0):
                    bad(f"physical bounds of box {b} level {lv} differ",
                        f"{lvi['bounds'][gb]} vs {exp['bounds'][lv][b]}")
                    break
        for b, bx in enumerate(exp_boxes):
            gb = got_boxes.index(bx)
            try:
                arr = oracle.read_box(outdir, info, lv, gb)
            except Exception as e:      # noqa
                bad(f"box {gb} of level {lv} cannot be read back", f"{type(e).__name__}: {str(e)[:150]}")
                return info
            e = exp["data"][lv][b]
            if data_mode == "bits":
                okd = bits_equal(arr, e)
            else:
                okd = arr.shape == e.shape and np.allclose(arr, e, rtol=rtol, atol=0, equal_nan=True)
            if not okd:
                wrong = ""
                if arr.shape == e.shape:
                    d = np.argwhere(~((arr == e) | (np.isnan(arr) & np.isnan(e))))
                    wrong = f"first differing cell/comp {tuple(d[0]) if len(d) else '?'}; comps differing: " \
                            f"{sorted(set(int(x[-1]) for x in d))[:8]}"
                bad(f"data of box with index range {bx} (level {lv}) differs", f"shape {arr.shape} vs {e.shape}; {wrong}")
                return info
            if minmax and exp.get("mins") is not None:
                for nm, tab in (("mins", exp["mins"]), ("maxs", exp["maxs"])):
                    row = np.asarray(lvi[nm][gb], float)
                    erow = np.asarray(tab[lv][b], float)
                    if row.shape != erow.shape or not np.allclose(row, erow, rtol=minmax_rtol, atol=0, equal_nan=True):
                        bad(f"{nm} row of box {bx} level {lv} differs", f"{row} vs {erow}")
                        return info
    return info


def pf_expected(pf, comps=None, L=None, names=None):
    """Expected dict from a gen.PF (optionally restricted to components / levels)."""
    L = pf.L if L is None else L
    comps = list(range(pf.nf)) if comps is None else list(comps)
    exp = {"names": names if names is not None else [pf.names[c] for c in comps], "ndims": pf.ndims, "time": pf.time,
           "geo_lo": list(pf.geo_lo), "geo_hi": list(pf.geo_hi), "L": L,
           "n": [list(pf.n(lv)) for lv in range(L + 1)], "dx": [list(pf.dx(lv)) for lv in range(L + 1)],
           "boxes": [list(pf.levels[lv]) for lv in range(L + 1)],
           "bounds": [[pf.box_bounds(lv, b) for b in range(pf.nboxes(lv))] for lv in range(L + 1)],
           "data": [[pf.data[lv][b][..., comps] for b in range(pf.nboxes(lv))] for lv in range(L + 1)]}
    exp["mins"] = [np.array([[np.min(pf.data[lv][b][..., c]) for c in comps] for b in range(pf.nboxes(lv))])
                   for lv in range(L + 1)]
    exp["maxs"] = [np.array([[np.max(pf.data[lv][b][..., c]) for c in comps] for b in range(pf.nboxes(lv))])
                   for lv in range(L + 1)]
    return exp


def tree_digest(path):
    """content hash of a directory tree (names, sizes, bytes, mtimes excluded)."""
    import hashlib
    h = hashlib.sha256()
    for dp, dn, fn in sorted(os.walk(path)):
        dn.sort()
        h.update(os.path.relpath(dp, path).encode())
        for f in sorted(fn):
            p = os.path.join(dp, f)
            h.update(f.encode())
            with open(p, "rb") as fh:
                h.update(hashlib.sha256(fh.read()).digest())
    return h.hexdigest()
