"""
Independent reader of AMReX plotfile directories, used as a test oracle.

Self contained (python 3.12 + numpy); shares no code with `gen.py` nor with
`amr_kitchen`.  Parsing is token / regular-expression based and strict: any
departure from the expected grammar raises ValueError.
"""
import os
import re
import numpy as np

_INT_TUPLE = r"\((-?\d+(?:,-?\d+)*)\)"
_BOX_RE = re.compile(r"\(" + _INT_TUPLE + " " + _INT_TUPLE + " " + _INT_TUPLE + r"\)")
_FAB_RE = re.compile(
    rb"^FAB \(\(8, \(64 11 52 0 1 12 0 1023\)\),\(8, \(8 7 6 5 4 3 2 1\)\)\)"
    rb"\(\((-?\d+(?:,-?\d+)*)\) \((-?\d+(?:,-?\d+)*)\) \((\d+(?:,\d+)*)\)\) (\d+)\n$")
_MAX_HEADER = 4096


def _ints(txt):
    if isinstance(txt, bytes):
        txt = txt.decode('ascii')
    return tuple(int(t) for t in txt.split(','))


class _Lines:
    """Cursor over the lines of a text file."""

    def __init__(self, fpath):
        with open(fpath, 'r', newline='') as f:
            text = f.read()
        self.fpath = fpath
        self.lines = text.split('\n')
        self.pos = 0

    def next(self):
        if self.pos >= len(self.lines):
            raise ValueError(f"{self.fpath}: unexpected end of file")
        line = self.lines[self.pos]
        self.pos += 1
        return line

    def rest(self):
        return self.lines[self.pos:]

    def fail(self, msg):
        raise ValueError(f"{self.fpath}: line {self.pos}: {msg}")


def _parse_box(txt, ndims, where):
    m = _BOX_RE.fullmatch(txt.strip())
    if m is None:
        raise ValueError(f"{where}: malformed box {txt!r}")
    lo, hi, typ = (_ints(g) for g in m.groups())
    if not (len(lo) == len(hi) == len(typ) == ndims):
        raise ValueError(f"{where}: box {txt!r} is not {ndims}D")
    return lo, hi, typ


def _read_header(path):
    cur = _Lines(os.path.join(path, 'Header'))
    out = {'version': cur.next()}
    nf = int(cur.next())
    out['names'] = [cur.next() for _ in range(nf)]
    nd = int(cur.next())
    if nd not in (1, 2, 3):
        cur.fail(f"ndims = {nd}")
    out['ndims'] = nd
    out['time'] = float(cur.next())
    L = int(cur.next())
    out['L'] = L
    out['geo_lo'] = [float(t) for t in cur.next().split()]
    out['geo_hi'] = [float(t) for t in cur.next().split()]
    if len(out['geo_lo']) != nd or len(out['geo_hi']) != nd:
        cur.fail("geometry bounds do not have ndims entries")
    out['ref'] = [int(t) for t in cur.next().split()]
    domains = _BOX_RE.findall(cur.next())
    if len(domains) < L + 1:
        cur.fail("not enough domain boxes")
    out['n'] = []
    for lo, hi, _ in domains[:L + 1]:
        lo, hi = _ints(lo), _ints(hi)
        if len(lo) != nd or len(hi) != nd:
            cur.fail("domain box is not ndims dimensional")
        out['n'].append(np.array(hi, dtype=int) - np.array(lo, dtype=int) + 1)
    out['steps'] = [int(t) for t in cur.next().split()]
    out['dx'] = []
    for _ in range(L + 1):
        dx = [float(t) for t in cur.next().split()]
        if len(dx) != nd:
            cur.fail("dx line does not have ndims entries")
        out['dx'].append(dx)
    out['coord_sys'] = int(cur.next())
    out['bwidth'] = int(cur.next())
    out['levels'] = []
    for lv in range(L + 1):
        toks = cur.next().split()
        if len(toks) != 3 or int(toks[0]) != lv:
            cur.fail(f"bad level line for level {lv}")
        nb = int(toks[1])
        level = {'nboxes': nb, 'time': float(toks[2]), 'step': int(cur.next()), 'bounds': []}
        for _ in range(nb):
            box = []
            for _ in range(nd):
                lo, hi = cur.next().split()
                box.append((float(lo), float(hi)))
            level['bounds'].append(box)
        level['cell_path'] = cur.next().strip()
        out['levels'].append(level)
    out['header_trailing'] = [l for l in cur.rest() if l.strip() != '']
    return out


def _read_level_header(fpath, nd):
    cur = _Lines(fpath)
    out = {'vismf_version': int(cur.next()), 'how': int(cur.next())}
    nc = int(cur.next())
    out['ncomp'] = nc
    out['nghost'] = int(cur.next().split()[0].strip('()').split(',')[0])
    m = re.fullmatch(r"\((\d+) (\d+)", cur.next().strip())
    if m is None:
        cur.fail("bad box array opening line")
    nb = int(m.group(1))
    out['nboxes'] = nb
    out['indexes'], out['types'] = [], []
    for _ in range(nb):
        lo, hi, typ = _parse_box(cur.next(), nd, fpath)
        out['indexes'].append((lo, hi))
        out['types'].append(typ)
    if cur.next().strip() != ')':
        cur.fail("missing ')' closing the box array")
    if int(cur.next()) != nb:
        cur.fail("FabOnDisk count differs from the box count")
    out['files'], out['offsets'] = [], []
    for _ in range(nb):
        toks = cur.next().split()
        if len(toks) != 3 or toks[0] != 'FabOnDisk:':
            cur.fail("bad FabOnDisk line")
        out['files'].append(toks[1])
        out['offsets'].append(int(toks[2]))
    for key in ('mins', 'maxs'):
        if cur.next().strip() != '':
            cur.fail(f"expected an empty line before the {key} table")
        dims = cur.next().strip().split(',')
        if [int(d) for d in dims] != [nb, nc]:
            cur.fail(f"{key} table announces {dims}, expected {nb},{nc}")
        table = np.empty((nb, nc), dtype=np.float64)
        for b in range(nb):
            toks = cur.next().split(',')
            if len(toks) != nc + 1 or toks[-1].strip() != '':
                cur.fail(f"{key} row {b} does not hold {nc} comma terminated values")
            table[b, :] = [float(t) for t in toks[:-1]]
        out[key] = table
    out['trailing'] = [l for l in cur.rest() if l.strip() != '']
    return out


def read(path):
    """
    Parse Header and every Level_k/Cell_H of a plotfile directory.

    {'ndims','names','time','L','geo_lo','geo_hi','ref','n':[array per level],
     'steps','dx':[list per level],
     'levels':[{'nboxes','bounds':[[(lo,hi) per dim] per box],
                'indexes':[(lo tuple, hi tuple)],'files':[name],'offsets':[int],
                'mins':array(nboxes,nf),'maxs':array(nboxes,nf),
                'time','step','cell_path','dir','prefix','nghost'}]}
    """
    info = _read_header(path)
    nf = len(info['names'])
    for lv, level in enumerate(info['levels']):
        cell_dir, _, prefix = level['cell_path'].partition('/')
        level['dir'] = cell_dir
        level['prefix'] = prefix
        lh = _read_level_header(os.path.join(path, cell_dir, prefix + '_H'), info['ndims'])
        if lh['ncomp'] != nf:
            raise ValueError(f"level {lv}: {prefix}_H has {lh['ncomp']} components, Header {nf}")
        if lh['nboxes'] != level['nboxes']:
            raise ValueError(f"level {lv}: {prefix}_H has {lh['nboxes']} boxes, "
                             f"Header {level['nboxes']}")
        for key in ('indexes', 'types', 'files', 'offsets', 'mins', 'maxs', 'nghost', 'trailing'):
            level[key] = lh[key]
    return info


def _parse_fab_header(line, where):
    m = _FAB_RE.match(line)
    if m is None:
        raise ValueError(f"{where}: malformed FAB header {line[:120]!r}")
    lo, hi, typ = _ints(m.group(1)), _ints(m.group(2)), _ints(m.group(3))
    if not (len(lo) == len(hi) == len(typ)):
        raise ValueError(f"{where}: inconsistent dimensions in FAB header {line!r}")
    if any(h < l for l, h in zip(lo, hi)):
        raise ValueError(f"{where}: empty index range in FAB header {line!r}")
    return lo, hi, typ, int(m.group(4))


def read_box(path, info, lv, b):
    """
    Data of box `b` of level `lv` as an array (nx,ny[,nz],nf).  Seeks to the
    offset recorded in Cell_H, parses the FAB header and checks that its index
    range and component count agree with Cell_H / Header (AssertionError if
    not); ValueError if the header is malformed or the data is short.
    """
    level = info['levels'][lv]
    fpath = os.path.join(path, level['dir'], level['files'][b])
    with open(fpath, 'rb') as bf:
        bf.seek(level['offsets'][b])
        line = bf.readline(_MAX_HEADER)
        lo, hi, _, nc = _parse_fab_header(line, f"{fpath}@{level['offsets'][b]}")
        exp_lo, exp_hi = level['indexes'][b]
        assert (lo, hi) == (tuple(exp_lo), tuple(exp_hi)), \
            (f"level {lv} box {b}: FAB header range {lo}..{hi} differs from "
             f"Cell_H range {exp_lo}..{exp_hi}")
        assert nc == len(info['names']), \
            f"level {lv} box {b}: FAB header has {nc} components, Header {len(info['names'])}"
        shape = tuple(h - l + 1 for l, h in zip(lo, hi)) + (nc,)
        count = int(np.prod(shape, dtype=np.int64))
        raw = bf.read(count * 8)
    if len(raw) != count * 8:
        raise ValueError(f"{fpath}: box {b} of level {lv} needs {count * 8} bytes, "
                         f"{len(raw)} available")
    return np.frombuffer(raw, dtype='<f8').reshape(shape, order='F')


def scan_file(binpath):
    """
    Sequential scan of a binary file, FAB after FAB.
    Returns [(lo, hi, nc, header_offset, data_offset, nbytes)].
    ValueError if a header is malformed, the data of the last FAB is short or
    bytes are left over.
    """
    size = os.path.getsize(binpath)
    out = []
    with open(binpath, 'rb') as bf:
        pos = 0
        while pos < size:
            bf.seek(pos)
            line = bf.readline(_MAX_HEADER)
            lo, hi, _, nc = _parse_fab_header(line, f"{binpath}@{pos}")
            data_offset = pos + len(line)
            ncell = 1
            for l, h in zip(lo, hi):
                ncell *= (h - l + 1)
            nbytes = ncell * nc * 8
            if data_offset + nbytes > size:
                raise ValueError(f"{binpath}: FAB at {pos} needs {nbytes} data bytes, "
                                 f"only {size - data_offset} left")
            out.append((lo, hi, nc, pos, data_offset, nbytes))
            pos = data_offset + nbytes
    return out


def read_fab_at(binpath, offset):
    """(lo, hi, nc, array) of the FAB whose header starts at `offset`."""
    with open(binpath, 'rb') as bf:
        bf.seek(offset)
        line = bf.readline(_MAX_HEADER)
        lo, hi, _, nc = _parse_fab_header(line, f"{binpath}@{offset}")
        shape = tuple(h - l + 1 for l, h in zip(lo, hi)) + (nc,)
        count = int(np.prod(shape, dtype=np.int64))
        raw = bf.read(count * 8)
    if len(raw) != count * 8:
        raise ValueError(f"{binpath}: FAB at {offset} is short")
    return lo, hi, nc, np.frombuffer(raw, dtype='<f8').reshape(shape, order='F')


def check_consistency(path, info=None):
    """
    Cross checks between Header, Cell_H and the binaries; returns a list of
    human readable problems (empty list = consistent).
    """
    problems = []
    if info is None:
        info = read(path)
    nd, L = info['ndims'], info['L']
    for lv in range(L + 1):
        level = info['levels'][lv]
        dx = info['dx'][lv]
        for b in range(level['nboxes']):
            lo, hi = level['indexes'][b]
            for d in range(nd):
                elo = info['geo_lo'][d] + lo[d] * dx[d]
                ehi = info['geo_lo'][d] + (hi[d] + 1) * dx[d]
                blo, bhi = level['bounds'][b][d]
                tol = 1e-9 * max(abs(dx[d]), abs(elo), abs(ehi))
                if abs(blo - elo) > tol or abs(bhi - ehi) > tol:
                    problems.append(f"level {lv} box {b} dim {d}: bounds {blo},{bhi} "
                                    f"vs indices -> {elo},{ehi}")
            if any(l < 0 or h >= n for l, h, n in zip(lo, hi, info['n'][lv])):
                problems.append(f"level {lv} box {b} outside of the domain")
        by_file = {}
        for b, (fn, off) in enumerate(zip(level['files'], level['offsets'])):
            by_file.setdefault(fn, []).append((off, b))
        for fn, lst in by_file.items():
            fpath = os.path.join(path, level['dir'], fn)
            try:
                fabs = scan_file(fpath)
            except (ValueError, OSError) as e:
                problems.append(f"level {lv} file {fn}: {e}")
                continue
            on_disk = {f[3]: f for f in fabs}
            if len(fabs) != len(lst):
                problems.append(f"level {lv} file {fn}: {len(fabs)} FABs on disk, "
                                f"{len(lst)} referenced")
            for off, b in lst:
                if off not in on_disk:
                    problems.append(f"level {lv} box {b}: no FAB starts at offset {off} of {fn}")
                    continue
                flo, fhi, nc = on_disk[off][:3]
                if (flo, fhi) != tuple(level['indexes'][b]):
                    problems.append(f"level {lv} box {b}: FAB range {flo}..{fhi} vs "
                                    f"Cell_H {level['indexes'][b]}")
                if nc != len(info['names']):
                    problems.append(f"level {lv} box {b}: FAB has {nc} components")
    return problems


def covering_grid(path, comp, limit=None, with_level=False, info=None):
    """
    Uniform grid of shape n(limit) of one component (index or name) where the
    finest available level wins; coarser data is replicated (piecewise
    constant).  Cells covered by no box are NaN.  with_level=True also returns
    the integer array of the level each cell was taken from (-1 = uncovered).
    """
    if info is None:
        info = read(path)
    if isinstance(comp, str):
        comp = info['names'].index(comp)
    if limit is None:
        limit = info['L']
    if not 0 <= limit <= info['L']:
        raise ValueError(f"limit level {limit} not in 0..{info['L']}")
    nd = info['ndims']
    shape = tuple(int(v) for v in info['n'][limit])
    grid = np.full(shape, np.nan, dtype=np.float64)
    glevel = np.full(shape, -1, dtype=np.int64)
    for lv in range(limit + 1):
        fac = 2 ** (limit - lv)
        for b in range(info['levels'][lv]['nboxes']):
            lo, hi = info['levels'][lv]['indexes'][b]
            arr = read_box(path, info, lv, b)[..., comp]
            for d in range(nd):
                arr = np.repeat(arr, fac, axis=d)
            sl = tuple(slice(l * fac, (h + 1) * fac) for l, h in zip(lo, hi))
            grid[sl] = arr
            glevel[sl] = lv
    if with_level:
        return grid, glevel
    return grid
