"""
Self-test of the replay generator and of the oracle reader.

    /verif/.venv/bin/python /verif/replay/test_gen.py

Generates several plotfiles (and one checkpoint) in a temporary directory
(removed afterwards), reads them back with oracle.py and opens them with the
real library (PlotfileCooker / Taster / CheckpointReader / chk2plt).
"""
import os
import sys
import io
import json
import shutil
import tempfile
import contextlib
import traceback
import filecmp
import numpy as np

sys.path.insert(0, os.path.dirname(os.path.abspath(__file__)))
import gen      # noqa: E402
import oracle   # noqa: E402


def bits(a):
    return np.ascontiguousarray(a, dtype=np.float64).view(np.uint64)


def same_bits(a, b):
    return a.shape == b.shape and np.array_equal(bits(a), bits(b))


@contextlib.contextmanager
def quiet():
    """Swallow stdout/stderr chatter (tqdm bars, Taster messages)."""
    out, err = io.StringIO(), io.StringIO()
    with contextlib.redirect_stdout(out), contextlib.redirect_stderr(err):
        yield out


def taste(path, **kw):
    from amr_kitchen.taste.taste import Taster
    with quiet() as out:
        t = Taster(path, nofail=True, verbose=0, **kw)
    return bool(t), out.getvalue()


def brute_covering(pf, comp, limit):
    """Reference covering grid computed from the in-memory PF only."""
    grid = np.full(pf.n(limit), np.nan)
    glevel = np.full(pf.n(limit), -1, dtype=np.int64)
    for lv in range(limit + 1):
        fac = 2 ** (limit - lv)
        for b, (lo, hi) in enumerate(pf.levels[lv]):
            for idx in np.ndindex(*pf.box_shape(lv, b)):
                sl = tuple(slice((l + i) * fac, (l + i + 1) * fac) for l, i in zip(lo, idx))
                grid[sl] = pf.data[lv][b][idx + (comp,)]
                glevel[sl] = lv
    return grid, glevel


def check_against_oracle(path, pf):
    """Everything oracle.read / read_box / scan_file sees must equal the PF."""
    info = oracle.read(path)
    assert info['version'] == 'HyperCLaw-V1.1'
    assert info['ndims'] == pf.ndims
    assert info['names'] == pf.names
    assert info['time'] == pf.time
    assert info['L'] == pf.L
    assert info['geo_lo'] == pf.geo_lo and info['geo_hi'] == pf.geo_hi
    assert info['ref'] == [2] * (pf.L + pf.ref_line_extra)
    assert info['steps'] == pf.steps
    assert info['header_trailing'] == []
    assert len(info['levels']) == pf.L + 1
    for lv in range(pf.L + 1):
        level = info['levels'][lv]
        assert list(info['n'][lv]) == pf.n(lv)
        assert info['dx'][lv] == pf.dx(lv)
        assert level['nboxes'] == pf.nboxes(lv)
        assert level['time'] == pf.time and level['step'] == pf.steps[lv]
        assert level['cell_path'] == f"Level_{lv}/Cell"
        assert level['files'] == pf.files[lv]
        assert level['offsets'] == pf.offsets[lv]
        assert level['trailing'] == []
        for b in range(pf.nboxes(lv)):
            assert level['indexes'][b] == pf.levels[lv][b]
            assert level['bounds'][b] == pf.box_bounds(lv, b)
            arr = oracle.read_box(path, info, lv, b)
            assert same_bits(arr, pf.data[lv][b]), f"data of box {b} level {lv}"
            axes = tuple(range(pf.ndims))
            with np.errstate(all='ignore'):
                assert same_bits(level['mins'][b], np.min(pf.data[lv][b], axis=axes))
                assert same_bits(level['maxs'][b], np.max(pf.data[lv][b], axis=axes))
        # sequential scan of each file: on-disk order is the prescribed one
        on_disk = sorted(f for f in os.listdir(os.path.join(path, f"Level_{lv}"))
                         if f != 'Cell_H')
        assert on_disk == sorted(pf.order[lv]), "set of binary files"
        for fn, ids in pf.order[lv].items():
            fabs = oracle.scan_file(os.path.join(path, f"Level_{lv}", fn))
            assert len(fabs) == len(ids)
            for (lo, hi, nc, hoff, doff, nbytes), b in zip(fabs, ids):
                assert (lo, hi) == pf.levels[lv][b] and nc == pf.nf
                assert hoff == pf.offsets[lv][b]
                assert nbytes == 8 * pf.data[lv][b].size
    assert oracle.check_consistency(path, info) == []
    return info


def check_covering(path, pf, info):
    for limit in range(pf.L + 1):
        comp = limit % pf.nf
        grid, glevel = oracle.covering_grid(path, comp, limit=limit, with_level=True, info=info)
        ref, reflv = brute_covering(pf, comp, limit)
        assert same_bits(grid, ref) and np.array_equal(glevel, reflv)
        assert (glevel >= 0).all(), "level 0 tiles the domain so nothing is uncovered"
    by_name = oracle.covering_grid(path, pf.names[0])
    assert same_bits(by_name, oracle.covering_grid(path, 0, limit=pf.L))


def check_real_library(path, pf, nsample=6, seed=0):
    """Taster is truthy and PlotfileCooker returns the generated data."""
    from amr_kitchen import PlotfileCooker
    ok, msg = taste(path)
    assert ok, "Taster rejected a generated plotfile:\n" + msg
    ok, msg = taste(path, boxes_coordinates=True)
    assert ok, "Taster(boxes_coordinates=True) rejected a generated plotfile:\n" + msg
    pck = PlotfileCooker(path, maxmins=True)
    assert pck.ndims == pf.ndims and pck.max_level == pf.L
    assert list(pck.fields) == pf.names
    assert pck.time == pf.time
    assert pck.geo_low == pf.geo_lo and pck.geo_high == pf.geo_hi
    assert pck.step_numbers == pf.steps
    rng = np.random.default_rng(seed)
    nread = 0
    for lv in range(pf.L + 1):
        assert list(pck.grid_sizes[lv]) == pf.n(lv)
        assert pck.dx[lv] == pf.dx(lv)
        assert len(pck.boxes[lv]) == pf.nboxes(lv)
        assert pck.cells[lv]['offsets'] == pf.offsets[lv]
        assert [os.path.basename(f) for f in pck.cells[lv]['files']] == pf.files[lv]
        for b in range(pf.nboxes(lv)):
            assert [tuple(v) for v in pck.boxes[lv][b]] == pf.box_bounds(lv, b)
            lo, hi = pck.cells[lv]['indexes'][b]
            assert (tuple(int(v) for v in lo), tuple(int(v) for v in hi)) == pf.levels[lv][b]
        nb = pf.nboxes(lv)
        picks = sorted(set([0, nb - 1] + [int(i) for i in rng.integers(nb, size=nsample)]))
        for b in picks:
            for c in sorted({0, pf.nf - 1}):
                got = pck[c][lv][b]
                assert same_bits(got, pf.data[lv][b][..., c]), \
                    f"PlotfileCooker[{c}][{lv}][{b}] differs from the generated data"
                nread += 1
            got = pck[pf.names[0]][lv][b]
            assert same_bits(got, pf.data[lv][b][..., 0])
            # all fields through an index list
            got = pck[list(range(pf.nf))][lv][b]
            assert same_bits(got, pf.data[lv][b])
    return nread


def tree_equal(a, b):
    cmp = filecmp.dircmp(a, b)
    stack = [cmp]
    while stack:
        c = stack.pop()
        if c.left_only or c.right_only or c.funny_files:
            return False
        _, mismatch, errors = filecmp.cmpfiles(c.left, c.right, c.common_files, shallow=False)
        if mismatch or errors:
            return False
        stack.extend(c.subdirs.values())
    return True


# ----------------------------------------------------------------------------
# test cases
# ----------------------------------------------------------------------------

RESULTS = []


def case(fun):
    def run(tmp):
        try:
            note = fun(tmp)
            RESULTS.append((fun.__name__, True, note or ''))
            print(f"[ ok ] {fun.__name__}: {note or ''}", flush=True)
        except Exception:
            RESULTS.append((fun.__name__, False, traceback.format_exc()))
            print(f"[FAIL] {fun.__name__}\n{traceback.format_exc()}", flush=True)
    run.__name__ = fun.__name__
    return run


def full_check(path, pf):
    pf.check()
    out = gen.write_plotfile(path, pf)
    assert out is pf and pf.offsets is not None
    info = check_against_oracle(path, pf)
    check_covering(path, pf, info)
    nread = check_real_library(path, pf)
    nb = [pf.nboxes(lv) for lv in range(pf.L + 1)]
    nfl = [len(pf.order[lv]) for lv in range(pf.L + 1)]
    return f"{pf.ndims}D L={pf.L} boxes={nb} files={nfl} nf={pf.nf}; {nread} box reads via PlotfileCooker"


@case
def t01_default_3d_shuffled_coded(tmp):
    pf = gen.make_pf()
    # coded payload is unique and decodable
    allv = np.concatenate([a.ravel() for lv in pf.data for a in lv])
    assert len(np.unique(allv)) == allv.size and (allv != 0).all()
    lv, b = pf.L, pf.nboxes(pf.L) - 1
    v = pf.data[lv][b][(1,) * pf.ndims + (2,)]
    dlv, db, dc, flat = gen.decode_coded(v)
    assert (dlv, db, dc) == (lv, b, 2)
    assert pf.locate(lv, b, flat) == tuple(l + 1 for l in pf.levels[lv][b][0])
    # shuffled layout really is non monotone somewhere
    assert any(ids != sorted(ids) for o in pf.order for ids in o.values())
    json.loads(pf.to_json())
    return full_check(os.path.join(tmp, 'plt01'), pf)


@case
def t02_3levels_mixed_boxes_affine_monotone(tmp):
    pf = gen.make_pf(ndims=3, names=('temp', 'density', 'Y(H2)', 'Y(O2)'), n0=(32, 16, 16),
                     geo_lo=(-0.016, 0.001, 0.25), dx0=(0.002, 0.002, 0.004), time=1.3924182125972017e-08,
                     nlevels=3, box=16, box_sizes=(8, 16), nfiles=3, layout='monotone',
                     payload='affine', seed=7, steps=[20, 20, 20], ref_line_extra=1)
    sizes = {s for lvl in pf.levels for bx in lvl for s in gen.box_shape(bx)}
    assert {8, 16} <= sizes, f"mixed box sizes expected, got {sizes}"
    assert all(ids == sorted(ids) for o in pf.order for ids in o.values())
    # affine payload does not depend on the level: value at cell centre
    lv, b = 2, 3
    X = np.meshgrid(*pf.centres(lv, b), indexing='ij')
    assert np.array_equal(pf.data[lv][b][..., 1], 2 + 2 * X[0] + 3 * X[1] + 5 * X[2])
    return full_check(os.path.join(tmp, 'plt02'), pf)


@case
def t03_2d_random(tmp):
    pf = gen.make_pf(ndims=2, names=('temp', 'mag_vort'), n0=(32, 24), geo_lo=(0., 0.),
                     dx0=(0.00125, 0.00125), time=0.49947225144556617, nlevels=3, box=8,
                     nfiles=4, layout='shuffled', payload='random', seed=3, steps=[70100] * 3)
    return full_check(os.path.join(tmp, 'plt03'), pf)


@case
def t04_single_level_one_file(tmp):
    pf = gen.make_pf(names=('only',), n0=(8, 16, 8), nlevels=1, nfiles=1, layout='roundrobin',
                     payload=lambda lv, b, lo, hi, X, Y, Z, c: X * 100 + Y * 10 + Z, seed=1)
    assert pf.L == 0 and gen.header_lines(pf)[8 + pf.nf - 1] == ''
    return full_check(os.path.join(tmp, 'plt04'), pf)


@case
def t05_full_refinement_nonpartial(tmp):
    pf = gen.make_pf(n0=(8, 8, 8), nlevels=3, box=8, partial=False, nfiles=5, seed=11)
    assert [pf.nboxes(lv) for lv in range(3)] == [1, 8, 64]
    return full_check(os.path.join(tmp, 'plt05'), pf)


@case
def t06_special_values(tmp):
    denorm = 5e-324
    special = [(0, 0, 0, np.nan), (0, 1, 17, np.inf), (1, 0, 5, -np.inf),
               (1, 2, 100, denorm), (1, 2, 101, -0.0), (1, 1, 8 * 8 * 8 * 3 - 1, 1.7976931348623157e308)]
    pf = gen.make_pf(seed=5, payload='random', special=special)
    for lv, b, fi, val in special:
        got = pf.data[lv][b].flatten(order='F')[fi]
        assert same_bits(np.array([got]), np.array([val]))
    path = os.path.join(tmp, 'plt06')
    note = full_check(path, pf)
    # the poked element sits at byte header + 8*flat_index in the file
    lv, b, fi, val = special[3]
    fn = pf.files[lv][b]
    fabs = oracle.scan_file(os.path.join(path, f"Level_{lv}", fn))
    doff = [f[4] for f in fabs if f[3] == pf.offsets[lv][b]][0]
    with open(os.path.join(path, f"Level_{lv}", fn), 'rb') as f:
        f.seek(doff + 8 * fi)
        assert f.read(8) == np.float64(val).tobytes()
    return note + "; NaN/inf/denormal/-0.0 bit exact"


@case
def t07_explicit_layout_spec_roundtrip_determinism(tmp):
    levels = [[((0, 0, 0), (7, 7, 7)), ((8, 0, 0), (15, 7, 7))],
              [((4, 2, 2), (11, 9, 5)), ((20, 0, 0), (23, 3, 15)), ((12, 2, 2), (15, 9, 5))]]
    layout = [(['Cell_D_00003', 'Cell_D_00003'], {'Cell_D_00003': [1, 0]}),
              (['Cell_D_00000', 'Cell_D_00007', 'Cell_D_00000'], None)]
    pf = gen.make_pf(n0=(16, 8, 8), levels=levels, layout=layout, names=('u', 'v'), steps=[3, 6])
    assert pf.order[1] == {'Cell_D_00000': [0, 2], 'Cell_D_00007': [1]}
    p1 = os.path.join(tmp, 'plt07a')
    note = full_check(p1, pf)
    assert pf.offsets[0][1] == 0 and pf.offsets[0][0] > 0
    # spec round trip and determinism: byte identical directories
    pf2 = gen.pf_from_spec(json.loads(pf.to_json()))
    p2 = os.path.join(tmp, 'plt07b')
    gen.write_plotfile(p2, pf2)
    assert tree_equal(p1, p2)
    a, b = os.path.join(tmp, 'plt07c'), os.path.join(tmp, 'plt07d')
    gen.write_plotfile(a, gen.make_pf(seed=42, nlevels=3, payload='random'))
    gen.write_plotfile(b, gen.make_pf(seed=42, nlevels=3, payload='random'))
    assert tree_equal(a, b)
    c = os.path.join(tmp, 'plt07e')
    gen.write_plotfile(c, gen.make_pf(seed=43, nlevels=3, payload='random'))
    assert not tree_equal(a, c)
    try:
        gen.write_plotfile(a, pf)
        raise AssertionError("write_plotfile must refuse an existing directory")
    except FileExistsError:
        pass
    # check() catches overlapping / non nested / out of domain hierarchies
    for bad in ([[((0, 0, 0), (7, 7, 7)), ((7, 0, 0), (15, 7, 7))]],
                [[((0, 0, 0), (15, 7, 7))], [((0, 0, 0), (7, 7, 16))]]):
        try:
            gen.make_pf(n0=(16, 8, 8), levels=bad).check()
            raise RuntimeError("check() accepted a bad hierarchy")
        except AssertionError:
            pass
    return note + "; spec round trip + same seed => byte identical trees"


@case
def t08_real_asset_readable_by_oracle(tmp):
    """The oracle also parses the genuine example plotfile of the repository."""
    path = '/repo/test_assets/example_plt_3d'
    info = oracle.read(path)
    assert info['L'] == 2 and len(info['names']) == 38
    assert [l['nboxes'] for l in info['levels']] == [1, 8, 64]
    assert oracle.check_consistency(path, info) == []
    grid, glv = oracle.covering_grid(path, 'temp', with_level=True, info=info)
    assert grid.shape == (32, 32, 32) and (glv == 2).all()
    # generator reproduces the asset's text files byte for byte (modulo float
    # formatting: the asset uses %.17g, we use repr) -> compare parsed content
    # of a regenerated copy instead
    pf = gen.PF(3, info['names'], info['time'], info['geo_lo'], info['dx'][0], list(info['n'][0]),
                [l['indexes'] for l in info['levels']], [l['files'] for l in info['levels']],
                [{} for _ in info['levels']],
                [[oracle.read_box(path, info, lv, b) for b in range(l['nboxes'])]
                 for lv, l in enumerate(info['levels'])],
                steps=info['steps'], ref_line_extra=len(info['ref']) - info['L'])
    for lv, l in enumerate(info['levels']):
        for off, b in sorted(zip(l['offsets'], range(l['nboxes']))):
            pf.order[lv].setdefault(l['files'][b], []).append(b)
    copy = os.path.join(tmp, 'plt08')
    gen.write_plotfile(copy, pf)
    for lv, l in enumerate(info['levels']):
        assert pf.offsets[lv] == l['offsets'], "regenerated offsets equal the asset's"
        for fn in pf.order[lv]:
            assert filecmp.cmp(os.path.join(path, f"Level_{lv}", fn),
                               os.path.join(copy, f"Level_{lv}", fn), shallow=False)
        with open(os.path.join(path, f"Level_{lv}", 'Cell_H')) as f1, \
                open(os.path.join(copy, f"Level_{lv}", 'Cell_H')) as f2:
            assert f1.read() == f2.read(), f"Cell_H of level {lv} differs from the asset"
    h1 = open(os.path.join(path, 'Header')).read().split('\n')
    h2 = open(os.path.join(copy, 'Header')).read().split('\n')
    assert len(h1) == len(h2)
    ndiff = 0
    for a, b in zip(h1, h2):
        if a != b:
            ndiff += 1
            assert [float(t) for t in a.split()] == [float(t) for t in b.split()], (a, b)
            assert a.endswith(' ') == b.endswith(' '), (a, b)
    return (f"asset regenerated: binaries and Cell_H byte identical, Header identical up to "
            f"float formatting ({ndiff} of {len(h1)} lines)")


@case
def t09_corruptions(tmp):
    base = os.path.join(tmp, 'plt09_base')
    pf = gen.write_plotfile(base, gen.make_pf(seed=9, nfiles=2, layout='monotone'))
    lv, b = 1, 1
    fn = pf.files[lv][b]
    rel = f"Level_{lv}/{fn}"
    verdicts = {}

    def fresh(name):
        dst = os.path.join(tmp, name)
        shutil.copytree(base, dst)
        return dst

    def problems(p):
        try:
            return oracle.check_consistency(p)
        except (ValueError, OSError) as e:
            return [str(e)]

    def expect_scan_error(p):
        try:
            oracle.scan_file(os.path.join(p, rel))
        except ValueError:
            return
        raise AssertionError("scan_file accepted a corrupted file")

    for kind, site in [('truncate', dict(file=rel, nbytes=8)),
                       ('extend', dict(file=rel, nbytes=3)),
                       ('insert', dict(file=rel, pos=pf.offsets[lv][b] + 200, bytes=b'\x01' * 8)),
                       ('remove', dict(file=rel, pos=pf.offsets[lv][b] + 200, n=16))]:
        p = fresh('plt09_' + kind)
        size0 = os.path.getsize(os.path.join(p, rel))
        r = gen.corrupt(p, kind, **site)
        assert r['old_size'] == size0 and os.path.getsize(os.path.join(p, rel)) == r['new_size']
        assert r['new_size'] != size0
        expect_scan_error(p)
        assert problems(p)
        verdicts[kind] = taste(p)[0]

    p = fresh('plt09_delete')
    gen.corrupt(p, 'delete_file', file=rel)
    assert not os.path.exists(os.path.join(p, rel)) and problems(p)
    verdicts['delete_file'] = taste(p)[0]

    # wrong index range in the binary header only (same length -> nothing else moves)
    p = fresh('plt09_fabhdr')
    lo, hi = pf.levels[lv][b]
    new = gen.fab_header(lo, tuple(h + 1 for h in hi), pf.nf).decode().rstrip('\n')
    r = gen.corrupt(p, 'edit_fab_header', level=lv, box=b, newtext=new)
    assert r['old'] == gen.fab_header(lo, hi, pf.nf).decode().rstrip('\n')
    info = oracle.read(p)
    try:
        oracle.read_box(p, info, lv, b)
        raise RuntimeError("read_box accepted a FAB header with the wrong range")
    except AssertionError:
        pass
    assert problems(p)
    verdicts['edit_fab_header'] = taste(p)[0]

    # longer header with the right content but a different length: offsets fixed
    p = fresh('plt09_fabhdr_len')
    first = pf.order[lv][fn][0]
    lo, hi = pf.levels[lv][first]
    new = gen.fab_header(lo, hi, pf.nf).decode().rstrip('\n') + '   '
    r = gen.corrupt(p, 'edit_fab_header', level=lv, box=first, newtext=new)
    assert r['delta'] == 3 and len(r['shifted_lines']) == len(pf.order[lv][fn]) - 1
    info = oracle.read(p)
    for other in pf.order[lv][fn][1:]:
        assert info['levels'][lv]['offsets'][other] == pf.offsets[lv][other] + 3
        assert same_bits(oracle.read_box(p, info, lv, other), pf.data[lv][other])

    # Cell_H: change the index range of a box (line 5 + b)
    p = fresh('plt09_cellh')
    lo, hi = pf.levels[lv][b]
    r = gen.corrupt(p, 'edit_cellh_line', level=lv, lineno=5 + b,
                    newtext=gen.box_str(lo, tuple(h - 1 for h in hi)))
    assert r['old'] == gen.box_str(lo, hi)
    info = oracle.read(p)
    assert info['levels'][lv]['indexes'][b] == (lo, tuple(h - 1 for h in hi))
    try:
        oracle.read_box(p, info, lv, b)
        raise RuntimeError("read_box accepted mismatching ranges")
    except AssertionError:
        pass
    verdicts['edit_cellh_line'] = taste(p)[0]

    # Header: move the physical bound of a box
    p = fresh('plt09_header')
    lines = gen.header_lines(pf)
    target = [i for i, l in enumerate(lines) if l == "1 %d %r" % (pf.nboxes(1), pf.time)][0] + 2
    r = gen.corrupt(p, 'edit_header_line', lineno=target, newtext="0.25 8.5")
    assert r['old'] == lines[target]
    assert oracle.read(p)['levels'][1]['bounds'][0][0] == (0.25, 8.5)
    assert problems(p)
    verdicts['edit_header_line'] = taste(p, boxes_coordinates=True)[0]
    # the untouched base is still fine
    assert problems(base) == [] and taste(base)[0]
    return ("oracle detects all 8 corruption kinds; Taster verdicts on the corrupted copies "
            f"(informational, True = accepted): {verdicts}")


@case
def t10_checkpoint(tmp):
    from amr_kitchen.chk2plt import CheckpointReader, chk2plt
    notes = []
    for ghost, payload, seed in [(3, 'coded', 0), (1, 'massfrac', 4), (2, 'random', 8)]:
        ck = gen.make_ck(n0=(16, 8, 8), geo_lo=(0., 0., 0.), dx0=(0.5, 0.5, 0.5), time=0.125 + 1e-3 * seed,
                         step=5, nspecies=3, ghost=ghost, nlevels=2, box=8, nfiles=3,
                         payload=payload, seed=seed)
        path = os.path.join(tmp, f"chk{seed:05d}")
        assert gen.write_checkpoint(path, ck) is ck
        # independent layouts per subset
        assert len({json.dumps(ck.spec['order'][s]) for s in gen.CHK_SUBSETS}) > 1
        # every binary is a clean FAB sequence, headers carry ghosts / nodality
        for lv in range(ck.L + 1):
            for s in gen.CHK_SUBSETS:
                for fn, ids in ck.order[s][lv].items():
                    fabs = oracle.scan_file(os.path.join(path, f"Level_{lv}", fn))
                    assert [(f[0], f[1]) for f in fabs] == [ck.disk_box(s, lv, b) for b in ids]
                    assert all(f[2] == ck.ncomp[s] for f in fabs)
                    assert [f[3] for f in fabs] == [ck.offsets[s][lv][b] for b in ids]
        with open(os.path.join(path, 'Level_0', 'state_H')) as f:
            assert f.read().split('\n')[:4] == ['1', '1', str(7 + ck.nspecies), str(ghost)]
        # the real reader
        rd = CheckpointReader(path, maxmins=True)
        assert rd.max_level == ck.L and rd.step_number == ck.step and rd.time == ck.time
        assert list(rd.geo_lo) == ck.geo_lo and list(rd.geo_hi) == ck.geo_hi
        assert rd.pressure == ck.pressure and len(rd.typvals) == len(ck.typvals)
        for s in gen.CHK_SUBSETS:
            assert rd.nfields[s] == ck.ncomp[s]
        for lv in range(ck.L + 1):
            assert list(rd.grid_sizes[lv]) == ck.n(lv)
            assert np.allclose(rd.dx[lv], ck.dx(lv), rtol=1e-14, atol=0)
            assert [(tuple(int(v) for v in i[0]), tuple(int(v) for v in i[1]))
                    for i in rd.boxes[lv]['indices']] == ck.levels[lv]
            for s in gen.CHK_SUBSETS:
                assert list(rd.boxes[lv][f'{s}_paths']) == ck.files[s][lv]
                assert list(rd.boxes[lv][f'{s}_offsets']) == ck.offsets[s][lv]
                for b in range(ck.nboxes(lv)):
                    got = rd.read_box(b, s, lv)
                    assert same_bits(np.asarray(got), ck.data[s][lv][b]), (s, lv, b)
                    assert same_bits(rd.boxes[lv][f'{s}_mins'][b],
                                     np.min(ck.data[s][lv][b], axis=(0, 1, 2)))
                    assert same_bits(rd.boxes[lv][f'{s}_maxs'][b],
                                     np.max(ck.data[s][lv][b], axis=(0, 1, 2)))
        if payload == 'coded':
            st = ck.stored['state'][1][0]
            g = ck.ghost
            assert (ck.data['state'][1][0] > 0).all() and (st[:g] < 0).all() and (st[:, :, -g:] < 0).all()
            tag, lv_, b_, c_, flat = gen.decode_coded(ck.data['gradp'][1][2][3, 2, 1, 1], with_tag=True)
            assert (tag, lv_, b_, c_) == (2, 1, 2, 1)
        # conversion with the real tool, compared through the oracle
        plt = os.path.join(tmp, f"plt_from_chk{seed:05d}")
        with quiet():
            chk2plt(path, species=ck.species, gradp=True, species_reactions=False,
                    floor_massfracs=False, pltdir=plt)
        info = oracle.read(plt)
        assert info['names'] == ck.state_names + ['gradpx', 'gradpy', 'gradpz']
        assert info['L'] == ck.L and info['time'] == ck.time
        for lv in range(ck.L + 1):
            assert info['levels'][lv]['indexes'] == ck.levels[lv]
            for b in range(ck.nboxes(lv)):
                exp = np.concatenate([ck.data['state'][lv][b], ck.data['gradp'][lv][b]], axis=-1)
                assert same_bits(oracle.read_box(plt, info, lv, b), exp), (lv, b)
        assert oracle.check_consistency(plt, info) == []
        notes.append(f"g={ghost}/{payload}: boxes={[ck.nboxes(l) for l in range(ck.L + 1)]}")
    # integer valued time is refused (the reader would mis-parse it)
    try:
        gen.write_checkpoint(os.path.join(tmp, 'chk_bad'), gen.make_ck(time=1.0))
        raise RuntimeError("integer time accepted")
    except ValueError:
        pass
    ck = gen.make_ck(time=1.0, pre_time_int=7, nlevels=1)
    gen.write_checkpoint(os.path.join(tmp, 'chk_int'), ck)
    assert CheckpointReader(os.path.join(tmp, 'chk_int')).time == 1.0
    return ("CheckpointReader.read_box == generated interior for all 5 subsets; "
            "chk2plt output == state+gradp via oracle; " + ', '.join(notes))


def main():
    tmp = tempfile.mkdtemp(prefix='replay_selftest_')
    try:
        for t in [t01_default_3d_shuffled_coded, t02_3levels_mixed_boxes_affine_monotone,
                  t03_2d_random, t04_single_level_one_file, t05_full_refinement_nonpartial,
                  t06_special_values, t07_explicit_layout_spec_roundtrip_determinism,
                  t08_real_asset_readable_by_oracle, t09_corruptions, t10_checkpoint]:
            t(tmp)
    finally:
        shutil.rmtree(tmp, ignore_errors=True)
    nfail = sum(1 for _, ok, _ in RESULTS if not ok)
    print(f"\nSELFTEST {'PASSED' if nfail == 0 else 'FAILED'}: "
          f"{len(RESULTS) - nfail}/{len(RESULTS)} cases ok; tempdir removed: {not os.path.exists(tmp)}",
          flush=True)
    return 1 if nfail else 0


if __name__ == '__main__':
    rc = main()
    sys.stdout.flush()
    sys.exit(rc)
