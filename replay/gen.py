"""
Synthetic AMReX plotfile and PeleLMeX checkpoint generator (harness side).

Self contained: python 3.12 + numpy only, nothing imported from `amr_kitchen`.

On-disk conventions (learnt from /repo/test_assets/example_plt_3d, example_plt_2d
and example_chk_3d):

  plotfile/Header, plotfile/Level_k/Cell_H, plotfile/Level_k/Cell_D_xxxxx
  checkpoint/Header, checkpoint/Level_k/{state,gradp,I_R,divU,p}_{H,D_xxxxx}

Every binary file is a concatenation of FABs; a FAB is one ASCII header line

  FAB ((8, (64 11 52 0 1 12 0 1023)),(8, (8 7 6 5 4 3 2 1)))((lo) (hi) (type)) nc\\n

followed by prod(shape)*nc little-endian float64 in Fortran order (x fastest,
component slowest).

Conventions used by this module
  * boxes are (lo, hi) tuples of tuples of python ints, inclusive global index
    ranges at their own level;
  * line numbers handed to `corrupt` are 0-based;
  * file names handed to `corrupt` are relative to the plotfile directory
    (e.g. 'Level_1/Cell_D_00001').
"""
import os
import itertools
import numpy as np

VERSION = "HyperCLaw-V1.1"
FAB_PREFIX = "FAB ((8, (64 11 52 0 1 12 0 1023)),(8, (8 7 6 5 4 3 2 1)))"
CHK_SUBSETS = ('state', 'gradp', 'I_R', 'divU', 'p')

# ----------------------------------------------------------------------------
# small text helpers
# ----------------------------------------------------------------------------


def _tup(t):
    return '(' + ','.join(str(int(v)) for v in t) + ')'


def box_str(lo, hi, typ=None):
    """'((lo0,lo1,lo2) (hi0,hi1,hi2) (0,0,0))'"""
    if typ is None:
        typ = (0,) * len(lo)
    return f"({_tup(lo)} {_tup(hi)} {_tup(typ)})"


def fab_header(lo, hi, nc, typ=None):
    """ASCII FAB header line (bytes, newline included)."""
    return (FAB_PREFIX + box_str(lo, hi, typ) + f" {int(nc)}\n").encode('ascii')


def fab_bytes(arr):
    """Payload bytes of an array of shape (nx,ny[,nz],nc)."""
    return np.asarray(arr, dtype='<f8').flatten(order='F').tobytes()


def _floats_line(vals):
    """repr() of each float followed by ONE blank each (so a trailing blank)."""
    return ''.join(repr(float(v)) + ' ' for v in vals)


def _as_box(b):
    lo, hi = b
    return (tuple(int(v) for v in lo), tuple(int(v) for v in hi))


def box_shape(box):
    lo, hi = box
    return tuple(h - l + 1 for l, h in zip(lo, hi))


# ----------------------------------------------------------------------------
# hierarchy generation
# ----------------------------------------------------------------------------


def chop(lo, hi, size):
    """
    Tile the index region [lo, hi] (inclusive) with boxes of edge `size`
    (clipped at hi).  Boxes are returned with x varying fastest.
    """
    nd = len(lo)
    ranges = []
    for d in range(nd):
        ranges.append([(s, min(s + size - 1, hi[d]))
                       for s in range(lo[d], hi[d] + 1, size)])
    out = []
    # itertools.product varies the LAST factor fastest -> feed reversed dims
    for combo in itertools.product(*ranges[::-1]):
        combo = combo[::-1]
        out.append((tuple(c[0] for c in combo), tuple(c[1] for c in combo)))
    return out


def auto_levels(ndims, n0, nlevels, box, seed, partial=True, box_sizes=None):
    """
    Generate a properly nested box hierarchy (refinement ratio 2).

    Level 0 tiles the whole domain [0, n0-1].  Each finer level refines a
    sub-region of (a subset of) the boxes of the previous level, so every fine
    box is covered by ONE coarse box; boxes of a level are pairwise disjoint
    and inside the domain.

    box       : box edge (cells)
    box_sizes : optional collection of edges (each must divide the largest),
                e.g. (8, 16) -> blocks of 16 cells are either kept whole or
                split in 8-cell boxes (both sizes are present whenever a level
                has at least two blocks)
    partial   : True  -> about half of the parent boxes are refined, some of
                         them only on one half along a random axis
                False -> every level covers the whole domain
    Returns list (per level) of list of (lo, hi).
    """
    ndims = int(ndims)
    n0 = tuple(int(v) for v in n0)[:ndims]
    assert len(n0) == ndims and all(v > 0 for v in n0)
    rng = np.random.default_rng([int(seed), 101])
    sizes = sorted(set(int(s) for s in box_sizes)) if box_sizes else [int(box)]
    big = max(sizes)
    for s in sizes:
        assert s > 0 and big % s == 0, "box sizes must divide the largest one"

    def tile(lo, hi):
        blocks = chop(lo, hi, big)
        choice = [sizes[i % len(sizes)] for i in range(len(blocks))]
        if len(sizes) > 1:
            rng.shuffle(choice)
        out = []
        for (blo, bhi), s in zip(blocks, choice):
            out.extend(chop(blo, bhi, s))
        return out

    levels = [tile((0,) * ndims, tuple(n - 1 for n in n0))]
    for _ in range(1, int(nlevels)):
        parents = levels[-1]
        nb = len(parents)
        if partial:
            k = max(1, nb // 2)
            chosen = sorted(int(i) for i in rng.choice(nb, size=k, replace=False))
        else:
            chosen = list(range(nb))
        fine = []
        for p in chosen:
            lo, hi = [list(v) for v in parents[p]]
            if partial and (nb == 1 or rng.random() < 0.5):
                d = int(rng.integers(ndims))
                ext = hi[d] - lo[d] + 1
                if ext >= 2:
                    half = ext // 2
                    if rng.random() < 0.5:
                        hi[d] = lo[d] + half - 1
                    else:
                        lo[d] = lo[d] + half
            flo = tuple(2 * v for v in lo)
            fhi = tuple(2 * v + 1 for v in hi)
            fine.extend(tile(flo, fhi))
        levels.append(fine)
    return levels


# ----------------------------------------------------------------------------
# file layout
# ----------------------------------------------------------------------------


def make_layout(nboxes, nfiles, layout, rng, prefix='Cell'):
    """
    Distribute `nboxes` boxes over at most `nfiles` binary files.
    Returns (files, order): files[b] = file name of box b,
    order[file] = box ids in ON-DISK order.

    'monotone'   : contiguous blocks of boxes per file, on-disk order == box order
    'roundrobin' : box b goes to file b % nfiles, on-disk order == box order
    'shuffled'   : random file per box, random on-disk order inside each file
    """
    nfiles = max(1, int(nfiles))
    name = lambda k: f"{prefix}_D_{k:05d}"
    if layout == 'monotone':
        blk = max(1, -(-nboxes // nfiles))
        fidx = [b // blk for b in range(nboxes)]
    elif layout == 'roundrobin':
        fidx = [b % nfiles for b in range(nboxes)]
    elif layout == 'shuffled':
        fidx = [int(v) for v in rng.integers(nfiles, size=nboxes)]
    else:
        raise ValueError(f"unknown layout {layout!r}")
    files = [name(k) for k in fidx]
    order = {}
    for b, fn in enumerate(files):
        order.setdefault(fn, []).append(b)
    if layout == 'shuffled':
        for fn in sorted(order):
            ids = order[fn]
            order[fn] = [ids[int(i)] for i in rng.permutation(len(ids))]
    return files, order


def _normalise_explicit_layout(entry, nboxes):
    files, order = entry
    files = [str(f) for f in files]
    assert len(files) == nboxes, "explicit layout: one file name per box"
    if order is None:
        order = {}
        for b, fn in enumerate(files):
            order.setdefault(fn, []).append(b)
    else:
        order = {str(k): [int(i) for i in v] for k, v in order.items()}
    return files, order


def _check_layout(files, order, nboxes):
    seen = []
    for fn, ids in order.items():
        for b in ids:
            assert files[b] == fn, f"box {b}: files says {files[b]}, order says {fn}"
            seen.append(b)
    assert sorted(seen) == list(range(nboxes)), "order must list every box exactly once"


# ----------------------------------------------------------------------------
# payloads
# ----------------------------------------------------------------------------

CODE_LV = 10 ** 12
CODE_BOX = 10 ** 8
CODE_COMP = 10 ** 6


def coded_value(lv, b, c, flat):
    """
    (lv+1)*1e12 + b*1e8 + c*1e6 + flat  -- an exactly representable integer,
    never 0, unique per (level, box, component, cell).  `flat` is the Fortran
    flat index of the cell inside its box (i + nx*(j + ny*k), local indices).
    """
    return float((lv + 1) * CODE_LV + b * CODE_BOX + c * CODE_COMP + flat)


def decode_coded(value, with_tag=False):
    """
    Inverse of coded_value -> (lv, b, c, flat).  Checkpoint codes carry an
    extra subset tag (index in CHK_SUBSETS + 1) and a sign (ghost cells are
    negative): with_tag=True -> (tag, lv, b, c, flat), tag 0 for plotfiles.
    """
    v = int(abs(value))
    assert float(v) == abs(float(value)), "not a coded value"
    top = v // CODE_LV
    out = (top % 10 - 1, v % CODE_LV // CODE_BOX,
           v % CODE_BOX // CODE_COMP, v % CODE_COMP)
    return (top // 10,) + out if with_tag else out


def _coded_block(lv, b, shape, nc, tag=0):
    ncell = int(np.prod(shape))
    assert ncell <= CODE_COMP, "coded payload: box too large (> 1e6 cells)"
    assert nc <= CODE_BOX // CODE_COMP, "coded payload: too many components"
    assert b < CODE_LV // CODE_BOX, "coded payload: too many boxes"
    assert lv + 1 < 10 and tag < 100, "coded payload: too many levels"
    flat = np.arange(ncell, dtype=np.float64).reshape(shape, order='F')
    out = np.empty(tuple(shape) + (nc,), dtype=np.float64)
    for c in range(nc):
        out[..., c] = coded_value(lv, b, c, 0) + tag * 10 * CODE_LV + flat
    return out


def poke(arr, flat_index, value):
    """
    Return a copy of `arr` (nx,ny[,nz],nc) whose element number `flat_index`
    of the ON-DISK (Fortran, component slowest) flattening is `value`.
    """
    flat = arr.flatten(order='F')
    flat[int(flat_index)] = value
    return flat.reshape(arr.shape, order='F')


# ----------------------------------------------------------------------------
# abstract plotfile
# ----------------------------------------------------------------------------


class PF:
    """In-memory abstract plotfile (plain attributes)."""

    def __init__(self, ndims, names, time, geo_lo, dx0, n0, levels,
                 files, order, data, steps=None, ref_line_extra=0):
        self.ndims = int(ndims)
        self.names = [str(n) for n in names]
        self.time = float(time)
        self.geo_lo = [float(v) for v in geo_lo]
        self.dx0 = [float(v) for v in dx0]
        self.n0 = [int(v) for v in n0]
        self.levels = [[_as_box(b) for b in lvl] for lvl in levels]
        self.files = [list(f) for f in files]
        self.order = [{k: list(v) for k, v in o.items()} for o in order]
        self.data = data
        self.offsets = None
        self.steps = [0] * len(self.levels) if steps is None else [int(s) for s in steps]
        self.ref_line_extra = int(ref_line_extra)
        self.version = VERSION       # free text chosen by the writing code (IAMR / PeleLM write NavierStokes-V1.1)

    # -- derived quantities ---------------------------------------------------
    @property
    def L(self):
        return len(self.levels) - 1

    @property
    def nf(self):
        return len(self.names)

    @property
    def geo_hi(self):
        return [lo + n * dx for lo, n, dx in zip(self.geo_lo, self.n0, self.dx0)]

    def dx(self, lv):
        return [d / 2 ** lv for d in self.dx0]

    def n(self, lv):
        return [m * 2 ** lv for m in self.n0]

    def nboxes(self, lv):
        return len(self.levels[lv])

    def box_shape(self, lv, b):
        return box_shape(self.levels[lv][b])

    def box_bounds(self, lv, b):
        """list per dim of (lo_phys, hi_phys) = geo_lo + idx*dx(lv)."""
        lo, hi = self.levels[lv][b]
        dx = self.dx(lv)
        return [(self.geo_lo[d] + lo[d] * dx[d],
                 self.geo_lo[d] + (hi[d] + 1) * dx[d]) for d in range(self.ndims)]

    def centres(self, lv, b):
        """list per dim of the 1D arrays of physical cell centres of a box."""
        lo, hi = self.levels[lv][b]
        dx = self.dx(lv)
        return [self.geo_lo[d] + (np.arange(lo[d], hi[d] + 1) + 0.5) * dx[d]
                for d in range(self.ndims)]

    def locate(self, lv, b, flat):
        """global index tuple of the cell with local Fortran flat index `flat`."""
        lo, _ = self.levels[lv][b]
        loc = np.unravel_index(int(flat), self.box_shape(lv, b), order='F')
        return tuple(int(l + i) for l, i in zip(lo, loc))

    def on_disk_position(self, lv, b):
        """(file name, rank of the box inside that file)."""
        fn = self.files[lv][b]
        return fn, self.order[lv][fn].index(b)

    @property
    def spec(self):
        """JSON-able description (everything but the data arrays)."""
        return {
            'ndims': self.ndims, 'names': list(self.names), 'time': self.time,
            'geo_lo': list(self.geo_lo), 'dx0': list(self.dx0), 'n0': list(self.n0),
            'levels': [[[list(lo), list(hi)] for lo, hi in lvl] for lvl in self.levels],
            'files': [list(f) for f in self.files],
            'order': [{k: list(v) for k, v in o.items()} for o in self.order],
            'offsets': None if self.offsets is None else [list(o) for o in self.offsets],
            'steps': list(self.steps), 'ref_line_extra': self.ref_line_extra,
        }

    def to_json(self):
        import json
        return json.dumps(self.spec)

    # -- well-formedness ------------------------------------------------------
    def check(self, nesting=True, max_mask_cells=50_000_000):
        """Assert the structural invariants the generator promises."""
        nd = self.ndims
        assert len(self.geo_lo) == nd and len(self.dx0) == nd and len(self.n0) == nd
        assert len(self.files) == len(self.levels) == len(self.order) == len(self.data)
        assert len(self.steps) == len(self.levels)
        prev_mask = None
        for lv, boxes in enumerate(self.levels):
            n = self.n(lv)
            assert len(boxes) > 0, f"level {lv} has no box"
            for b, (lo, hi) in enumerate(boxes):
                assert len(lo) == nd and len(hi) == nd
                assert all(0 <= l <= h < m for l, h, m in zip(lo, hi, n)), \
                    f"box {b} of level {lv} outside of the domain"
                assert self.data[lv][b].shape == self.box_shape(lv, b) + (self.nf,), \
                    f"data shape of box {b} at level {lv}"
            for a in range(len(boxes)):
                for b in range(a + 1, len(boxes)):
                    (alo, ahi), (blo, bhi) = boxes[a], boxes[b]
                    assert any(ahi[d] < blo[d] or bhi[d] < alo[d] for d in range(nd)), \
                        f"boxes {a} and {b} of level {lv} overlap"
            _check_layout(self.files[lv], self.order[lv], len(boxes))
            if nesting and int(np.prod(n)) <= max_mask_cells:
                mask = np.zeros(n, dtype=bool)
                for lo, hi in boxes:
                    mask[tuple(slice(l, h + 1) for l, h in zip(lo, hi))] = True
                if lv == 0:
                    assert mask.all(), "level 0 must tile the domain"
                else:
                    up = prev_mask
                    for d in range(nd):
                        up = np.repeat(up, 2, axis=d)
                    assert not (mask & ~up).any(), f"level {lv} not nested in level {lv-1}"
                prev_mask = mask
        return True


def build_data(ndims, geo_lo, dx0, levels, nf, payload, seed=0, special=None):
    """Build the list (per level) of list of arrays (nx,ny[,nz],nf)."""
    rng = np.random.default_rng([int(seed), 303])
    data = []
    for lv, boxes in enumerate(levels):
        dx = [d / 2 ** lv for d in dx0]
        lvdata = []
        for b, (lo, hi) in enumerate(boxes):
            shape = box_shape((lo, hi))
            if isinstance(payload, str) and payload == 'coded':
                arr = _coded_block(lv, b, shape, nf)
            elif isinstance(payload, str) and payload == 'random':
                arr = rng.standard_normal(shape + (nf,))
            elif (isinstance(payload, str) and payload == 'affine') or callable(payload):
                ctr = [geo_lo[d] + (np.arange(lo[d], hi[d] + 1) + 0.5) * dx[d]
                       for d in range(ndims)]
                grids = list(np.meshgrid(*ctr, indexing='ij'))
                while len(grids) < 3:
                    grids.append(np.zeros(shape))
                X, Y, Z = grids
                arr = np.empty(shape + (nf,), dtype=np.float64)
                for c in range(nf):
                    if callable(payload):
                        arr[..., c] = payload(lv, b, lo, hi, X, Y, Z, c)
                    else:
                        arr[..., c] = c + 1 + 2 * X + 3 * Y + 5 * Z
            else:
                raise ValueError(f"unknown payload {payload!r}")
            lvdata.append(np.asarray(arr, dtype=np.float64))
        data.append(lvdata)
    for (lv, b, flat_index, value) in (special or []):
        data[lv][b] = poke(data[lv][b], flat_index, value)
    return data


def make_pf(ndims=3, names=('a', 'b', 'c'), n0=(16, 16, 16), geo_lo=(0., 0., 0.),
            dx0=(1., 1., 1.), time=0.5, levels=None, nfiles=2, layout='shuffled',
            payload='coded', seed=0, steps=None, ref_line_extra=0,
            nlevels=2, box=8, box_sizes=None, partial=True, special=None):
    """
    Build an abstract plotfile.

    n0 / geo_lo / dx0 longer than ndims are truncated (so make_pf(ndims=2) works).
    levels   : None -> auto_levels(ndims, n0, nlevels, box, seed, partial, box_sizes)
               else list per level of list of (lo, hi)
    nfiles   : int or list of int per level
    layout   : 'shuffled' | 'monotone' | 'roundrobin' | explicit list per level
               of (files, order) [order may be None -> box order]
    payload  : 'coded' | 'random' | 'affine' | callable(lv,b,lo,hi,X,Y,Z,c)->array
               (X,Y,Z = cell-centre meshgrids of the box, Z is zeros in 2D)
    special  : list of (lv, b, flat_index, value); flat_index addresses the
               on-disk flattening of the box (Fortran order, component slowest)
    """
    ndims = int(ndims)
    n0 = [int(v) for v in n0][:ndims]
    geo_lo = [float(v) for v in geo_lo][:ndims]
    dx0 = [float(v) for v in dx0][:ndims]
    assert len(n0) == ndims and len(geo_lo) == ndims and len(dx0) == ndims
    names = list(names)
    if levels is None:
        levels = auto_levels(ndims, n0, nlevels, box, seed, partial=partial,
                             box_sizes=box_sizes)
    levels = [[_as_box(b) for b in lvl] for lvl in levels]
    nlv = len(levels)
    rng = np.random.default_rng([int(seed), 202])
    files, order = [], []
    for lv in range(nlv):
        nb = len(levels[lv])
        if isinstance(layout, str):
            nfl = nfiles[lv] if isinstance(nfiles, (list, tuple)) else nfiles
            f, o = make_layout(nb, nfl, layout, rng)
        else:
            f, o = _normalise_explicit_layout(layout[lv], nb)
        _check_layout(f, o, nb)
        files.append(f)
        order.append(o)
    data = build_data(ndims, geo_lo, dx0, levels, len(names), payload,
                      seed=seed, special=special)
    if steps is None:
        steps = [0] * nlv
    pf = PF(ndims, names, time, geo_lo, dx0, n0, levels, files, order, data,
            steps=steps, ref_line_extra=ref_line_extra)
    return pf


def pf_from_spec(spec, payload='coded', seed=0, special=None):
    """Rebuild a PF from a `.spec` dict (data regenerated from `payload`)."""
    layout = [(f, o) for f, o in zip(spec['files'], spec['order'])]
    return make_pf(ndims=spec['ndims'], names=spec['names'], n0=spec['n0'],
                   geo_lo=spec['geo_lo'], dx0=spec['dx0'], time=spec['time'],
                   levels=[[(tuple(lo), tuple(hi)) for lo, hi in lvl] for lvl in spec['levels']],
                   layout=layout, payload=payload, seed=seed, steps=spec.get('steps'),
                   ref_line_extra=spec.get('ref_line_extra', 0), special=special)


# ----------------------------------------------------------------------------
# writers
# ----------------------------------------------------------------------------


def _minmax_row(vals):
    return ''.join('%.16e,' % float(v) for v in vals)


def _write_fabs(lvdir, boxes_on_disk, order, arrays, nc, typ=None):
    """
    Write the binary files of one level / one data subset.
    boxes_on_disk[b] = (lo, hi) written in the FAB header of box b
    order            = dict file -> box ids in on-disk order
    arrays[b]        = array (nx,ny[,nz],nc) matching boxes_on_disk[b]
    Every file is opened exactly once.  Returns offsets (list per box).
    """
    offsets = [None] * len(boxes_on_disk)
    for fn, ids in order.items():
        with open(os.path.join(lvdir, fn), 'wb') as bf:
            for b in ids:
                lo, hi = boxes_on_disk[b]
                arr = arrays[b]
                assert arr.shape == box_shape((lo, hi)) + (nc,), \
                    f"box {b}: array shape {arr.shape} does not match {lo}..{hi} x {nc}"
                offsets[b] = bf.tell()
                bf.write(fab_header(lo, hi, nc, typ))
                bf.write(fab_bytes(arr))
    assert all(o is not None for o in offsets), "some boxes are in no file"
    return offsets


def _write_level_header(fpath, nc, nghost, boxes, files, offsets, mins, maxs, typ=None):
    """Cell_H / state_H ... (VisMF header, version 1)."""
    nb = len(boxes)
    lines = ['1', '1', str(int(nc)), str(int(nghost)), f"({nb} 0"]
    for lo, hi in boxes:
        lines.append(box_str(lo, hi, typ))
    lines.append(')')
    lines.append(str(nb))
    for fn, off in zip(files, offsets):
        lines.append(f"FabOnDisk: {fn} {int(off)}")
    lines.append('')
    lines.append(f"{nb},{int(nc)}")
    for row in mins:
        lines.append(_minmax_row(row))
    lines.append('')
    lines.append(f"{nb},{int(nc)}")
    for row in maxs:
        lines.append(_minmax_row(row))
    # the 3D plotfile and the checkpoint assets end with one empty line
    lines.append('')
    with open(fpath, 'w') as hf:
        hf.write('\n'.join(lines) + '\n')


def header_lines(pf):
    """The lines (no newline) of the plotfile `Header`."""
    nd = pf.ndims
    lines = [getattr(pf, 'version', VERSION), str(pf.nf)]
    lines.extend(pf.names)
    lines.append(str(nd))
    lines.append(repr(pf.time))
    lines.append(str(pf.L))
    lines.append(_floats_line(pf.geo_lo))
    lines.append(_floats_line(pf.geo_hi))
    lines.append('2 ' * (pf.L + pf.ref_line_extra))
    zero = (0,) * nd
    lines.append(''.join(box_str(zero, [m - 1 for m in pf.n(lv)]) + ' '
                         for lv in range(pf.L + 1)))
    lines.append(''.join(f"{s} " for s in pf.steps))
    for lv in range(pf.L + 1):
        lines.append(_floats_line(pf.dx(lv)))
    lines.append('0')
    lines.append('0')
    for lv in range(pf.L + 1):
        lines.append(f"{lv} {pf.nboxes(lv)} {repr(pf.time)}")
        lines.append(str(pf.steps[lv]))
        for b in range(pf.nboxes(lv)):
            for lo, hi in pf.box_bounds(lv, b):
                lines.append(f"{repr(lo)} {repr(hi)}")
        lines.append(f"Level_{lv}/Cell")
    return lines


def write_plotfile(path, pf, exist_ok=False):
    """
    Create directory `path` (must not exist) and write Header, Level_k/Cell_H
    and the binaries.  Fills pf.offsets.  Returns pf.
    """
    if os.path.exists(path) and not exist_ok:
        raise FileExistsError(path)
    # exist_ok: written IN PLACE over an earlier plotfile (files of the same names are overwritten, the directories stay)
    os.makedirs(path, exist_ok=exist_ok)
    pf.offsets = []
    for lv in range(pf.L + 1):
        lvdir = os.path.join(path, f"Level_{lv}")
        os.makedirs(lvdir, exist_ok=exist_ok)
        nb = pf.nboxes(lv)
        _check_layout(pf.files[lv], pf.order[lv], nb)
        offs = _write_fabs(lvdir, pf.levels[lv], pf.order[lv], pf.data[lv], pf.nf)
        pf.offsets.append(offs)
        axes = tuple(range(pf.ndims))
        with np.errstate(all='ignore'):
            mins = [np.min(pf.data[lv][b], axis=axes) for b in range(nb)]
            maxs = [np.max(pf.data[lv][b], axis=axes) for b in range(nb)]
        _write_level_header(os.path.join(lvdir, 'Cell_H'), pf.nf, 0, pf.levels[lv],
                            pf.files[lv], offs, mins, maxs)
    with open(os.path.join(path, 'Header'), 'w') as hf:
        hf.write('\n'.join(header_lines(pf)) + '\n')
    return pf


# ----------------------------------------------------------------------------
# checkpoints (PeleLMeX)
# ----------------------------------------------------------------------------


class CK:
    """
    In-memory abstract PeleLMeX checkpoint (3D only, like the reader).

    ncomp[s], nghost[s]       : components / ghost width of subset s
    files[s][lv], order[s][lv]: layout of subset s (own shuffling per subset)
    stored[s][lv][b]          : array as written on disk (ghosts included;
                                'p' is nodal: one more point per dim + ghosts)
    data[s][lv][b]            : interior (valid) part of stored[s][lv][b]
                                (kept for every subset, the test mostly wants
                                 'state', 'gradp' and 'I_R')
    offsets[s][lv][b]         : filled by write_checkpoint
    """
    ndims = 3

    def __init__(self, n0, geo_lo, dx0, time, step, nspecies, ghost, levels,
                 files, order, stored, pressure=101325.0, dt=(2.5e-7, 1.25e-7),
                 typvals=None, pre_time_int=None):
        self.n0 = [int(v) for v in n0]
        self.geo_lo = [float(v) for v in geo_lo]
        self.dx0 = [float(v) for v in dx0]
        self.time = float(time)
        self.step = int(step)
        self.nspecies = int(nspecies)
        self.ghost = int(ghost)
        self.levels = [[_as_box(b) for b in lvl] for lvl in levels]
        self.ncomp = {'state': 4 + self.nspecies + 3, 'gradp': 3,
                      'I_R': self.nspecies, 'divU': 1, 'p': 1}
        self.nghost = {'state': self.ghost, 'gradp': 0, 'I_R': 0, 'divU': 1, 'p': 1}
        self.nodal = {'state': False, 'gradp': False, 'I_R': False, 'divU': False, 'p': True}
        self.files = files
        self.order = order
        self.stored = stored
        self.data = {s: [[self.interior(s, a) for a in lvl] for lvl in stored[s]]
                     for s in CHK_SUBSETS}
        self.offsets = None
        self.pressure = float(pressure)
        self.dt = tuple(float(v) for v in dt)
        self.typvals = ([0.5] * (self.ncomp['state'] - 2) if typvals is None
                        else [float(v) for v in typvals])
        self.pre_time_int = pre_time_int

    @property
    def L(self):
        return len(self.levels) - 1

    @property
    def geo_hi(self):
        return [lo + n * dx for lo, n, dx in zip(self.geo_lo, self.n0, self.dx0)]

    def dx(self, lv):
        return [d / 2 ** lv for d in self.dx0]

    def n(self, lv):
        return [m * 2 ** lv for m in self.n0]

    def nboxes(self, lv):
        return len(self.levels[lv])

    @property
    def state_names(self):
        """Names chk2plt gives to the state components for species S0..Sn."""
        return (['x_velocity', 'y_velocity', 'z_velocity', 'density']
                + [f"Y(S{i})" for i in range(self.nspecies)]
                + ['rhoh', 'temp', 'RhoRT'])

    @property
    def species(self):
        return [f"S{i}" for i in range(self.nspecies)]

    def disk_box(self, subset, lv, b):
        """index range written in the FAB header of a box (ghosts / nodal)."""
        lo, hi = self.levels[lv][b]
        g = self.nghost[subset]
        extra = 1 if self.nodal[subset] else 0
        return (tuple(l - g for l in lo), tuple(h + extra + g for h in hi))

    def header_box(self, subset, lv, b):
        """index range written in the `<subset>_H` box list (no ghosts)."""
        lo, hi = self.levels[lv][b]
        extra = 1 if self.nodal[subset] else 0
        return (lo, tuple(h + extra for h in hi))

    def interior(self, subset, arr):
        g = self.nghost[subset]
        if g == 0:
            return arr
        return arr[g:-g, g:-g, g:-g, :]

    @property
    def spec(self):
        return {
            'n0': list(self.n0), 'geo_lo': list(self.geo_lo), 'dx0': list(self.dx0),
            'time': self.time, 'step': self.step, 'nspecies': self.nspecies,
            'ghost': self.ghost,
            'levels': [[[list(lo), list(hi)] for lo, hi in lvl] for lvl in self.levels],
            'files': {s: [list(f) for f in self.files[s]] for s in CHK_SUBSETS},
            'order': {s: [{k: list(v) for k, v in o.items()} for o in self.order[s]]
                      for s in CHK_SUBSETS},
            'offsets': None if self.offsets is None else
                       {s: [list(o) for o in self.offsets[s]] for s in CHK_SUBSETS},
        }


def make_ck(n0=(16, 16, 16), geo_lo=(0., 0., 0.), dx0=(1., 1., 1.), time=0.5, step=5,
            nspecies=3, ghost=3, levels=None, nlevels=2, box=8, box_sizes=None,
            partial=True, nfiles=2, layout='shuffled', payload='coded', seed=0,
            pressure=101325.0, typvals=None, pre_time_int=None):
    """
    Build an abstract PeleLMeX checkpoint.

    ghost   : ghost width of the state FABs (1..3)
    layout  : 'shuffled' | 'monotone' | 'roundrobin' (each subset gets its own
              independently seeded layout) or explicit dict subset -> list per
              level of (files, order)
    payload : 'coded'    interior cells = +code, ghost cells = -code where
                         code = (k+1)*1e13 + (lv+1)*1e12 + b*1e8 + c*1e6 + flat
                         (k = index of the subset in CHK_SUBSETS, flat = Fortran
                         flat index in the STORED array, ghosts included)
              'random'   uniform in (0.1, 1) (positive: chk2plt divides by sum(Y))
              'massfrac' like 'random' but the species of `state` sum to 1
              callable(subset, lv, b, disk_lo, disk_hi, nc) -> array (shape+(nc,))
    time must not be integer valued unless pre_time_int is given (the reader
    treats an integer valued line as an optional extra line before the time).
    """
    assert 1 <= int(ghost) <= 3
    n0 = [int(v) for v in n0]
    assert len(n0) == 3
    if levels is None:
        levels = auto_levels(3, n0, nlevels, box, seed, partial=partial, box_sizes=box_sizes)
    levels = [[_as_box(b) for b in lvl] for lvl in levels]
    proto = CK(n0, geo_lo, dx0, time, step, nspecies, ghost, levels,
               {s: [] for s in CHK_SUBSETS}, {s: [] for s in CHK_SUBSETS},
               {s: [] for s in CHK_SUBSETS}, pressure=pressure, typvals=typvals,
               pre_time_int=pre_time_int)
    files, order, stored = {}, {}, {}
    for k, s in enumerate(CHK_SUBSETS):
        lrng = np.random.default_rng([int(seed), 404, k])
        drng = np.random.default_rng([int(seed), 505, k])
        files[s], order[s], stored[s] = [], [], []
        nc = proto.ncomp[s]
        g = proto.nghost[s]
        for lv in range(len(levels)):
            nb = len(levels[lv])
            if isinstance(layout, str):
                nfl = nfiles[lv] if isinstance(nfiles, (list, tuple)) else nfiles
                f, o = make_layout(nb, nfl, layout, lrng, prefix=s)
            else:
                f, o = _normalise_explicit_layout(layout[s][lv], nb)
            _check_layout(f, o, nb)
            files[s].append(f)
            order[s].append(o)
            lvdata = []
            for b in range(nb):
                dlo, dhi = proto.disk_box(s, lv, b)
                shape = box_shape((dlo, dhi))
                if callable(payload):
                    arr = np.asarray(payload(s, lv, b, dlo, dhi, nc), dtype=np.float64)
                    assert arr.shape == shape + (nc,)
                elif payload == 'coded':
                    arr = _coded_block(lv, b, shape, nc, tag=k + 1)
                    if g > 0:
                        neg = -arr
                        neg[g:-g, g:-g, g:-g, :] = arr[g:-g, g:-g, g:-g, :]
                        arr = neg
                elif payload in ('random', 'massfrac'):
                    arr = drng.uniform(0.1, 1.0, size=shape + (nc,))
                    if payload == 'massfrac' and s == 'state':
                        arr[..., 4:-3] /= np.sum(arr[..., 4:-3], axis=-1, keepdims=True)
                else:
                    raise ValueError(f"unknown payload {payload!r}")
                lvdata.append(arr)
            stored[s].append(lvdata)
    return CK(n0, geo_lo, dx0, time, step, nspecies, ghost, levels, files, order,
              stored, pressure=pressure, typvals=typvals, pre_time_int=pre_time_int)


def ck_header_lines(ck):
    lines = ['Checkpoint version: 1', str(ck.L), str(ck.step)]
    if ck.pre_time_int is not None:
        lines.append(str(int(ck.pre_time_int)))
    lines.append(repr(ck.time))
    lines.append(repr(ck.dt[0]))
    lines.append(repr(ck.dt[1]))
    lines.append(_floats_line(ck.geo_lo))
    lines.append(_floats_line(ck.geo_hi))
    for lv in range(ck.L + 1):
        lines.append(f"({ck.nboxes(lv)} 0")
        for lo, hi in ck.levels[lv]:
            lines.append(box_str(lo, hi))
        lines.append(')')
    lines.append(repr(ck.pressure) if ck.pressure % 1 else str(int(ck.pressure)))
    lines.append('0')
    lines.append('0')
    for v in ck.typvals:
        lines.append(repr(v))
    return lines


def write_checkpoint(path, ck):
    """
    Create directory `path` (must not exist) and write Header and
    Level_k/{state,gradp,I_R,divU,p}_{H,D_xxxxx}.  Fills ck.offsets.
    Min/max rows of the `_H` files are computed on the valid (interior) region.
    """
    if os.path.exists(path):
        raise FileExistsError(path)
    if ck.pre_time_int is None and ck.time % 1 == 0:
        raise ValueError("integer valued time would be mis-parsed by CheckpointReader; "
                         "use a non integer time or pre_time_int")
    os.makedirs(path)
    ck.offsets = {s: [] for s in CHK_SUBSETS}
    for lv in range(ck.L + 1):
        lvdir = os.path.join(path, f"Level_{lv}")
        os.makedirs(lvdir)
        nb = ck.nboxes(lv)
        for s in CHK_SUBSETS:
            nc = ck.ncomp[s]
            typ = (1, 1, 1) if ck.nodal[s] else None
            disk_boxes = [ck.disk_box(s, lv, b) for b in range(nb)]
            offs = _write_fabs(lvdir, disk_boxes, ck.order[s][lv], ck.stored[s][lv], nc, typ)
            ck.offsets[s].append(offs)
            with np.errstate(all='ignore'):
                mins = [np.min(ck.data[s][lv][b], axis=(0, 1, 2)) for b in range(nb)]
                maxs = [np.max(ck.data[s][lv][b], axis=(0, 1, 2)) for b in range(nb)]
            _write_level_header(os.path.join(lvdir, f"{s}_H"), nc, ck.nghost[s],
                                [ck.header_box(s, lv, b) for b in range(nb)],
                                ck.files[s][lv], offs, mins, maxs, typ)
    with open(os.path.join(path, 'Header'), 'w') as hf:
        hf.write('\n'.join(ck_header_lines(ck)) + '\n')
    return ck


# ----------------------------------------------------------------------------
# corruption utilities
# ----------------------------------------------------------------------------


def _read_lines(fpath):
    with open(fpath) as f:
        return f.read().split('\n')


def _write_lines(fpath, lines):
    with open(fpath, 'w') as f:
        f.write('\n'.join(lines))


def _fab_on_disk(lines):
    """[(line number, file, offset)] of the FabOnDisk lines of a level header."""
    out = []
    for i, l in enumerate(lines):
        if l.startswith('FabOnDisk:'):
            _, fn, off = l.split()
            out.append((i, fn, int(off)))
    return out


def corrupt(path, kind, **site):
    """
    In-place corruption of a written plotfile (or checkpoint) directory.
    Returns a dict describing what was done (old values, sizes).

    kind              site
    'truncate'        file, nbytes          drop the LAST nbytes bytes
    'extend'          file, nbytes[, fill]  append nbytes bytes (fill byte, default 0)
    'insert'          file, pos, bytes      insert a byte string at position pos
    'remove'          file, pos, n          delete n bytes starting at pos
    'delete_file'     file
    'edit_cellh_line' level, lineno, newtext[, header='Cell_H']
    'edit_fab_header' level, box, newtext[, fix_offsets=True, header='Cell_H']
                      replace the FAB header line of a box (newtext without
                      newline); if the length changes and fix_offsets is true,
                      the FabOnDisk offsets of the boxes stored behind it in
                      the same file are shifted so ONLY the header is wrong
    'edit_header_line' lineno, newtext
    `file` is relative to `path`; line numbers are 0-based.
    """
    if kind in ('truncate', 'extend', 'insert', 'remove', 'delete_file'):
        fpath = os.path.join(path, site['file'])
        if kind == 'delete_file':
            size = os.path.getsize(fpath)
            os.remove(fpath)
            return {'kind': kind, 'file': site['file'], 'old_size': size}
        with open(fpath, 'rb') as f:
            blob = f.read()
        old_size = len(blob)
        if kind == 'truncate':
            n = int(site['nbytes'])
            assert 0 <= n <= old_size
            blob = blob[:old_size - n]
        elif kind == 'extend':
            fill = site.get('fill', b'\x00')
            if isinstance(fill, int):
                fill = bytes([fill])
            blob = blob + fill * int(site['nbytes'])
        elif kind == 'insert':
            pos = int(site['pos'])
            assert 0 <= pos <= old_size
            blob = blob[:pos] + bytes(site['bytes']) + blob[pos:]
        elif kind == 'remove':
            pos, n = int(site['pos']), int(site['n'])
            assert 0 <= pos and pos + n <= old_size
            blob = blob[:pos] + blob[pos + n:]
        with open(fpath, 'wb') as f:
            f.write(blob)
        return {'kind': kind, 'file': site['file'], 'old_size': old_size,
                'new_size': len(blob)}

    if kind == 'edit_header_line':
        fpath = os.path.join(path, 'Header')
        lines = _read_lines(fpath)
        old = lines[int(site['lineno'])]
        lines[int(site['lineno'])] = str(site['newtext'])
        _write_lines(fpath, lines)
        return {'kind': kind, 'lineno': int(site['lineno']), 'old': old}

    if kind == 'edit_cellh_line':
        hname = site.get('header', 'Cell_H')
        fpath = os.path.join(path, f"Level_{int(site['level'])}", hname)
        lines = _read_lines(fpath)
        old = lines[int(site['lineno'])]
        lines[int(site['lineno'])] = str(site['newtext'])
        _write_lines(fpath, lines)
        return {'kind': kind, 'level': int(site['level']),
                'lineno': int(site['lineno']), 'old': old}

    if kind == 'edit_fab_header':
        hname = site.get('header', 'Cell_H')
        lv, box = int(site['level']), int(site['box'])
        lvdir = os.path.join(path, f"Level_{lv}")
        hpath = os.path.join(lvdir, hname)
        lines = _read_lines(hpath)
        fod = _fab_on_disk(lines)
        _, fn, off = fod[box]
        bpath = os.path.join(lvdir, fn)
        with open(bpath, 'rb') as f:
            blob = f.read()
        end = blob.index(b'\n', off)
        old = blob[off:end].decode('ascii', errors='replace')
        new = str(site['newtext']).encode('ascii')
        blob = blob[:off] + new + blob[end:]
        with open(bpath, 'wb') as f:
            f.write(blob)
        delta = len(new) - (end - off)
        shifted = []
        if delta != 0 and site.get('fix_offsets', True):
            for (ln, ofn, ooff) in fod:
                if ofn == fn and ooff > off:
                    lines[ln] = f"FabOnDisk: {ofn} {ooff + delta}"
                    shifted.append(ln)
            _write_lines(hpath, lines)
        return {'kind': kind, 'level': lv, 'box': box, 'file': fn, 'offset': off,
                'old': old, 'delta': delta, 'shifted_lines': shifted}

    raise ValueError(f"unknown corruption kind {kind!r}")
