"""Shared contract vocabulary: symbolic files, FABs on disk (the OnDisk relation of DESIGN 2.4 at one position)."""
import z3
from pyvc.vals import *  # noqa
from pyvc.libfile import (Line, f_size, f_f64, f_linelen, f_hok, f_hlo, f_hhi, f_hnc, f_canon, f_exists, hdrlen)


class Fab:
    """Ghost description of one FAB located at byte `off` of file F.  Its index range and component count ARE the
    header ghost functions at that position (so code and spec build syntactically identical terms)."""

    def __init__(self, ctx, F, off, nd, nc=None):
        self.F, self.off, self.nd = F, off, nd
        self.line = Line(F, off)
        self.lo = [self.line.lo(d) for d in range(nd)]
        self.hi = [self.line.hi(d) for d in range(nd)]
        self.nc = self.line.nc() if nc is None else nc
        self.shape = [simp(h - l + 1) for l, h in zip(self.lo, self.hi)]
        self.N = ctx.define(zprod(self.shape), "prod") if ctx is not None else zprod(self.shape)
        self.hl = self.line.length()
        self.data0 = off + self.hl
        self.end = self.data0 + 8 * self.N * self.nc

    def value(self, idx, comp):
        """float64 stored for cell idx (local index tuple), component comp."""
        return f_f64(self.F, to_z3(self.data0) + 8 * (to_z3(flatF(idx, self.shape)) + to_z3(self.N) * to_z3(comp)))

    def array(self, comps=None):
        if comps is None:
            return NDArray(self.shape + [self.nc], lambda idx: self.value(idx[:-1], idx[-1]))
        return NDArray(list(self.shape), lambda idx: self.value(idx, comps))


def sym_path(ctx, name, exists=True):
    F = z3.Int(name)
    p = Opaque(name, "path")
    p.sym = F
    if exists:
        ctx.assume(f_exists(F))
    ctx.assume(f_size(F) >= 0)
    return p, F


def fab_facts(fab, canonical=True):
    """Hypotheses: a well-formed FAB sits at (F, off) and lies inside the file."""
    ln = fab.line
    fs = [fab.off >= 0, ln.ok(), ln.nc() == fab.nc, fab.nc >= 1, fab.hl > 0,
          to_z3(fab.end) <= f_size(fab.F)]
    for d in range(fab.nd):
        fs += [fab.hi[d] >= fab.lo[d]]
    if canonical:
        fs += [ln.canon(), fab.hl == hdrlen(fab.lo, fab.hi, fab.nc)]
    return fs


def sym_fab(ctx, F, off, nd, nc=None, canonical=True):
    fab = Fab(ctx, F, off, nd, nc)
    for f in fab_facts(fab, canonical):
        ctx.assume(f)
    return fab


def size_of(ctx, shape):
    """number of elements of an array of this shape, named the way NDArray.size() names it (so code and spec agree
    syntactically)"""
    return ctx.define(zprod(list(shape)), "size")
