"""OnDisk(PF, dir) for ONE binary file with a symbolic number m of FABs (DESIGN 2.4): ghost functions of the FAB
ordinal j (position in the file), instantiated at the indices a proof needs."""
import z3
from pyvc.vals import *  # noqa
from pyvc.libfile import f_size, f_exists
from .common import Fab, fab_facts, sym_path

I = z3.IntSort()


class DiskFile:
    """A binary file that is exactly the concatenation of m FABs; FAB j starts at byte P(j) and has nc components."""

    def __init__(self, ctx, name, nd, nc=None, canonical=True):
        self.ctx = ctx
        self.name, self.nd = name, nd
        self.path, self.F = sym_path(ctx, name)
        self.m = z3.Int(f"m_{name}")
        self.P = z3.Function(f"P_{name}", I, I)
        self.nc = nc if nc is not None else z3.Int(f"nc_{name}")
        self.canonical = canonical
        ctx.assume(self.m >= 1)
        ctx.assume(self.P(0) == 0)
        ctx.assume(self.P(self.m) == f_size(self.F))
        ctx.assume(self.nc >= 1)

    def fab(self, j, ctx=None):
        j = to_z3(j)
        return Fab(ctx or self.ctx, self.F, self.P(j), self.nd, self.nc)

    def facts(self, j):
        """Instance of the OnDisk axioms at ordinal j (valid for 0 <= j < m)."""
        j = to_z3(j)
        fb = self.fab(j)
        ctx = self.ctx
        total = ctx.define(zprod(list(fb.shape) + [fb.line.nc()]), "prod")     # as np.prod(shape incl. components) names it
        return z3.Implies(z3.And(j >= 0, j < self.m),
                          z3.And(*[to_z3(f) for f in fab_facts(fb, self.canonical)],
                                 self.P(j + 1) == to_z3(fb.end),
                                 self.P(j + 1) == to_z3(fb.data0) + 8 * total))
