"""Loads the REAL source of /repo on every run: function / method ASTs by qualified name, import tables."""
import ast
import hashlib
import os

REPO = os.environ.get("VERIF_REPO", "/repo")
PKG = "amr_kitchen"


class Module:
    def __init__(self, qual, path, tree, src):
        self.qual, self.path, self.tree, self.src = qual, path, tree, src
        self.funcs = {}      # name -> FunctionDef
        self.classes = {}    # name -> ClassDef
        self.imports = {}    # local name -> ('mod', modname) | ('obj', qualname)
        self.globals_assigned = {}   # name -> ast expr (module-level simple assignments)


class Repo:
    def __init__(self, root=None, overrides=None):
        self.root = root or REPO
        self.modules = {}
        self.overrides = overrides or {}     # relative path -> source text (in-memory canary mutations)
        self._load()

    def _load(self):
        base = os.path.join(self.root, PKG)
        for dp, dn, fn in os.walk(base):
            dn[:] = [d for d in dn if d != "__pycache__"]
            for f in sorted(fn):
                if not f.endswith(".py"):
                    continue
                p = os.path.join(dp, f)
                rel = os.path.relpath(p, self.root)[:-3].replace(os.sep, ".")
                if rel.endswith(".__init__"):
                    rel = rel[: -len(".__init__")]
                src = open(p, encoding="utf-8").read()
                relp = os.path.relpath(p, self.root)
                if relp in self.overrides:
                    src = self.overrides[relp](src) if callable(self.overrides[relp]) else self.overrides[relp]
                try:
                    tree = ast.parse(src, filename=p)
                except SyntaxError as e:      # a tree that does not compile is not ours to judge
                    raise RuntimeError(f"cannot parse {p}: {e}")
                m = Module(rel, p, tree, src)
                self.modules[rel] = m
        for m in self.modules.values():
            self._index(m)

    def _resolve_from(self, m, node):
        # absolute module name for "from X import" possibly relative
        if node.level:
            is_pkg = m.path.endswith("__init__.py")
            pkg = m.qual.split(".") if is_pkg else m.qual.split(".")[:-1]
            if node.level > 1:
                pkg = pkg[: len(pkg) - (node.level - 1)]
            mod = ".".join(pkg + ([node.module] if node.module else []))
        else:
            mod = node.module
        return mod

    def _index(self, m):
        for node in m.tree.body:
            if isinstance(node, ast.FunctionDef):
                m.funcs[node.name] = node
            elif isinstance(node, ast.ClassDef):
                m.classes[node.name] = node
            elif isinstance(node, ast.Import):
                for a in node.names:
                    m.imports[a.asname or a.name.split(".")[0]] = ("mod", a.name if a.asname else a.name.split(".")[0])
            elif isinstance(node, ast.ImportFrom):
                mod = self._resolve_from(m, node)
                for a in node.names:
                    m.imports[a.asname or a.name] = ("from", mod, a.name)
            elif isinstance(node, ast.Assign) and len(node.targets) == 1 and isinstance(node.targets[0], ast.Name):
                m.globals_assigned[node.targets[0].id] = node.value

    # ------------------------------------------------------------------
    def resolve_name(self, modqual, name, _depth=0):
        """Resolve a global name used in module `modqual` to ('func', qual) | ('class', qual) | ('mod', name) |
        ('global', modqual, name) | None."""
        m = self.modules.get(modqual)
        if m is None or _depth > 6:
            return None
        if name in m.funcs:
            return ("func", f"{modqual}.{name}")
        if name in m.classes:
            return ("class", f"{modqual}.{name}")
        if name in m.imports:
            imp = m.imports[name]
            if imp[0] == "mod":
                return ("mod", imp[1])
            _, mod, obj = imp
            if mod in self.modules:
                r = self.resolve_name(mod, obj, _depth + 1)
                if r:
                    return r
                if f"{mod}.{obj}" in self.modules:
                    return ("mod", f"{mod}.{obj}")
                return None
            return ("ext", mod, obj)
        if name in m.globals_assigned:
            return ("global", modqual, name)
        return None

    def func(self, qual):
        """qual = module.func | module.Class.method -> (FunctionDef, module qual, class qual or None)."""
        parts = qual.split(".")
        for i in range(len(parts) - 1, 0, -1):
            mq = ".".join(parts[:i])
            if mq in self.modules:
                m = self.modules[mq]
                rest = parts[i:]
                if len(rest) == 1 and rest[0] in m.funcs:
                    return m.funcs[rest[0]], mq, None
                if len(rest) == 2 and rest[0] in m.classes:
                    r = self.method(f"{mq}.{rest[0]}", rest[1])
                    if r:
                        return r
        return None

    def classdef(self, cqual):
        if "." not in cqual:
            return None
        mq, cn = cqual.rsplit(".", 1)
        m = self.modules.get(mq)
        if m and cn in m.classes:
            return m.classes[cn], mq
        return None

    def bases(self, cqual):
        r = self.classdef(cqual)
        if not r:
            return []
        cd, mq = r
        out = []
        for b in cd.bases:
            if isinstance(b, ast.Name):
                rr = self.resolve_name(mq, b.id)
                if rr and rr[0] == "class":
                    out.append(rr[1])
        return out

    def mro(self, cqual):
        out = [cqual]
        for b in self.bases(cqual):
            for x in self.mro(b):
                if x not in out:
                    out.append(x)
        return out

    def method(self, cqual, name, after=None):
        """Find method `name` along the MRO of class cqual (optionally strictly after class `after`)."""
        mro = self.mro(cqual)
        if after is not None and after in mro:
            mro = mro[mro.index(after) + 1:]
        for c in mro:
            cd, mq = self.classdef(c)
            for node in cd.body:
                if isinstance(node, ast.FunctionDef) and node.name == name:
                    return node, mq, c
        return None

    def class_attr(self, cqual, name):
        for c in self.mro(cqual):
            cd, mq = self.classdef(c)
            for node in cd.body:
                if isinstance(node, ast.Assign) and len(node.targets) == 1 and isinstance(node.targets[0], ast.Name) \
                        and node.targets[0].id == name:
                    return node.value, mq
        return None


def ast_sha(node):
    """Hash of the normalised AST (no positions, no docstring)."""
    import copy
    n = copy.deepcopy(node)
    if isinstance(n, (ast.FunctionDef, ast.ClassDef)) and n.body and isinstance(n.body[0], ast.Expr) \
            and isinstance(getattr(n.body[0], "value", None), ast.Constant) and isinstance(n.body[0].value.value, str):
        n.body = n.body[1:] or [ast.Pass()]
    return hashlib.sha256(ast.dump(n, include_attributes=False).encode()).hexdigest()[:16]
