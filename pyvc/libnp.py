"""numpy model: the enumerated contracts of DESIGN 2.5 (trusted; sampled against real numpy by selftest)."""
import z3
from .vals import *  # noqa
from .exec import lib, method, attr, builtin, Const, LIBS, typetag, ModRef
from .ops import (as_ndarray, nd_elementwise, set_region, norm_index, _is_scalar, scalar_cmp, b2i,
                  broadcast_shapes, binop, compare)

NP = "numpy"
LIBS[(NP, "newaxis")] = Const(None)
LIBS[(NP, "nan")] = Const(Opaque("nan", "float"))
LIBS[(NP, "pi")] = Const(3.141592653589793)


class DType:
    def __init__(self, name):
        self.name = name

    def __repr__(self):
        return f"dtype({self.name})"


for _n, _d in (("float64", "f8"), ("float32", "f4"), ("int64", "int"), ("int32", "int"), ("bool_", "bool")):
    LIBS[(NP, _n)] = Const(DType(_d))


def dtype_of(v, default="f8"):
    if v is None:
        return default
    if isinstance(v, DType):
        return v.name
    if isinstance(v, str):
        return {"float64": "f8", "float": "f8", "float32": "f4", "int": "int", "int64": "int", "bool": "bool",
                "object": "object"}.get(v, v)
    from .exec import LibFn
    if isinstance(v, LibFn) and v.mod == "builtins":
        return {"int": "int", "float": "f8", "bool": "bool", "object": "object", "str": "str"}[v.attr]
    raise Unsupported(f"dtype {v!r}")


# ------------------------------------------------------------------------------------------------
# reductions (uninterpreted, congruence instances added eagerly)


class RedInfo:
    def __init__(self, kind, shape, elem, cond, const):
        self.kind, self.shape, self.elem, self.cond, self.const = kind, shape, elem, cond, const


def reduce_const(ex, kind, shape, elem, cond=None, sort="real"):
    """Fresh constant standing for REDUCE_kind{ elem(idx) : idx in shape, cond(idx) } with congruence instances
    against every earlier reduction of the same kind and rank."""
    ctx = ex.ctx
    c = ctx.fresh(f"red_{kind}", sort)
    info = RedInfo(kind, list(shape), elem, cond, c)
    reds = ctx.ghost.setdefault("reds", [])
    for o in reds:
        if o.kind != kind or len(o.shape) != len(shape):
            continue
        sk = [ctx.fresh("rsk") for _ in shape]
        inb = zand(*[zand(to_z3(s) >= 0, to_z3(s) < to_z3(n)) for s, n in zip(sk, shape)])
        same_shape = zand(*[to_z3(a) == to_z3(b) for a, b in zip(shape, o.shape)])
        c1 = True if cond is None else cond(tuple(sk))
        c2 = True if o.cond is None else o.cond(tuple(sk))
        differ = zand(inb, zor(to_z3(c1) != to_z3(c2) if not (c1 is True and c2 is True) else False,
                               zand(c1, to_z3(elem(tuple(sk))) != to_z3(o.elem(tuple(sk))))))
        ctx.assume(z3.Or(z3.Not(same_shape), differ, c == o.const))
    reds.append(info)
    if kind in ("min", "max") and cond is None and ctx.ghost.get("minmax_semantics"):
        # (opt-in per task: most proofs only move extrema around and need congruence alone; the quantified facts slow them)
        # what a minimum / maximum IS (real arithmetic, no NaN): a bound of every element, attained at some position
        w = [ctx.fresh("rwit") for _ in shape]
        nonempty = zand(*[to_z3(n) > 0 for n in shape])
        inb = zand(*[zand(x >= 0, x < to_z3(n)) for x, n in zip(w, shape)])
        ctx.assume(z3.Implies(nonempty, zand(inb, to_z3(elem(tuple(w))) == c)))
        q = [z3.Int(f"rq{d}_{len(reds)}") for d in range(len(shape))]
        inq = zand(*[zand(x >= 0, x < to_z3(n)) for x, n in zip(q, shape)])
        eq = to_z3(elem(tuple(q)))
        body = z3.Implies(inq, c <= eq if kind == "min" else c >= eq)
        from .parents import _triggers
        trig = [t for t in _triggers(eq, q[0]) if all(any(a.eq(x) for a in t.children()) for x in q)] if q else []
        ctx.assume(z3.ForAll(q, body, patterns=trig) if trig else z3.ForAll(q, body))
    return c


class MaskedSel:
    """a[mask] for a boolean mask of a's shape: kept lazily as (mask array, elementwise source)."""

    def __init__(self, mask, src):
        self.mask, self.src = mask, src

    @staticmethod
    def binop(ex, op, a, b):
        m = a.mask if isinstance(a, MaskedSel) else b.mask
        if isinstance(a, MaskedSel) and isinstance(b, MaskedSel) and not _same_mask(a.mask, b.mask):
            raise Unsupported("operation between selections with different masks")
        sa = a.src if isinstance(a, MaskedSel) else a
        sb = b.src if isinstance(b, MaskedSel) else b
        return MaskedSel(m, binop(ex, op, sa, sb))


# ------------------------------------------------------------------------------------------------
# indexing


def expand_key(ex, arr, key):
    if not isinstance(key, tuple):
        key = (key,)
    n_real = sum(1 for k in key if k is not None and k is not Ellipsis)
    out = []
    seen_ell = False
    for k in key:
        if k is Ellipsis:
            if seen_ell:
                raise SymRaise("IndexError", "an index can only have a single ellipsis")
            seen_ell = True
            out.extend([SSlice()] * (arr.ndim - n_real))
        else:
            out.append(k)
    n_now = sum(1 for k in out if k is not None)
    if n_now > arr.ndim:
        raise SymRaise("IndexError", "too many indices for array")
    out.extend([SSlice()] * (arr.ndim - n_now))
    return out


def nd_getitem(ex, arr, key, prefer_vec=False):
    # boolean mask of the full shape
    if isinstance(key, NDArray) and key.dtype == "bool":
        if key.ndim == arr.ndim:
            for a_, b_ in zip(key.shape, arr.shape):
                if not (isinstance(a_, int) and isinstance(b_, int) and a_ == b_):
                    ex.ctx.check_or_raise(to_z3(a_) == to_z3(b_), "IndexError",
                                          "boolean index did not match indexed array")
                elif a_ != b_:
                    raise SymRaise("IndexError", "boolean index did not match indexed array")
            return MaskedSel(key, arr)
        if key.ndim == 1 and arr.ndim >= 1:
            from .parents import bool_index_axis0
            return bool_index_axis0(ex, arr, key)
        raise Unsupported("boolean index of lower rank")
    if isinstance(key, Vec) and key.kind == "array" and key.items and all(isinstance(x, bool) or is_sym_bool(x) for x in key.items):
        if all(isinstance(x, bool) for x in key.items) and arr.ndim == 1 and arr.shape[0] == len(key.items):
            return Vec([arr.elem((i,)) for i, x in enumerate(key.items) if x], "array")      # concrete mask: plain selection
        n0 = as_const(arr.shape[0]) if is_z3(arr.shape[0]) else arr.shape[0]
        if all(isinstance(x, bool) for x in key.items) and arr.ndim > 1 and n0 == len(key.items):
            # concrete mask on the first axis of a higher-rank array: the selected rows
            return nd_getitem(ex, arr, Vec([i for i, x in enumerate(key.items) if x], "array"), prefer_vec)
        raise Unsupported("boolean Vec index")
    if isinstance(key, MaskedSel):
        raise Unsupported("index by masked selection")
    keys = expand_key(ex, arr, key)
    basic = True
    plan = []     # per result axis: (kind, data)
    src_axis = 0
    out_shape = []
    maps = []     # per source axis: function(result idx tuple) -> source index
    fancy = []
    for k in keys:
        if k is None:
            out_shape.append(1)
            continue
        n = arr.shape[src_axis]
        pos = len(out_shape)
        if isinstance(k, SSlice):
            if k.start is None and k.stop is None and k.step is None:
                out_shape.append(n)
                maps.append((src_axis, "axis", pos, 0, 1, n))
            else:
                step = 1 if k.step is None else k.step
                if is_z3(step):
                    ex.ctx.check_or_raise(to_z3(step) != 0, "ValueError", "slice step cannot be zero")
                elif step == 0:
                    raise SymRaise("ValueError", "slice step cannot be zero")
                s, e, st = slice_indices(k, n)
                ln = ex.ctx.canon(slice_len(s, e, st))
                s = ex.ctx.canon(s) if is_z3(s) else s
                out_shape.append(ln)
                maps.append((src_axis, "axis", pos, s, st, n))
        elif is_intlike(k) or isinstance(k, bool):
            i = norm_index(ex, b2i(k), n, f"index for axis {src_axis}")
            maps.append((src_axis, "int", None, i, None, n))
        elif isinstance(k, (Vec, list, tuple, NDArray, SymSeq)):
            basic = False
            if isinstance(k, (list, tuple)):
                k = Vec(k)
            if isinstance(k, SymSeq):
                k = NDArray([k.length], lambda idx, k=k: k.get(idx[0]), dtype="int")
            ia = as_ndarray(k)
            if ia.ndim != 1:
                raise Unsupported("multi-dimensional index array")
            if ia.dtype == "bool":
                raise Unsupported("boolean index on one axis")
            m = ia.shape[0]
            iae, _ = ia.snapshot()
            # bounds (numpy raises IndexError when any entry is out of range; negatives wrap)
            mc = as_const(m) if is_z3(m) else m
            if isinstance(mc, int):
                allin = zand(*[zand(to_z3(iae((t,))) >= -to_z3(n), to_z3(iae((t,))) < to_z3(n)) for t in range(mc)])
                ex.ctx.check_or_raise(allin, "IndexError", "index out of bounds")
            else:
                t = z3.Int(f"ia_t!{ex.ctx.path_id}_{len(ex.ctx.pc)}")
                allin = z3.ForAll([t], z3.Implies(z3.And(t >= 0, t < to_z3(m)),
                                                  z3.And(to_z3(iae((t,))) >= -to_z3(n), to_z3(iae((t,))) < to_z3(n))))
                ex.ctx.check_or_raise(allin, "IndexError", "index out of bounds")
            out_shape.append(m)
            maps.append((src_axis, "fancy", pos, iae, None, n))
            fancy.append(src_axis)
        else:
            raise SymRaise("IndexError", f"only integers, slices, ellipsis, newaxis and integer or boolean arrays "
                                         f"are valid indices (got {typetag(k)})")
        src_axis += 1
    if len(fancy) > 1:
        raise Unsupported("more than one index array")

    def imap(idx):
        out = []
        for (ax, kind, pos, a, st, n) in maps:
            if kind == "axis":
                out.append(a + idx[pos] * st if not (isinstance(a, int) and a == 0 and isinstance(st, int) and st == 1)
                           else idx[pos])
            elif kind == "int":
                out.append(a)
            else:
                v = a((idx[pos],))
                out.append(zite(to_z3(v) < 0, v + n, v))
        return tuple(out)

    if not out_shape and all(m[1] == "int" for m in maps):
        return arr.elem(imap(()))
    if basic:
        r = NDArray(out_shape, None, arr.dtype, base=(arr, imap))

        def inv(bidx):
            inside = []
            vidx = [0] * len(out_shape)
            for (ax, kind, pos, a, st, n) in maps:
                b = bidx[ax]
                if kind == "int":
                    inside.append(to_z3(b) == to_z3(a))
                else:
                    ln = out_shape[pos]
                    if isinstance(st, int) and st == 1:
                        vi = b - a if not (isinstance(a, int) and a == 0) else b
                        inside.append(zand(to_z3(vi) >= 0, to_z3(vi) < to_z3(ln)))
                    else:
                        d = b - a
                        vi = to_z3(d) / to_z3(st)
                        inside.append(zand(to_z3(d) % to_z3(st) == 0, vi >= 0, vi < to_z3(ln)))
                    vidx[pos] = vi
            return zand(*inside), tuple(vidx)
        r.inv = inv
        return r
    e, i = arr.snapshot()
    r = NDArray(out_shape, lambda idx: e(imap(idx)), arr.dtype, init=lambda idx: i(imap(idx)))
    if prefer_vec and len(out_shape) == 1 and isinstance(out_shape[0], int):
        try:
            return Vec([r.elem((t,)) for t in range(out_shape[0])])
        except Unsupported:
            return r          # elements are structured values selected by symbolic indices: kept lazy
    return r


def _pick_item(items, i):
    c = as_const(i) if is_z3(i) else i
    if isinstance(c, int):
        return items[c]
    e = items[-1]
    for t in range(len(items) - 2, -1, -1):
        e = zite(to_z3(i) == t, items[t], e)
    return e


def _same_mask(a, b):
    if a is b:
        return True
    na, nb = getattr(a, "neg_of", None), getattr(b, "neg_of", None)
    return na is not None and na is nb


def nd_setitem(ex, arr, key, v):
    if arr.dtype == "bool" and _is_scalar(v) and not isinstance(v, bool) and not is_sym_bool(v):
        v = (v != 0) if not is_z3(v) else (to_z3(v) != 0)        # a boolean array keeps its dtype
    if isinstance(key, Vec) and key.kind == "array" and key.items and all(isinstance(k, bool) or is_sym_bool(k) for k in key.items) \
            and arr.ndim == 1:
        ke = list(key.items)
        key = NDArray([len(ke)], lambda ix, ke=ke: _pick_item(ke, ix[0]), "bool")
    if isinstance(key, NDArray) and key.dtype == "bool" and key.ndim == arr.ndim:
        me, _ = key.snapshot()
        if isinstance(v, MaskedSel):
            if not _same_mask(v.mask, key):
                # the same array object, or two negations of the same array object
                raise Unsupported("masked assignment from a selection with a different mask object")
            src = as_ndarray(v.src)
            se, si = src.snapshot()
            set_region(ex, arr, lambda idx: me(idx), se, si)
            return
        if _is_scalar(v):
            set_region(ex, arr, lambda idx: me(idx), lambda idx: v)
            return
        raise Unsupported("masked assignment of an array value")
    if isinstance(key, tuple) and key and isinstance(key[0], NDArray) and key[0].dtype == "bool" and \
            all(is_intlike(k) and not isinstance(k, bool) for k in key[1:]) and key[0].ndim + len(key) - 1 == arr.ndim and _is_scalar(v):
        # a[mask, i, ...] = scalar with a boolean mask over the LEADING axes and integers on the others: every position
        # the mask selects, at those integers (numpy: the mask stands for its nonzero() index arrays, broadcast with the ints)
        mk = key[0]
        kd = mk.ndim
        for d in range(kd):
            ex.ctx.check_or_raise(to_z3(mk.shape[d]) == to_z3(arr.shape[d]), "IndexError", "boolean index did not match indexed array")
        me, _ = mk.snapshot()
        ints = [norm_index(ex, k, arr.shape[kd + t], f"index for axis {kd + t}") for t, k in enumerate(key[1:])]
        set_region(ex, arr, lambda idx: zand(me(tuple(idx[:kd])), *[to_z3(idx[kd + t]) == to_z3(i) for t, i in enumerate(ints)]),
                   lambda idx: v)
        return
    keys = expand_key(ex, arr, key)
    if any(k is None for k in keys):
        raise Unsupported("newaxis in assignment")
    if any(isinstance(k, (Vec, list, tuple, NDArray, SymSeq)) for k in keys):
        from .parents import fancy_setitem
        return fancy_setitem(ex, arr, keys, v)
    conds = []     # per source axis: fn(idx_d) -> Bool
    vmap = []      # per source axis: None (int) or fn(idx_d)-> local index
    vshape = []
    for ax, k in enumerate(keys):
        n = arr.shape[ax]
        if isinstance(k, SSlice):
            if k.start is None and k.stop is None and k.step is None:
                conds.append(None)
                vmap.append(lambda b: b)
                vshape.append(n)
            else:
                s, e, st = slice_indices(k, n)
                if not (isinstance(st, int) and st == 1):
                    raise Unsupported("assignment to a stepped slice")
                ln = slice_len(s, e, st)
                conds.append(lambda b, s=s, ln=ln: zand(to_z3(b) >= to_z3(s), to_z3(b) < to_z3(s) + to_z3(ln)))
                vmap.append(lambda b, s=s: b - s)
                vshape.append(ln)
        elif is_intlike(k):
            i = norm_index(ex, k, n, f"index for axis {ax}")
            conds.append(lambda b, i=i: to_z3(b) == to_z3(i))
            vmap.append(None)
        else:
            raise Unsupported(f"assignment index {typetag(k)}")

    def region(idx):
        return zand(*[c(idx[ax]) for ax, c in enumerate(conds) if c is not None])

    def local(idx):
        return tuple(m(idx[ax]) for ax, m in enumerate(vmap) if m is not None)
    if _is_scalar(v):
        set_region(ex, arr, region, lambda idx: v)
        return
    if isinstance(v, (Vec, list, tuple)):
        v = as_ndarray(Vec(v) if not isinstance(v, Vec) else v)
    if isinstance(v, NDArray):
        # numpy broadcasting of value against the target region (value rank <= region rank)
        shape, mt, mv = broadcast_shapes(ex, vshape, v.shape)
        # target must not be enlarged by broadcasting
        for a, b in zip(shape, vshape):
            if a is not b:
                ex.ctx.check_or_raise(to_z3(a) == to_z3(b), "ValueError", "could not broadcast input array")
        ve, vi = v.snapshot()
        set_region(ex, arr, region, lambda idx: ve(mv(local(idx))), lambda idx: vi(mv(local(idx))))
        return
    raise Unsupported(f"assignment of {typetag(v)} into ndarray")


# ------------------------------------------------------------------------------------------------
# constructors and functions


def _shape_arg(ex, s):
    if is_intlike(s):
        return [s]
    if isinstance(s, Vec):
        return list(s.items)
    if isinstance(s, (list, tuple)):
        return list(s)
    if isinstance(s, NDArray) and s.ndim == 1 and isinstance(s.shape[0], int):
        return [s.elem((t,)) for t in range(s.shape[0])]
    raise Unsupported(f"shape argument {typetag(s)}")


@lib(NP, "array")
def np_array(ex, args, kw):
    v = args[0]
    dt = kw.get("dtype", args[1] if len(args) > 1 else None)
    from .strings import SStr, str_to_number
    if isinstance(v, NDArray):
        e, i = v.snapshot()
        return NDArray(v.shape, e, dtype_of(dt, v.dtype), i)
    if isinstance(v, Vec):
        items = list(v.items)
    elif isinstance(v, (list, tuple)):
        items = list(v)
    elif isinstance(v, SymSeq):
        if hasattr(v, "as_array"):
            return v.as_array(ex)
        probe = v.get(ex.ctx.fresh("probe"), ex) if not v.suffix else v.suffix[0]
        if isinstance(probe, NDArray):
            # list of equal-shaped arrays -> array of one more dimension (row i = element i)
            return NDArray([v.length] + list(probe.shape), lambda idx, v=v: v.get(idx[0], ex).elem(idx[1:]), probe.dtype)
        return NDArray([v.length], lambda idx, v=v: v.get(idx[0]), dtype_of(dt, "int"))
    elif _is_scalar(v):
        return NDArray([], lambda idx: v, dtype_of(dt, "f8"))
    else:
        raise Unsupported(f"np.array({typetag(v)})")
    if isinstance(dt, str) and dt in ("i", "int32", "i4", "intc", "<i4"):
        # a 32-bit integer array: numpy (2.x) refuses a Python integer that does not fit (OverflowError); values that fit
        # behave as integers (the model keeps them mathematical from here on)
        for x in items:
            if is_z3(x) or isinstance(x, int):
                ex.ctx.check_or_raise(zand(to_z3(x) >= -2 ** 31, to_z3(x) < 2 ** 31), "OverflowError", "Python integer out of bounds for int32")
        dt = "int"
    d = dtype_of(dt, None)
    if not items and d is not None:
        return NDArray([0], lambda idx: 0, d)        # np.array([], dtype=...): empty, but of that element type
    if items and all(isinstance(x, (str, SStr)) for x in items):
        if d in ("int", "f8"):
            return Vec([str_to_number(ex, x, d) for x in items])
        return Vec(items, "array")
    if all(_is_scalar(x) for x in items):
        return Vec(items)
    if items and all(isinstance(x, Opaque) for x in items):
        return Vec(items, "array")
    # list of equal-length rows -> 2-D/3-D array
    rows = [np_array(ex, [x], {}) for x in items]
    return stack_rows(ex, rows)


def stack_rows(ex, rows):
    rows = [as_ndarray(r) for r in rows]
    r0 = rows[0]
    for r in rows[1:]:
        if r.ndim != r0.ndim:
            raise SymRaise("ValueError", "inhomogeneous shape")
    snaps = [r.snapshot() for r in rows]

    def el(idx):
        k = idx[0]
        c = as_const(k) if is_z3(k) else k
        if isinstance(c, int):
            return snaps[c][0](idx[1:])
        out = snaps[-1][0](idx[1:])
        for j in range(len(rows) - 2, -1, -1):
            out = zite(k == j, snaps[j][0](idx[1:]), out)
        return out
    return NDArray([len(rows)] + r0.shape, el, r0.dtype)


@lib(NP, "prod")
def np_prod(ex, args, kw):
    v = args[0]
    if isinstance(v, (Vec, list, tuple)):
        items = v.items if isinstance(v, Vec) else list(v)
        r = zprod([b2i(x) for x in items]) if items else 1
        if sum(1 for x in items if is_z3(x)) >= 2:
            return ex.ctx.define(r, "prod")
        return r
    if isinstance(v, NDArray) and v.ndim == 1 and isinstance(v.shape[0], int):
        return zprod([v.elem((t,)) for t in range(v.shape[0])])
    raise Unsupported(f"np.prod({typetag(v)})")


@lib(NP, "append")
def np_append(ex, args, kw):
    a, b = args[0], args[1]
    def items(x):
        if isinstance(x, Vec):
            return x.items
        if isinstance(x, (list, tuple)):
            return list(x)
        if _is_scalar(x):
            return [x]
        raise Unsupported("np.append of a symbolic-length array")
    return Vec(items(a) + items(b))


@lib(NP, "fromfile")
def np_fromfile(ex, args, kw):
    f = args[0]
    dt = dtype_of(kw.get("dtype", args[1] if len(args) > 1 else "float64"))
    count = kw.get("count", args[2] if len(args) > 2 else -1)
    if dt != "f8":
        raise Unsupported("fromfile dtype")
    return f.fromfile(ex, b2i(count))


def _filled(ex, args, kw, val, init=None):
    shape = _shape_arg(ex, args[0])
    dt = dtype_of(kw.get("dtype", args[1] if len(args) > 1 else None), "f8")
    for s in shape:
        if is_z3(s):
            ex.ctx.check_or_raise(to_z3(s) >= 0, "ValueError", "negative dimensions are not allowed")
    if val is None:
        u = z3.Function(f"uninit!{ex.ctx.path_id}_{len(ex.ctx.ghost.setdefault('empties', []))}",
                        *([z3.IntSort()] * max(1, len(shape)) + [z3.RealSort() if dt.startswith('f') else z3.IntSort()]))
        ex.ctx.ghost["empties"].append(u)
        el = (lambda idx: u(*[to_z3(i) for i in idx])) if shape else (lambda idx: u(z3.IntVal(0)))
        return NDArray(shape, el, dt, init=lambda idx: False)
    if dt == "bool":
        val = bool(val)
    return NDArray(shape, lambda idx: val, dt)


@lib(NP, "zeros")
def np_zeros(ex, args, kw):
    return _filled(ex, args, kw, 0)


@lib(NP, "ones")
def np_ones(ex, args, kw):
    return _filled(ex, args, kw, 1)


@lib(NP, "empty")
def np_empty(ex, args, kw):
    dt = kw.get("dtype", args[1] if len(args) > 1 else None)
    n = args[0]
    n = as_const(n) if is_z3(n) else n
    if dtype_of(dt, None) == "object" and isinstance(n, int) and not isinstance(n, bool) and 0 <= n <= 16:
        # a short 1-D object array (names, paths): a vector of None cells that item / index-list assignment fills
        return Vec([None] * n, "array")
    return _filled(ex, args, kw, None)


@lib(NP, "zeros_like")
def np_zeros_like(ex, args, kw):
    a = as_ndarray(args[0])
    dt = dtype_of(kw.get("dtype"), a.dtype)
    return NDArray(list(a.shape), lambda idx: (False if dt == "bool" else 0), dt)


@lib(NP, "arange")
def np_arange(ex, args, kw):
    if len(args) == 1:
        n = args[0]
        c = as_const(n) if is_z3(n) else n
        if isinstance(c, int):
            return Vec(list(range(c)))
        return NDArray([zmax(n, 0)], lambda idx: idx[0], "int")
    if len(args) == 2 and not kw and all(is_intlike(a) or isinstance(a, int) for a in args):
        # np.arange(start, stop) of integers: start, start + 1, ..., stop - 1
        a0, a1 = args
        c0, c1 = (as_const(a0) if is_z3(a0) else a0), (as_const(a1) if is_z3(a1) else a1)
        if isinstance(c0, int) and isinstance(c1, int):
            return Vec(list(range(c0, c1)))
        n = zmax(to_z3(a1) - to_z3(a0), 0)
        return NDArray([n], lambda idx, a0=a0: to_z3(a0) + to_z3(idx[0]), "int")
    raise Unsupported("np.arange with start/step")


@lib(NP, "isclose")
def np_isclose(ex, args, kw):
    a, b = args[0], args[1]
    rtol, atol = kw.get("rtol", 1e-5), kw.get("atol", 1e-8)

    def close(x, y):
        if not is_z3(x) and not is_z3(y):
            return abs(x - y) <= atol + rtol * abs(y)
        x3, y3 = to_real(x), to_real(y)
        d = x3 - y3
        ad = z3.If(d >= 0, d, -d)
        ay = z3.If(y3 >= 0, y3, -y3)
        return ad <= to_real(atol) + to_real(rtol) * ay
    if _is_scalar(a) and _is_scalar(b):
        return close(a, b)
    return nd_elementwise(ex, close, a, b, dtype="bool")


@lib(NP, "array_equal")
def np_array_equal(ex, args, kw):
    a, b = args[0], args[1]

    def items(v):
        if isinstance(v, Vec):
            return v.items
        if isinstance(v, (list, tuple)):
            out = []
            for x in v:
                y = items(x)
                out.append(y if isinstance(y, list) and not _is_scalar(x) else x)
            return out
        return v

    def flat(v):
        if isinstance(v, Vec):
            return [("shape", len(v.items))] + list(v.items)
        if isinstance(v, (list, tuple)):
            out = [("shape", len(v))]
            for x in v:
                out.extend(flat(x) if not _is_scalar(x) else [x])
            return out
        if isinstance(v, NDArray):
            if all(isinstance(s, int) for s in v.shape):
                import itertools
                out = [("shape", tuple(v.shape))]
                for idx in itertools.product(*[range(s) for s in v.shape]):
                    out.append(v.elem(idx))
                return out
        raise Unsupported(f"array_equal on {typetag(v)}")
    fa, fb = flat(a), flat(b)
    sa = [x for x in fa if isinstance(x, tuple)]
    sb = [x for x in fb if isinstance(x, tuple)]
    va = [x for x in fa if not isinstance(x, tuple)]
    vb = [x for x in fb if not isinstance(x, tuple)]
    if len(va) != len(vb):
        return False
    parts = [scalar_cmp("Eq", x, y) for x, y in zip(va, vb)]
    if all(isinstance(p, bool) for p in parts):
        return all(parts)
    return zand(*parts)


@lib(NP, "linspace")
def np_linspace(ex, args, kw):
    a, b, n = args[0], args[1], args[2] if len(args) > 2 else kw.get("num", 50)
    nc = as_const(n) if is_z3(n) else n
    if isinstance(nc, int) and nc <= 1:
        if nc == 1:
            return NDArray([1], lambda idx: a, "f8")
        return NDArray([0], lambda idx: a, "f8")
    n3 = to_z3(n)
    ex.ctx.check_or_raise(n3 >= 0, "ValueError", "Number of samples must be non-negative")
    # step = (b - a)/(n - 1) for n > 1 (for n == 1 the only element is a, whatever the step).  Where the task names a
    # candidate d and the path condition proves b - a == n*d - d, the step IS d (cancellation of n - 1 != 0 in the
    # reals), so that code and specification build the same terms; otherwise a fresh real with its defining equation.
    step = None
    for d in ex.ctx.ghost.get("linstep_hints", []):
        if ex.ctx.entails(z3.Implies(n3 > 1, to_real(b) - to_real(a) == to_real(n3) * d - d)):
            step = d
            break
    if step is None:
        step = ex.ctx.fresh("linstep", "real")
        ex.ctx.assume(z3.Implies(n3 > 1, step * to_real(n3 - 1) == to_real(b) - to_real(a)))
    reads = ex.ctx.ghost.setdefault("linspace_reads", [])
    # the grid is an uninterpreted function G with the (instantiable) definition G(t) = a + t*step and the real-arithmetic
    # consequence 'strictly increasing when step > 0' (lemma schema: t < u and s > 0  =>  t*s < u*s), so that quantified
    # facts about grid positions (np.where / any) have G(t) as their trigger
    G = z3.Function(f"linspace!{ex.ctx.path_id}_{len(ex.ctx.assumptions)}", z3.IntSort(), z3.RealSort())
    t_, u_ = z3.Int("ls_t"), z3.Int("ls_u")
    ex.ctx.assume(z3.ForAll([t_], G(t_) == to_real(a) + to_real(t_) * step, patterns=[G(t_)]))
    ex.ctx.assume(z3.ForAll([t_, u_], z3.Implies(z3.And(step > 0, t_ < u_), G(t_) < G(u_)), patterns=[z3.MultiPattern(G(t_), G(u_))]))

    def elem(idx):
        v = G(to_z3(idx[0]))
        reads.append((v, idx[0]))          # ghost: which index a value of the grid was read at (witness hints for specs)
        return v
    r = NDArray([n], elem, "f8")
    r.linspace = (a, b, n, step)
    return r


def _axes(ax, nd):
    if ax is None:
        return list(range(nd))
    if isinstance(ax, int):
        return [ax % nd]
    return [a % nd for a in ax]


def _reduce(kind):
    def f(ex, args, kw):
        v = args[0]
        ax = kw.get("axis", args[1] if len(args) > 1 else None)
        if isinstance(v, MaskedSel):
            src = as_ndarray(v.src)
            se, _ = src.snapshot()
            me, _ = v.mask.snapshot()
            return reduce_const(ex, kind, src.shape, se, cond=me)
        if isinstance(v, (list, tuple)) and v and all(_is_scalar(x) for x in v):
            v = Vec(v)
        if isinstance(v, Vec):
            if kind in ("min", "max", "nanmin", "nanmax"):
                if not v.items:
                    raise SymRaise("ValueError", "zero-size array to reduction operation")
                r = v.items[0]
                for x in v.items[1:]:
                    r = zmin(r, x) if "min" in kind else zmax(r, x)
                return r
            if kind == "sum":
                r = 0
                for x in v.items:
                    r = r + b2i(x)
                return r
        if isinstance(v, (list, tuple)):
            raise Unsupported("reduction over a nested python list")
        a = as_ndarray(v)
        ae, _ = a.snapshot()
        axes = _axes(ax, a.ndim)
        keep = [d for d in range(a.ndim) if d not in axes]
        rshape = [a.shape[d] for d in axes]
        sort = "real" if a.dtype.startswith("f") else "int"
        if kind in ("min", "max"):
            for s in rshape:
                if is_z3(s):
                    ex.ctx.check_or_raise(to_z3(s) > 0, "ValueError", "zero-size array to reduction operation")
        if not keep:
            return reduce_const(ex, kind, rshape, lambda idx: ae(tuple(idx[axes.index(d)] for d in range(a.ndim))),
                                sort=sort)
        cache = {}

        def el(idx):
            def inner(ridx, idx=idx):
                full = [None] * a.ndim
                for j, d in enumerate(keep):
                    full[d] = idx[j]
                for j, d in enumerate(axes):
                    full[d] = ridx[j]
                return ae(tuple(full))
            key = tuple(str(i) for i in idx)
            if key not in cache:
                cache[key] = reduce_const(ex, kind, rshape, inner, sort=sort)
            return cache[key]
        out = NDArray([a.shape[d] for d in keep], el, a.dtype)
        out.reduced = (kind, a, axes, keep)
        return out
    return f


for _k in ("min", "max", "sum", "nanmin", "nanmax"):
    LIBS[(NP, _k)] = _reduce(_k)


@method("NDArray", "min")
def nd_min(ex, self, args, kw):
    return LIBS[(NP, "min")](ex, [self] + args, kw)


@method("NDArray", "max")
def nd_max(ex, self, args, kw):
    return LIBS[(NP, "max")](ex, [self] + args, kw)


@method("NDArray", "sum")
def nd_sum(ex, self, args, kw):
    return LIBS[(NP, "sum")](ex, [self] + args, kw)


@method(["NDArray", "Vec"], "any")
def nd_any(ex, self, args, kw):
    a = as_ndarray(self)
    if a.ndim == 1 and isinstance(a.shape[0], int):
        return zor(*[a.elem((t,)) for t in range(a.shape[0])])
    if a.ndim != 1:
        raise Unsupported("any() on rank > 1")
    t = z3.Int(f"any_t!{ex.ctx.path_id}_{len(ex.ctx.pc)}_{len(ex.ctx.assumptions)}")
    e, _ = a.snapshot()
    from .parents import _triggers
    body = to_z3(e((t,)))
    trig = _triggers(body, t)
    if trig:
        return z3.Exists([t], z3.And(t >= 0, t < to_z3(a.shape[0]), body), patterns=trig)
    return z3.Exists([t], z3.And(t >= 0, t < to_z3(a.shape[0]), body))


@lib(NP, "concatenate")
def np_concatenate(ex, args, kw):
    parts = ex.as_iterable(args[0])
    axis = kw.get("axis", args[1] if len(args) > 1 else 0)
    if not isinstance(parts, list):
        raise Unsupported("concatenate of a symbolic-length list")
    if all(isinstance(p, Vec) or (isinstance(p, (list, tuple)) and all(_is_scalar(x) for x in p)) for p in parts):
        out = []
        for p in parts:
            out.extend(p.items if isinstance(p, Vec) else list(p))
        return Vec(out, "array")
    arrs = [as_ndarray(p) for p in parts]
    nd = arrs[0].ndim
    for a in arrs:
        if a.ndim != nd:
            raise SymRaise("ValueError", "all the input array dimensions except for the concatenation axis must "
                                         "match exactly (ranks differ)")
    ax = axis % nd if nd else 0
    for a in arrs[1:]:
        for d in range(nd):
            if d != ax:
                x, y = arrs[0].shape[d], a.shape[d]
                if not (isinstance(x, int) and isinstance(y, int) and x == y):
                    ex.ctx.check_or_raise(to_z3(x) == to_z3(y), "ValueError",
                                          "all the input array dimensions except for the concatenation axis must match")
                elif x != y:
                    raise SymRaise("ValueError", "concatenate dimension mismatch")
    snaps = [a.snapshot() for a in arrs]
    lens = [a.shape[ax] for a in arrs]
    starts = [0]
    for ln in lens:
        starts.append(starts[-1] + ln)
    shape = list(arrs[0].shape)
    shape[ax] = starts[-1]
    if nd == 1 and all(a.flat_of is not None for a in arrs):
        pieces = []
        for a in arrs:
            pieces.extend(a.flat_of)
    else:
        pieces = None

    def pick(which):
        def f(idx):
            i = idx[ax]
            out = None
            for j in range(len(arrs) - 1, -1, -1):
                loc = tuple((i - starts[j]) if d == ax else idx[d] for d in range(nd))
                v = snaps[j][which](loc)
                out = v if out is None else zite(to_z3(i) < to_z3(starts[j + 1]), v, out)
            return out
        return f
    r = NDArray(shape, pick(0), arrs[0].dtype, init=pick(1))
    r.flat_of = pieces
    r.concat_of = (arrs, ax, starts)
    return r


@lib(NP, "hstack")
def np_hstack(ex, args, kw):
    parts = ex.as_iterable(args[0])
    if isinstance(parts, list) and all(isinstance(p, NDArray) and p.ndim == 1 for p in parts):
        return np_concatenate(ex, [parts], {"axis": 0})
    raise Unsupported("hstack of non 1-D arrays")


@lib(NP, "stack")
def np_stack(ex, args, kw):
    parts = ex.as_iterable(args[0])
    if not isinstance(parts, list):
        raise Unsupported("stack of symbolic list")
    return stack_rows(ex, parts)


@lib(NP, "transpose")
def np_transpose(ex, args, kw):
    v = args[0]
    if isinstance(v, (list, tuple)) and len(v) == 1 and isinstance(v[0], Vec):
        # np.transpose([vec]) -> column of shape (n,1)
        items = v[0].items
        return NDArray([len(items), 1], lambda idx: as_ndarray(Vec(items)).elem((idx[0],)), "f8")
    if isinstance(v, (list, tuple)) and v and all(isinstance(x, (Vec, NDArray, list, tuple)) for x in v):
        v = stack_rows(ex, [x if isinstance(x, (Vec, NDArray)) else Vec(x) for x in v])
    a = as_ndarray(v)
    return nd_T(ex, a)


@attr("NDArray", "T")
def nd_T(ex, self):
    nd = self.ndim
    r = NDArray(list(reversed(self.shape)), None, self.dtype, base=(self, lambda idx: tuple(reversed(idx))))
    r.inv = lambda bidx: (True, tuple(reversed(bidx)))
    return r


@attr(["NDArray"], "shape")
def nd_shape(ex, self):
    return tuple(self.shape)


@attr("Vec", "shape")
def vec_shape(ex, self):
    return (len(self.items),)


@attr(["NDArray"], "ndim")
def nd_ndim(ex, self):
    return self.ndim


@attr("Vec", "ndim")
def vec_ndim(ex, self):
    return 1


@attr(["NDArray", "Vec"], "size")
def nd_size(ex, self):
    return as_ndarray(self).size()


@attr(["NDArray"], "itemsize")
def nd_itemsize(ex, self):
    return dtype_itemsize(ex, DType(self.dtype))


@attr(["NDArray", "Vec"], "dtype")
def nd_dtype(ex, self):
    if isinstance(self, Vec):
        if self.items and all(isinstance(x, bool) or is_sym_bool(x) for x in self.items):
            return DType("bool")
        return DType("int")
    return DType(self.dtype)


@method("NDArray", "reshape")
def nd_reshape(ex, self, args, kw):
    order = kw.get("order", "C")
    shape = _shape_arg(ex, args[0] if len(args) == 1 else tuple(args))
    neg = [i for i, s in enumerate(shape) if isinstance(s, int) and s == -1]
    total = self.size()
    if len(neg) > 1:
        raise SymRaise("ValueError", "can only specify one unknown dimension")
    if neg:
        known = zprod([s for i, s in enumerate(shape) if i != neg[0]])
        if is_z3(known) or is_z3(total):
            ex.ctx.check_or_raise(z3.And(to_z3(known) > 0, to_z3(total) % to_z3(known) == 0), "ValueError",
                                  "cannot reshape array")
            shape[neg[0]] = to_z3(total) / to_z3(known)
        else:
            if known == 0 or total % known:
                raise SymRaise("ValueError", "cannot reshape array")
            shape[neg[0]] = total // known
    for s in shape:
        if is_z3(s):
            ex.ctx.check_or_raise(to_z3(s) >= 0, "ValueError", "negative dimensions not allowed")
        elif s < 0:
            raise SymRaise("ValueError", "negative dimensions not allowed")
    new_total = zprod(shape) if shape else 1
    if is_z3(new_total) or is_z3(total):
        ex.ctx.check_or_raise(to_z3(new_total) == to_z3(total), "ValueError",
                              "cannot reshape array: size mismatch")
    elif new_total != total:
        raise SymRaise("ValueError", "cannot reshape array")
    if self.ndim == len(shape) and all(as_const(to_z3(x) == to_z3(y)) is True for x, y in zip(self.shape, shape)):
        e, i = self.snapshot()
        return NDArray(shape, e, self.dtype, i)       # same shape: identity (any order)
    if self.ndim == 1:
        e, i = self.snapshot()
        if order == "F":
            r = NDArray(shape, lambda idx: e((flatF(idx, shape),)), self.dtype, lambda idx: i((flatF(idx, shape),)))
            r.reshaped_from = (self, "F")
            return r
        if order == "C":
            rs = list(reversed(shape))
            return NDArray(shape, lambda idx: e((flatF(tuple(reversed(idx)), rs),)), self.dtype,
                           lambda idx: i((flatF(tuple(reversed(idx)), rs),)))
    if self.ndim == 2 and len(shape) == 2 and order == "C":
        # used by expand_array: (n0, n1*f) -> (n0*f, n1*f) style reshapes are identities on flat C order
        e, i = self.snapshot()
        n1 = self.shape[1]
        m1 = shape[1]

        def el(idx, which=0):
            flat = idx[0] * m1 + idx[1]
            return (e if which == 0 else i)(ex.ctx.quot(flat, n1))
        return NDArray(shape, el, self.dtype, lambda idx: el(idx, 1))
    raise Unsupported(f"reshape of rank {self.ndim} array with order {order}")


@method("NDArray", "flatten")
def nd_flatten(ex, self, args, kw):
    order = kw.get("order", args[0] if args else "C")
    e, i = self.snapshot()
    snap = NDArray(list(self.shape), e, self.dtype, i)
    shape = list(self.shape)
    if self.ndim == 1:
        r = NDArray(shape, e, self.dtype, i)
        r.flat_of = self.flat_of if self.flat_of is not None else [(snap, "F")]
        return r
    if order == "F":
        r = NDArray([self.size()], lambda idx: e(unflatF(idx[0], shape)), self.dtype, lambda idx: i(unflatF(idx[0], shape)))
    elif order == "C":
        rs = list(reversed(shape))
        r = NDArray([self.size()], lambda idx: e(tuple(reversed(unflatF(idx[0], rs)))), self.dtype,
                    lambda idx: i(tuple(reversed(unflatF(idx[0], rs)))))
    else:
        raise Unsupported("flatten order")
    r.flat_of = [(snap, order)]
    return r


@method("NDArray", "tobytes")
def nd_tobytes(ex, self, args, kw):
    from .libfile import BytesVal
    order = kw.get("order", args[0] if args else "C")
    if order not in ("C", "F", None):
        raise Unsupported(f"tobytes(order={order!r})")
    if order == "F" and self.ndim > 1:
        e, i = self.snapshot()
        return BytesVal([("ser", NDArray(list(self.shape), e, self.dtype, i), "F")])
    if self.ndim == 1 and self.flat_of is not None:
        return BytesVal([("ser", a, order) for a, order in self.flat_of])
    if self.ndim == 1:
        e, i = self.snapshot()
        return BytesVal([("ser", NDArray(list(self.shape), e, self.dtype, i), "F")])
    e, i = self.snapshot()
    return BytesVal([("ser", NDArray(list(self.shape), e, self.dtype, i), "C")])


@method("NDArray", "copy")
def nd_copy(ex, self, args, kw):
    e, i = self.snapshot()
    return NDArray(list(self.shape), e, self.dtype, i)


@method("Vec", "copy")
def vec_copy(ex, self, args, kw):
    return Vec(list(self.items), self.kind)


@lib(NP, "copy")
def np_copy(ex, args, kw):
    v = args[0]
    if isinstance(v, Vec):
        return Vec(list(v.items), v.kind)
    if isinstance(v, NDArray):
        return nd_copy(ex, v, [], {})
    if isinstance(v, (list, tuple)):
        return np_array(ex, [v], {})
    raise Unsupported("np.copy")


@lib(NP, "repeat")
def np_repeat(ex, args, kw):
    a = as_ndarray(args[0]) if not isinstance(args[0], NDArray) else args[0]
    reps = args[1]
    axis = kw.get("axis", args[2] if len(args) > 2 else None)
    e, i = a.snapshot()
    r3 = to_z3(reps)
    if is_z3(reps):
        ex.ctx.check_or_raise(r3 >= 0, "ValueError", "repeats may not contain negative values")
    Q = lambda t: ex.ctx.quot(t, reps)[0]
    if axis is None:
        # flattens in C order first
        if a.ndim == 1:
            return NDArray([a.shape[0] * reps], lambda idx: e((Q(idx[0]),)), a.dtype, lambda idx: i((Q(idx[0]),)))
        if a.ndim == 2:
            n1 = a.shape[1]

            def src(idx):
                q = Q(idx[0])
                return ex.ctx.quot(q, n1)
            return NDArray([a.shape[0] * n1 * reps], lambda idx: e(src(idx)), a.dtype, lambda idx: i(src(idx)))
        raise Unsupported("np.repeat without axis on rank > 2")
    ax = axis % a.ndim
    shape = list(a.shape)
    shape[ax] = shape[ax] * reps

    def src(idx):
        return tuple(Q(x) if d == ax else x for d, x in enumerate(idx))
    return NDArray(shape, lambda idx: e(src(idx)), a.dtype, lambda idx: i(src(idx)))


@lib(NP, "where")
def np_where(ex, args, kw):
    if len(args) == 3:
        c, a, b = args
        if isinstance(c, Vec) and all(isinstance(x, (Vec,)) or _is_scalar(x) for x in (a, b)):
            n = len(c.items)
            ai = a.items if isinstance(a, Vec) else [a] * n
            bi = b.items if isinstance(b, Vec) else [b] * n
            return Vec([zite(cc, x, y) for cc, x, y in zip(c.items, ai, bi)])
        C = as_ndarray(c)
        ce, _ = C.snapshot()
        r = nd_elementwise(ex, lambda x, y: (x, y), a, b)
        A, B_ = as_ndarray(a), as_ndarray(b)
        shape, ma, mb = broadcast_shapes(ex, A.shape, B_.shape)
        ae, _ = A.snapshot()
        be, _ = B_.snapshot()
        return NDArray(shape, lambda idx: zite(ce(idx), ae(ma(idx)), be(mb(idx))), A.dtype)
    if len(args) != 1:
        raise Unsupported("np.where with two arguments")
    c = as_ndarray(args[0])
    if c.ndim != 1:
        raise Unsupported("np.where on rank > 1")
    from .parents import true_positions
    return (true_positions(ex, c),)


@lib(NP, "around")
def np_around(ex, args, kw):
    return Opaque("rounded", "float")


@lib(NP, "count_nonzero")
def np_count_nonzero(ex, args, kw):
    a = as_ndarray(args[0])
    if a.ndim == 1 and isinstance(a.shape[0], int):
        r = 0
        for t in range(a.shape[0]):
            r = r + b2i(a.elem((t,)))
        return r
    from .parents import count_true
    return count_true(ex, a)


@method("NDArray", "astype")
def nd_astype(ex, self, args, kw):
    dt = dtype_of(args[0])
    e, i = self.snapshot()
    if dt == self.dtype:
        return NDArray(list(self.shape), e, dt, i)
    raise Unsupported(f"astype {self.dtype}->{dt}")


@builtin("len")
def bi_len_np(ex, args, kw):      # extended in builtins.py (this registers array support)
    raise NotImplementedError


@lib(NP, "diff")
def np_diff(ex, args, kw):
    v = args[0]
    if isinstance(v, (list, tuple)):
        v = Vec(v)
    if isinstance(v, Vec):
        return Vec([b - a for a, b in zip(v.items, v.items[1:])])
    a = as_ndarray(v)
    if a.ndim != 1:
        raise Unsupported("np.diff on rank > 1")
    e, _ = a.snapshot()
    return NDArray([zmax(a.shape[0] - 1, 0)], lambda idx: e((idx[0] + 1,)) - e((idx[0],)), a.dtype)


@lib(NP, "any")
def np_any(ex, args, kw):
    return nd_any(ex, args[0] if isinstance(args[0], (NDArray, Vec)) else Vec(list(args[0])), [], {})


@lib(NP, "nonzero")
def np_nonzero(ex, args, kw):
    return np_where(ex, [args[0]], {})


@attr("DType", "kind")
def dtype_kind(ex, self):
    return {"int": "i", "bool": "b", "f8": "f", "f4": "f", "str": "U", "object": "O"}.get(self.name, "O")


@attr("DType", "itemsize")
def dtype_itemsize(ex, self):
    return {"int": 8, "bool": 1, "f8": 8, "f4": 4}.get(self.name, 8)


@lib(NP, "argsort")
def np_argsort(ex, args, kw):
    """argsort of a short concrete-length vector of symbolic numbers: position p holds the index whose (stable) rank is p.
    (numpy's default sort is not stable: callers must not depend on the order of ties; tasks assume distinct keys.)"""
    v = args[0]
    items = v.items if isinstance(v, Vec) else (list(v) if isinstance(v, (list, tuple)) else None)
    if items is None and isinstance(v, NDArray) and v.ndim == 1 and isinstance(as_const(v.shape[0]) if is_z3(v.shape[0]) else v.shape[0], int):
        nn = as_const(v.shape[0]) if is_z3(v.shape[0]) else v.shape[0]
        items = [v.elem((i,)) for i in range(nn)]
    if items is None:
        raise Unsupported(f"np.argsort of a symbolic-length array ({type(v).__name__})")
    n = len(items)
    if n > 5:
        raise Unsupported("np.argsort of more than 5 symbolic elements")
    if all(not is_z3(x) for x in items):
        import numpy as _np
        return Vec([int(i) for i in _np.argsort(_np.array(items), kind="stable")], "array")
    a = [to_z3(x) for x in items]
    rank = [z3.Sum([z3.If(z3.Or(a[j] < a[i], z3.And(a[j] == a[i], j < i)), 1, 0) for j in range(n) if j != i]) if n > 1 else z3.IntVal(0)
            for i in range(n)]
    out = []
    for p in range(n):
        e = z3.IntVal(n - 1)
        for i in range(n - 2, -1, -1):
            e = z3.If(rank[i] == p, z3.IntVal(i), e)
        out.append(simp(e))
    return Vec(out, "array")


@lib(NP, "lexsort")
def np_lexsort(ex, args, kw):
    """np.lexsort(keys) for up to five entries: an indirect STABLE sort by the LAST key first, then the one before, ... (numpy
    documents lexsort as stable).  Keys are short concrete-length sequences of symbolic numbers or of concrete strings / numbers."""
    keys = args[0]
    if isinstance(keys, Vec):
        keys = keys.items
    if not isinstance(keys, (list, tuple)) or not keys:
        raise Unsupported("np.lexsort: keys")
    cols = []
    for k in keys:
        items = k.items if isinstance(k, Vec) else (list(k) if isinstance(k, (list, tuple)) else None)
        if items is None and isinstance(k, NDArray) and k.ndim == 1 and isinstance(as_const(k.shape[0]) if is_z3(k.shape[0]) else k.shape[0], int):
            nn = as_const(k.shape[0]) if is_z3(k.shape[0]) else k.shape[0]
            items = [k.elem((i,)) for i in range(nn)]
        if items is None:
            raise Unsupported("np.lexsort of a symbolic-length key")
        cols.append(items)
    n = len(cols[0])
    if any(len(c) != n for c in cols):
        raise SymRaise("ValueError", "all keys need to be the same shape")
    if n > 5:
        raise Unsupported("np.lexsort of more than 5 entries")

    def less_eq(c, j, i):
        x, y = c[j], c[i]
        if isinstance(x, str) and isinstance(y, str):
            return z3.BoolVal(x < y), z3.BoolVal(x == y)
        if isinstance(x, str) or isinstance(y, str):
            raise Unsupported("np.lexsort: key of mixed / symbolic text")
        return to_z3(x) < to_z3(y), to_z3(x) == to_z3(y)

    def before(j, i):
        # entry j sorts before entry i: compare from the last key down; ties by position (stable)
        e = z3.BoolVal(j < i)
        for c in cols:                      # first key = least significant
            lt, eq = less_eq(c, j, i)
            e = z3.Or(lt, z3.And(eq, e))
        return e
    rank = [z3.Sum([z3.If(before(j, i), 1, 0) for j in range(n) if j != i]) if n > 1 else z3.IntVal(0) for i in range(n)]
    out = []
    for p_ in range(n):
        e = z3.IntVal(n - 1)
        for i in range(n - 2, -1, -1):
            e = z3.If(rank[i] == p_, z3.IntVal(i), e)
        out.append(simp(e))
    return Vec(out, "array")


@lib(NP, "unique")
def np_unique(ex, args, kw):
    """np.unique of a CONCRETE sequence (file names of a skeleton, small integer lists): sorted distinct values.  Symbolic
    contents are outside the model (tasks that need them state the duplicate-free-enumeration contract themselves)."""
    v = args[0]
    items = v.items if isinstance(v, Vec) else (list(v) if isinstance(v, (list, tuple)) else None)
    if items is not None and set(kw) == {"axis"} and kw["axis"] == 0 and items and \
            all(isinstance(r, (tuple, list, Vec)) for r in items):
        # rows of a concrete 2-D integer table: the distinct rows in lexicographic order (iterable of 1-D arrays)
        rows = [tuple((as_const(x) if is_z3(x) else x) for x in (r.items if isinstance(r, Vec) else r)) for r in items]
        if all(isinstance(x, int) and not isinstance(x, bool) for r in rows for x in r) and len({len(r) for r in rows}) == 1:
            return [Vec(list(r), "array") for r in sorted(set(rows))]
        raise Unsupported("np.unique(axis=0) of symbolic rows")
    if items is None or any(is_z3(x) for x in items) or kw:
        raise Unsupported("np.unique of symbolic contents")
    if not all(isinstance(x, (str, int, float)) for x in items):
        raise Unsupported("np.unique of non-scalar items")
    return Vec(sorted(set(items)), "array")


@lib(NP, "flatnonzero")
def np_flatnonzero(ex, args, kw):
    v = args[0]
    if isinstance(v, Vec) and all(isinstance(x, bool) for x in v.items):
        return Vec([i for i, x in enumerate(v.items) if x], "array")
    from .parents import true_positions
    a = as_ndarray(v)
    if a.ndim != 1:
        raise Unsupported("flatnonzero on rank > 1")
    return true_positions(ex, a)


@lib(NP, "vectorize")
def np_vectorize(ex, args, kw):
    """np.vectorize(f): f applied to every element of a concrete-length 1-D sequence (an array of the results)"""
    f = args[0]

    def mapped(ex_, a, k):
        seq = ex_.as_iterable(a[0])
        if not isinstance(seq, list):
            raise Unsupported("np.vectorize over a symbolic-length array")
        return Vec([ex_.call_value(f, [x]) for x in seq], "array")
    mapped._pyvc_builtin = True
    return mapped


# np.gcd.reduce(x): the greatest common divisor of the entries.  Contract used: the result is >= 1 (for a non-zero input) and
# divides every entry (e == g * k_e); that it is the GREATEST such number is not used by any specification.
LIBS[(NP, "gcd")] = Const(Record("ufunc_gcd"))


@method("Record:ufunc_gcd", "reduce")
def np_gcd_reduce(ex, self, args, kw):
    v = args[0]
    items = v.items if isinstance(v, Vec) else (list(v) if isinstance(v, (list, tuple)) else None)
    if items is None:
        raise Unsupported("np.gcd.reduce of a symbolic-length array")
    if all(isinstance(x, int) for x in items):
        import math
        return math.gcd(*items) if items else 0
    g = ex.ctx.fresh("gcd")
    ex.ctx.assume(g >= 1)
    for t, e in enumerate(items):
        k = ex.ctx.fresh("gcdq")
        ex.ctx.assume(to_z3(e) == g * k)
    ex.ctx.ghost.setdefault("gcds", []).append((g, list(items)))
    return g


@lib(NP, "squeeze")
def np_squeeze(ex, args, kw):
    """np.squeeze(a[, axis]): the axes of extent 1 (all of them, or the given one which must have extent 1) are dropped; for a
    symbolic extent the path forks on `extent == 1`.  The result is a copy here (reads only), elements unchanged."""
    a = as_ndarray(args[0])
    ax = kw.get("axis", args[1] if len(args) > 1 else None)
    nd = a.ndim
    if ax is None:
        drop = [d for d in range(nd) if ex.ctx.branch(to_z3(a.shape[d]) == 1) is True] if any(is_z3(x) for x in a.shape) \
            else [d for d in range(nd) if a.shape[d] == 1]
    else:
        axes = [ax] if is_intlike(ax) else list(ax)
        drop = []
        for x in axes:
            c = as_const(x) if is_z3(x) else x
            if not isinstance(c, int):
                raise Unsupported("np.squeeze with a symbolic axis")
            if not -nd <= c < nd:
                raise SymRaise("AxisError", "axis out of bounds")
            d = c % nd
            ex.ctx.check_or_raise(to_z3(a.shape[d]) == 1, "ValueError", "cannot select an axis to squeeze out which has size not equal to one")
            drop.append(d)
    keep = [d for d in range(nd) if d not in drop]
    e, i = a.snapshot()

    def full(idx):
        out = [0] * nd
        for j, d in enumerate(keep):
            out[d] = idx[j]
        return tuple(out)
    if not keep:
        return e(full(()))
    return NDArray([a.shape[d] for d in keep], lambda idx: e(full(idx)), a.dtype, init=lambda idx: i(full(idx)))


@method("NDArray", "squeeze")
def nd_squeeze(ex, self, args, kw):
    return np_squeeze(ex, [self] + list(args), kw)


@lib(NP, "flip")
def np_flip(ex, args, kw):
    v = args[0]
    if isinstance(v, Vec):
        return Vec(list(reversed(v.items)), v.kind)
    if isinstance(v, (list, tuple)):
        return Vec(list(reversed(v)), "array")
    raise Unsupported("np.flip of a symbolic-length array")


@lib(NP, "sort")
def np_sort(ex, args, kw):
    """np.sort of a short concrete-length vector: the keys taken in argsort order"""
    v = args[0]
    order = np_argsort(ex, [v], {})
    items = v.items if isinstance(v, Vec) else (list(v) if isinstance(v, (list, tuple)) else [as_ndarray(v).elem((i,)) for i in range(len(order.items))])
    if all(not is_z3(i) for i in order.items):
        return Vec([items[i] for i in order.items], "array")
    out = []
    for p in order.items:
        e = items[-1]
        for i in range(len(items) - 2, -1, -1):
            e = zite(to_z3(p) == i, items[i], e)
        out.append(e)
    return Vec(out, "array")


@lib(NP, "allclose")
def np_allclose(ex, args, kw):
    """np.allclose(a, b): every element np.isclose (shapes must broadcast; differing extents raise ValueError)"""
    a, b = args[0], args[1]
    c = np_isclose(ex, [a, b], kw)
    if _is_scalar(c) or isinstance(c, bool):
        return c
    arr = as_ndarray(c)
    e, _ = arr.snapshot()
    if all(isinstance(s, int) for s in arr.shape):
        import itertools
        return zand(*[e(idx) for idx in itertools.product(*[range(s) for s in arr.shape])])
    qs = [z3.Int(f"ac{d}!{ex.ctx.path_id}_{len(ex.ctx.pc)}_{len(ex.ctx.assumptions)}") for d in range(arr.ndim)]
    inb = zand(*[zand(q >= 0, q < to_z3(n)) for q, n in zip(qs, arr.shape)])
    body = to_z3(e(tuple(qs)))
    from .parents import _triggers
    trig = [t for t in _triggers(body, qs[0]) if all(any(a_.eq(q) for a_ in t.children()) for q in qs)]
    return z3.ForAll(qs, z3.Implies(inb, body), patterns=trig[:1]) if trig else z3.ForAll(qs, z3.Implies(inb, body))
