"""Contracts of the FAB-header helpers in amr_kitchen/utils.py over abstract header lines.

A binary file's line at (F,pos) is described by ghost functions hdr_ok / hdr_lo / hdr_hi / hdr_nc / hdr_canon
(libfile).  The contracts below say what the four parsers and the formatter do in those terms.  They are justified
by separate obligations (props/parsers.py): the real bodies executed on the canonical header text (segment strings)
return exactly these values, and the four parsers share one token-processing core."""
import z3
from .vals import *  # noqa
from .libfile import Line, hdrlen, f_hdrlen
from .exec import typetag


class CanonHdr:
    """bytes value == hdrline(lo, hi, nc) (what header_from_indices returns)."""

    def __init__(self, lo, hi, nc, text=False):
        self.lo, self.hi, self.nc = list(lo), list(hi), nc
        self.text = text          # str flavour (decoded) or bytes flavour

    def length(self):
        return hdrlen(self.lo, self.hi, self.nc)

    def length_of(self, ex):
        return self.length()        # len(header_from_indices(...)): the length of the canonical header line

    def as_bytes_piece(self, ex, text):
        if text != self.text:
            raise SymRaise("TypeError", "write() argument str/bytes mismatch")
        return ("hdr", (tuple(self.lo), tuple(self.hi), self.nc), None), self.length()

    def __repr__(self):
        return f"CanonHdr({self.lo},{self.hi},{self.nc})"


def _register():
    from .exec import method
    from .strings import SStr, IntAtom

    @method("CanonHdr", "encode")
    def ch_encode(ex, self, args, kw):
        codec_arg(args, kw)
        if not self.text:
            raise SymRaise("AttributeError", "'bytes' object has no attribute 'encode'")
        return CanonHdr(self.lo, self.hi, self.nc, text=False)

    @method("CanonHdr", "decode")
    def ch_decode(ex, self, args, kw):
        codec_arg(args, kw)
        if self.text:
            raise SymRaise("AttributeError", "'str' object has no attribute 'decode'")
        return CanonHdr(self.lo, self.hi, self.nc, text=True)

    def int_nl(v):
        """f'{n}\\n' -> n (python int or z3 Int) or None."""
        if isinstance(v, str):
            if v.endswith("\n") and v[:-1].isdigit():
                return int(v[:-1])
            return None
        if isinstance(v, SStr) and len(v.segs) == 2 and isinstance(v.segs[0], IntAtom) and v.segs[1] == "\n":
            return v.segs[0].term
        return None

    @method("Line", "replace")
    def line_replace(ex, self, args, kw):
        """header.replace(f'{a}\\n', f'{b}\\n') on a CANONICAL header line whose component count is a: the text
        hdrline(lo,hi,a) has exactly one newline, preceded by ' ' and the digits of a (string-level lemma proved on
        segment strings in props/parsers.py), so the result is hdrline(lo,hi,b)."""
        if not self.text:
            raise SymRaise("TypeError", "a bytes-like object is required, not 'str'")
        a, b = int_nl(args[0]), int_nl(args[1])
        if a is None or b is None:
            raise Unsupported("replace on a header line with a pattern other than f'{int}\\n'")
        nd = ndims(ex)
        if ex.ctx.branch(zand(self.ok(), self.canon(), self.nc() == to_z3(a))):
            return CanonHdr([self.lo(d) for d in range(nd)], [self.hi(d) for d in range(nd)], b, text=True)
        raise Unsupported("replace on a header line that is not canonical or whose count differs from the pattern")


def ndims(ex):
    nd = ex.ctx.ghost.get("ndims")
    if nd is None:
        raise Unsupported("task did not fix the dimensionality of FAB headers")
    return nd


def _parse(ex, h, need_text):
    if not isinstance(h, Line):
        raise Unsupported(f"header parser applied to {typetag(h)}")
    if need_text and not h.text:
        # bytes given to a str parser: '.split()' and int() work on bytes, start.split('(') raises TypeError
        if ex.ctx.branch(h.ok()):
            raise SymRaise("TypeError", "a bytes-like object is required, not 'str'")
        raise SymRaise("ValueError", "not enough values to unpack")
    if not ex.ctx.branch(h.ok()):
        raise SymRaise("ValueError", "line is not a FAB header")
    nd = ndims(ex)
    lo = [h.lo(d) for d in range(nd)]
    hi = [h.hi(d) for d in range(nd)]
    return lo, hi, h.nc()


def c_shape_from_header(ex, args, kw):
    lo, hi, nc = _parse(ex, args[0], True)
    return Vec([simp(b - a + 1) for a, b in zip(lo, hi)] + [nc])


def c_indices_from_header(ex, args, kw):
    lo, hi, nc = _parse(ex, args[0], True)
    return [Vec(lo), Vec(hi)]


def c_indexes_and_shape_from_header(ex, args, kw):
    h = args[0]
    if isinstance(h, Line) and h.text:
        raise SymRaise("AttributeError", "'str' object has no attribute 'decode'")
    from .libfile import line_decode
    h = line_decode(ex, h, [], {})
    lo, hi, nc = _parse(ex, h, True)
    return [[Vec(lo), Vec(hi)], tuple([simp(b - a + 1) for a, b in zip(lo, hi)] + [nc])]


def c_shapes_from_header_vardims(ex, args, kw):
    h, nd_arg = args[0], args[1]
    if isinstance(h, Line) and h.text:
        raise SymRaise("AttributeError", "'str' object has no attribute 'decode'")
    from .libfile import line_decode
    h = line_decode(ex, h, [], {})
    lo, hi, nc = _parse(ex, h, True)
    if nd_arg > len(lo):
        raise SymRaise("IndexError", "index out of bounds")
    return [simp(b - a + 1) for a, b in list(zip(lo, hi))[:nd_arg]] + [nc]


def c_header_from_indices(ex, args, kw):
    start, stop, nf = args[0], args[1], args[2]
    lo = start.items if isinstance(start, Vec) else list(ex.as_iterable(start))
    hi = stop.items if isinstance(stop, Vec) else list(ex.as_iterable(stop))
    if len(lo) != len(hi):
        # ','.join(["0" for _ in stop]) follows stop; lengths differing give a header no parser accepts: unsupported
        raise Unsupported("header_from_indices with start/stop of different lengths")
    return CanonHdr(lo, hi, nf)


def line_eq(ex, a, b):
    """== between header values (bytes)."""
    if isinstance(a, CanonHdr) and isinstance(b, Line):
        a, b = b, a
    if isinstance(a, Line) and isinstance(b, CanonHdr):
        if a.text != b.text:
            return False          # str == bytes
        nd = ndims(ex)
        if len(b.lo) != nd:
            return zand(False)
        return zand(a.ok(), a.canon(), a.nc() == to_z3(b.nc),
                    *[a.lo(d) == to_z3(b.lo[d]) for d in range(nd)],
                    *[a.hi(d) == to_z3(b.hi[d]) for d in range(nd)])
    if isinstance(a, Line) and isinstance(b, Line):
        if a.text != b.text:
            return False
        if a.F is b.F and a.pos is b.pos:
            return True
        raise Unsupported("equality of two file lines")
    if isinstance(a, CanonHdr) and isinstance(b, CanonHdr):
        if len(a.lo) != len(b.lo) or a.text != b.text:
            return False
        return zand(to_z3(a.nc) == to_z3(b.nc), *[to_z3(x) == to_z3(y) for x, y in zip(a.lo + a.hi, b.lo + b.hi)])
    raise Unsupported(f"header equality {typetag(a)} == {typetag(b)}")


def canon_axioms(ex, line):
    """Facts about a canonical header line (assumed by tasks for OnDisk files)."""
    nd = ndims(ex)
    lo = [line.lo(d) for d in range(nd)]
    hi = [line.hi(d) for d in range(nd)]
    return [line.ok(), line.canon(), line.length() == hdrlen(lo, hi, line.nc()), line.length() > 0]


UTILS = "amr_kitchen.utils."
HEADER_CONTRACTS = {
    UTILS + "shape_from_header": c_shape_from_header,
    UTILS + "indices_from_header": c_indices_from_header,
    UTILS + "indexes_and_shape_from_header": c_indexes_and_shape_from_header,
    UTILS + "shapes_from_header_vardims": c_shapes_from_header_vardims,
    UTILS + "header_from_indices": c_header_from_indices,
}


_register()
