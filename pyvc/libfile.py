"""File-system model (DESIGN 2.5 'files'): binary FAB files read through ghost functions over (file id, position),
append-only written files, text files as lists of symbolic lines."""
import z3
from .vals import *  # noqa
from .exec import lib, method, attr, builtin, LIBS, Const

I = z3.IntSort()
R = z3.RealSort()
B = z3.BoolSort()

# ghost functions describing the content of binary files: uninterpreted, i.e. ARBITRARY content unless a task
# constrains them (that is how 'any directory, well-formed or damaged' is quantified over)
f_size = z3.Function("size", I, I)                    # size(file)
f_f64 = z3.Function("f64", I, I, R)                   # float64 stored at byte position
f_linelen = z3.Function("linelen", I, I, I)           # bytes of the line starting at pos (incl. '\n'); 0 at EOF
f_hok = z3.Function("hdr_ok", I, I, B)                # the line at pos parses as a FAB header of the task's ndims
f_hlo = z3.Function("hdr_lo", I, I, I, I)             # (file,pos,dim)
f_hhi = z3.Function("hdr_hi", I, I, I, I)
f_hnc = z3.Function("hdr_nc", I, I, I)
f_canon = z3.Function("hdr_canon", I, I, B)           # the line at pos is byte-for-byte hdrline(lo,hi,nc)
f_exists = z3.Function("file_exists", I, B)
f_hdrlen = z3.Function("hdrlen", *([I] * 7 + [I]))    # len(hdrline(lo0..2,hi0..2,nc)) (2-D: third pair = 0)


def hdrlen(lo, hi, nc):
    lo = list(lo) + [0] * (3 - len(lo))
    hi = list(hi) + [0] * (3 - len(hi))
    return f_hdrlen(*[to_z3(x) for x in lo + hi + [nc]])


class BytesVal:
    """bytes produced by the program: list of pieces ('ser', NDArray snapshot, order) | ('text', SStr/str)
    | ('line', Line)"""

    def __init__(self, pieces):
        self.pieces = list(pieces)

    def nbytes(self):
        n = 0
        for p in self.pieces:
            if p[0] == "ser":
                n = n + 8 * p[1].size()
            elif p[0] == "line":
                n = n + p[1].length()
            else:
                from .strings import slen
                n = n + slen(p[1])
        return n


class Line:
    """The line read at (file, pos) of a binary file; `text` says whether it has been decoded to str."""

    def __init__(self, F, pos, text=False, fobj=None):
        self.F, self.pos, self.text = F, pos, text
        self.fobj = fobj

    def length(self):
        return f_linelen(self.F, self.pos)

    def ok(self):
        return f_hok(self.F, self.pos)

    def lo(self, d):
        return f_hlo(self.F, self.pos, d)

    def hi(self, d):
        return f_hhi(self.F, self.pos, d)

    def nc(self):
        return f_hnc(self.F, self.pos)

    def canon(self):
        return f_canon(self.F, self.pos)

    def __repr__(self):
        return f"Line({self.F},{self.pos})"


@method("Line", "decode")
def line_decode(ex, self, args, kw):
    # bytes.decode('ascii') raises UnicodeDecodeError on non-ASCII bytes; a line that parses as a header is
    # ASCII; whether an arbitrary line is ASCII is a ghost predicate
    enc = codec_arg(args, kw)
    if self.text:
        raise SymRaise("AttributeError", "'str' object has no attribute 'decode'")
    isascii = z3.Function("line_ascii", I, I, B)(self.F, self.pos)
    ex.ctx.assume(z3.Implies(self.ok(), isascii))
    ex.ctx.assume(z3.Implies(self.length() == 0, isascii))
    if enc == "ascii":
        ex.ctx.check_or_raise(isascii, "UnicodeDecodeError", "non-ascii header line")
    else:
        # utf-8: every ASCII line is valid UTF-8 (and decodes to the same text); other lines may or may not be
        isutf8 = z3.Function("line_utf8", I, I, B)(self.F, self.pos)
        ex.ctx.assume(z3.Implies(isascii, isutf8))
        ex.ctx.check_or_raise(isutf8, "UnicodeDecodeError", "header line is not valid utf-8")
    return Line(self.F, self.pos, True, self.fobj)


@method("Line", "encode")
def line_encode(ex, self, args, kw):
    codec_arg(args, kw)
    if not self.text:
        raise SymRaise("AttributeError", "'bytes' object has no attribute 'encode'")
    return Line(self.F, self.pos, False, self.fobj)


class RFile:
    """A file opened 'rb'."""

    def __init__(self, path, F):
        self.path, self.F = path, F
        self.pos = 0
        self.closed = False

    def _enter(self, ex):
        return self

    def _exit(self, ex):
        self.closed = True

    def _chk(self):
        if self.closed:
            raise SymRaise("ValueError", "I/O operation on closed file")

    def fromfile(self, ex, count):
        self._chk()
        size = f_size(self.F)
        pos = self.pos
        avail = z3.If(size - pos > 0, (size - pos) / 8, 0)
        c3 = to_z3(count)
        n = z3.If(c3 < 0, avail, z3.If(c3 <= avail, c3, avail))
        n = ex.ctx.define(n, "nread")
        F = self.F
        arr = NDArray([n], lambda idx, pos=pos: f_f64(F, to_z3(pos) + 8 * to_z3(idx[0])), "f8")
        arr.from_file = (F, pos)
        self.pos = simp(to_z3(pos) + 8 * n)
        ex.ctx.note("read", self.path, pos, n)
        return arr


@method("RFile", "seek")
def rf_seek(ex, self, args, kw):
    self._chk()
    off = args[0]
    whence = args[1] if len(args) > 1 else kw.get("whence", 0)
    from .ops import b2i
    off = b2i(off)
    if whence == 0:
        new = off
    elif whence == 1:
        new = to_z3(self.pos) + to_z3(off)
    elif whence == 2:
        new = f_size(self.F) + to_z3(off)
    else:
        raise Unsupported("seek whence")
    if is_z3(new):
        ex.ctx.check_or_raise(to_z3(new) >= 0, "OSError", "Invalid argument (negative seek position)")
        new = simp(new)
    elif new < 0:
        raise SymRaise("OSError", "negative seek position")
    self.pos = new
    return new


@method("RFile", "tell")
def rf_tell(ex, self, args, kw):
    self._chk()
    return self.pos


@method("RFile", "readline")
def rf_readline(ex, self, args, kw):
    self._chk()
    F, pos = self.F, to_z3(self.pos)
    ln = f_linelen(F, pos)
    size = f_size(F)
    # axiom instances of the file contract
    ex.ctx.assume(size >= 0)
    ex.ctx.assume(ln >= 0)
    ex.ctx.assume((ln == 0) == (pos >= size))
    ex.ctx.assume(z3.Implies(pos < size, pos + ln <= size))
    ex.ctx.assume(z3.Implies(ln == 0, z3.Not(f_hok(F, pos))))     # an empty line is not a FAB header
    line = Line(F, pos, False, self)
    self.pos = simp(pos + ln)
    return line


@method("RFile", "close")
def rf_close(ex, self, args, kw):
    self.closed = True


class WFile:
    """A file opened 'wb' / 'w': append-only (ghost).  Content = a prefix of `nrec` records (symbolic count; record j
    is the list of pieces rec(j), starting at byte recstart(j)) followed by a concrete list of appended pieces."""

    def __init__(self, path, F, text=False):
        self.path, self.F, self.text = path, F, text
        self.nrec = 0
        self.rec = None                  # j -> list of pieces
        self.recstart = None             # j -> byte offset of the record
        self.suffix = []                 # [(piece, start)]
        self.pos = 0
        self.closed = False

    def _enter(self, ex):
        return self

    def _exit(self, ex):
        self.closed = True

    def append(self, piece, nbytes):
        self.suffix.append((piece, self.pos))
        pos = self.pos
        self.pos = simp(to_z3(pos) + to_z3(nbytes)) if (is_z3(pos) or is_z3(nbytes)) else pos + nbytes


@method("WFile", "tell")
def wf_tell(ex, self, args, kw):
    if self.closed:
        raise SymRaise("ValueError", "I/O operation on closed file")
    return self.pos


@method("WFile", "write")
def wf_write(ex, self, args, kw):
    if self.closed:
        raise SymRaise("ValueError", "I/O operation on closed file")
    v = args[0]
    from .strings import SStr, slen
    ex.ctx.note("write", self.path)
    fault = ex.ctx.ghost.get("fault_hook")
    if fault is not None:
        fault(ex, "write", self.path)
    if isinstance(v, BytesVal):
        if self.text:
            raise SymRaise("TypeError", "write() argument must be str, not bytes")
        for p in v.pieces:
            if p[0] == "ser":
                self.append(p, 8 * p[1].size())
            elif p[0] == "line":
                self.append(p, p[1].length())
            else:
                self.append(p, slen(p[1]))
        return v.nbytes()
    if isinstance(v, Line):
        if v.text != self.text:
            raise SymRaise("TypeError", "write() str/bytes mismatch")
        self.append(("line", v), v.length())
        return v.length()
    if isinstance(v, (str, SStr)):
        if not self.text:
            raise SymRaise("TypeError", "a bytes-like object is required, not 'str'")
        self.append(("text", v), slen(v))
        return slen(v)
    if isinstance(v, bytes):
        if self.text:
            raise SymRaise("TypeError", "write() argument must be str, not bytes")
        self.append(("text", v.decode("latin1")), len(v))
        return len(v)
    if hasattr(v, "as_bytes_piece"):
        piece, n = v.as_bytes_piece(ex, self.text)
        self.append(piece, n)
        return n
    raise Unsupported(f"write of {type(v).__name__}")


@method("WFile", "close")
def wf_close(ex, self, args, kw):
    self.closed = True


def file_id(ex, path):
    """z3 Int identity of the file a path value denotes."""
    if isinstance(path, Opaque) and getattr(path, "sym", None) is not None:
        return path.sym
    fs = ex.ctx.ghost.get("fs")
    if fs is not None:
        return fs.file_id(ex, path)
    raise Unsupported(f"open() of a path the task does not model: {path!r}")


@builtin("open")
def bi_open(ex, args, kw):
    path = args[0]
    mode = args[1] if len(args) > 1 else kw.get("mode", "r")
    fs = ex.ctx.ghost.get("fs")
    if fs is not None and hasattr(fs, "open"):
        r = fs.open(ex, path, mode)
        if r is not None:
            return r
    if isinstance(path, (dict, list, tuple, int, float)) or path is None:
        raise SymRaise("TypeError", f"expected str, bytes or os.PathLike object, not {type(path).__name__}")
    F = file_id(ex, path)
    if mode == "rb":
        ex.ctx.check_or_raise(f_exists(F), "FileNotFoundError", str(path))
        ex.ctx.note("open-r", path)
        ex.ctx.assume(f_size(F) >= 0)
        return RFile(path, F)
    if mode in ("wb", "w"):
        ex.ctx.note("open-w", path)
        fault = ex.ctx.ghost.get("fault_hook")
        if fault is not None:
            fault(ex, "open-w", path)
        wf = WFile(path, F, text=(mode == "w"))
        ex.ctx.ghost.setdefault("wfiles", []).append(wf)
        return wf
    raise Unsupported(f"open mode {mode}")


class TextRFile:
    """A text file opened for reading whose content is a concrete list of lines (python str or segment strings)."""

    def __init__(self, path, lines):
        self.path = path
        self.lines = list(lines)
        self.i = 0
        self.closed = False

    def _enter(self, ex):
        return self

    def _exit(self, ex):
        self.closed = True

    def _iterable(self, ex):
        rest = self.lines[self.i:]
        self.i = len(self.lines)
        return rest


@method("TextRFile", "readline")
def tr_readline(ex, self, args, kw):
    if self.closed:
        raise SymRaise("ValueError", "I/O operation on closed file")
    if self.i >= len(self.lines):
        return ""
    ln = self.lines[self.i]
    self.i += 1
    return ln


@method("TextRFile", "close")
def tr_close(ex, self, args, kw):
    self.closed = True


def text_of_wfile(wf):
    """Written text pieces -> list of lines (each with its newline), as the same file would be read back (T-FS)."""
    from .strings import SStr, norm, back
    segs = []
    for piece, _start in wf.suffix:
        if piece[0] != "text":
            raise Unsupported("binary piece in a text file")
        segs.extend(norm(piece[1]).segs)
    lines, cur = [], []
    for sg in segs:
        if isinstance(sg, str):
            parts = sg.split("\n")
            for k, pc in enumerate(parts):
                if k > 0:
                    cur.append("\n")
                    lines.append(back(SStr(cur)))
                    cur = []
                if pc:
                    cur.append(pc)
        else:
            if not sg.forbidden("\n"):
                raise Unsupported("an atom that may contain a newline inside a text file")
            cur.append(sg)
    if cur:
        lines.append(back(SStr(cur)))
    return lines


class TextFS:
    """file-system hook for tasks working on text headers: path text -> lines; written files are recorded."""

    def __init__(self):
        self.files = {}       # repr(path) -> list of lines
        self.written = {}     # repr(path) -> WFile
        self.opened = []

    @staticmethod
    def key(ex, path):
        from .libos import to_path, os_getcwd, join2
        p = to_path(ex, path)
        if not p.absolute:
            p = join2(ex, os_getcwd(ex, [], {}), p)      # relative paths denote files under the working directory
        return repr(p)

    def add(self, ex, path, lines):
        self.files[self.key(ex, path)] = list(lines)

    def open(self, ex, path, mode):
        k = self.key(ex, path)
        self.opened.append((k, mode))
        if mode in ("r", "rt"):
            if k in self.written and k not in self.files:
                return TextRFile(path, text_of_wfile(self.written[k]))
            if k not in self.files:
                raise SymRaise("FileNotFoundError", k)
            return TextRFile(path, self.files[k])
        if mode in ("w", "wt"):
            wf = WFile(path, z3.Int(f"tf{len(self.opened)}"), text=True)
            self.written[k] = wf
            ex.ctx.ghost.setdefault("wfiles", []).append(wf)
            return wf
        return None


@lib("os.path", "isfile")
def os_path_isfile(ex, args, kw):
    """os.path.isfile on the text file system of a header task: true exactly for the files the task installed or the code under
    contract wrote (a directory or an absent name is not a file).  Without a text file system the question is about a binary
    file of unconstrained content: unsupported (the existence predicate belongs to the open() model of that file)."""
    fs = ex.ctx.ghost.get("fs")
    if fs is None:
        raise Unsupported("os.path.isfile outside a text file system")
    k = fs.key(ex, args[0])
    return k in fs.files or k in fs.written
