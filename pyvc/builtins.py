"""Python builtins over the symbolic value domain."""
import z3
from .vals import *  # noqa
from .exec import builtin, lib, method, attr, BUILTINS, LIBS, Const, typetag, LibFn, ExcClass, ClassRef, Closure, ModRef
from .ops import b2i, _is_scalar, as_ndarray, compare
from .strings import SStr, str_to_number, slen, norm

BUILTINS["True"] = Const(True)
BUILTINS["False"] = Const(False)
BUILTINS["None"] = Const(None)
BUILTINS["Ellipsis"] = Const(Ellipsis)


@builtin("len")
def bi_len(ex, args, kw):
    v = args[0]
    if hasattr(v, "length_of"):
        return v.length_of(ex)
    if isinstance(v, (list, tuple, dict, str, bytes, set, range)):
        return len(v)
    if isinstance(v, Vec):
        return len(v.items)
    if isinstance(v, SymSeq):
        return v.length
    if isinstance(v, NDArray):
        if v.ndim == 0:
            raise SymRaise("TypeError", "len() of unsized object")
        return v.shape[0]
    if isinstance(v, SStr):
        return slen(v)
    if hasattr(v, "length_of"):
        return v.length_of(ex)
    if isinstance(v, Record) and v.cls and ex.repo.classdef(v.cls) and ex.repo.method(v.cls, "__len__"):
        return ex.call_qual(f"{v.cls}.__len__", [], {}, self_obj=v)
    if isinstance(v, (int, float, bool)) or v is None or is_z3(v) or isinstance(v, Record):
        raise SymRaise("TypeError", f"object of type {typetag(v)} has no len()")
    # a value class of the engine or of a contract (a header text by contract, an opaque object ...) whose length is not modelled:
    # a gap of the model, not a TypeError of the program
    raise Unsupported(f"len() of a {typetag(v)} (not modelled)")


@builtin("range")
def bi_range(ex, args, kw):
    args = [b2i(a) for a in args]
    if all(isinstance(a, int) or as_const(a) is not None for a in args):
        return list(range(*[a if isinstance(a, int) else as_const(a) for a in args]))
    if len(args) == 1:
        return SymSeq(zmax(args[0], 0), lambda i: i, "range")
    if len(args) == 2:
        a, b = args
        return SymSeq(zmax(b - a, 0), lambda i, a=a: a + i, "range")
    a, b, st = args
    stc = as_const(st) if is_z3(st) else st
    if isinstance(stc, int) and stc == 0:
        raise SymRaise("ValueError", "range() arg 3 must not be zero")
    if is_z3(st):
        ex.ctx.check_or_raise(to_z3(st) != 0, "ValueError", "range() arg 3 must not be zero")
    return SymSeq(simp(to_z3(slice_len(a, b, st))), lambda i, a=a, st=st: a + i * st, "range")


def _seqlen(ex, s):
    return len(s) if isinstance(s, list) else s.length


@builtin("zip")
def bi_zip(ex, args, kw):
    its = [ex.as_iterable(a) for a in args]
    if all(isinstance(i, list) for i in its):
        return [tuple(x) for x in zip(*its)]
    # at least one symbolic-length operand
    n = None
    for i in its:
        ln = _seqlen(ex, i)
        n = ln if n is None else zmin(n, ln)

    def get(k, its=its):
        out = []
        for i in its:
            if isinstance(i, list):
                from .ops import _list_getitem
                out.append(_list_getitem(ex, i, k))
            else:
                out.append(i.get(k, ex))
        return tuple(out)
    return SymSeq(simp(n) if is_z3(n) else n, get, "zip")


@builtin("enumerate")
def bi_enumerate(ex, args, kw):
    it = ex.as_iterable(args[0])
    start = args[1] if len(args) > 1 else kw.get("start", 0)
    if isinstance(it, list):
        return [(start + i, x) for i, x in enumerate(it)]
    return SymSeq(it.length, lambda k: (start + k, it.get(k, ex)), "enumerate")


@builtin("int")
def bi_int(ex, args, kw):
    if not args:
        return 0
    v = args[0]
    if isinstance(v, bool):
        return int(v)
    if isinstance(v, int) or is_sym_int(v):
        return v
    if isinstance(v, float):
        return int(v)
    if is_sym_bool(v):
        return z3.If(v, 1, 0)
    if is_sym_real(v):
        # truncation toward zero
        return z3.If(v >= 0, z3.ToInt(v), -z3.ToInt(-v))
    if isinstance(v, (str, SStr, bytes)):
        return str_to_number(ex, v, "int")
    if isinstance(v, NDArray) and v.ndim == 0:
        return bi_int(ex, [v.elem(())], kw)
    raise program_type_error(v, f"int() argument must be a string or a number, not {typetag(v)}")


@builtin("float")
def bi_float(ex, args, kw):
    v = args[0]
    if isinstance(v, (int, float)) and not isinstance(v, bool):
        return float(v)
    if isinstance(v, z3.ArithRef):
        return to_real(v)
    if isinstance(v, (str, SStr, bytes)):
        return str_to_number(ex, v, "f8")
    raise program_type_error(v, f"float() argument must be a string or a number, not {typetag(v)}")


@builtin("bool")
def bi_bool(ex, args, kw):
    return ex.truth(args[0]) if args else False


TYPE_TAGS = {
    "int": lambda v: (isinstance(v, int) or is_sym_int(v) or isinstance(v, bool) or is_sym_bool(v)),
    "float": lambda v: isinstance(v, float) or is_sym_real(v),
    "str": lambda v: isinstance(v, (str,)) or (isinstance(v, SStr) and not v.isbytes) or
    (isinstance(v, Opaque) and v.kind in ("name", "path", "str")) or (type(v).__name__ == "Line" and v.text),
    "bytes": lambda v: isinstance(v, bytes) or (isinstance(v, SStr) and v.isbytes) or
    (type(v).__name__ == "Line" and not v.text),
    "list": lambda v: isinstance(v, list) or (isinstance(v, Vec) and v.kind == "list") or
    (isinstance(v, SymSeq) and v.kind == "list"),
    "tuple": lambda v: isinstance(v, tuple) or (isinstance(v, Vec) and v.kind == "tuple"),
    "dict": lambda v: isinstance(v, dict),
    "slice": lambda v: isinstance(v, (SSlice, slice)),
    "bool": lambda v: isinstance(v, bool) or is_sym_bool(v),
    "object": lambda v: True,
}


def isinstance_one(ex, v, t):
    if isinstance(t, LibFn) and t.mod == "builtins" and t.attr in TYPE_TAGS:
        return TYPE_TAGS[t.attr](v)
    if isinstance(t, LibFn) and t.mod == "numpy" and t.attr == "ndarray":
        return isinstance(v, NDArray) or (isinstance(v, Vec) and v.kind == "array") or \
            (isinstance(v, SymSeq) and v.kind == "ndarray")
    if isinstance(t, ExcClass):
        return hasattr(v, "etype") and exc_isinstance(v.etype, t.name)
    if isinstance(t, ClassRef):
        return isinstance(v, Record) and v.cls is not None and t.qual in ex.repo.mro(v.cls)
    if isinstance(t, LibFn):
        return False
    if type(t).__name__ == "DType":
        return False        # numpy scalar types: the modelled scalars are python ints / floats / bools
    raise Unsupported(f"isinstance against {t!r}")


@builtin("isinstance")
def bi_isinstance(ex, args, kw):
    v, t = args
    ts = t if isinstance(t, (tuple, list)) else [t]
    return any(isinstance_one(ex, v, x) for x in ts)


@builtin("type")
def bi_type(ex, args, kw):
    v = args[0]
    for n in ("bool", "int", "float", "str", "bytes", "list", "tuple", "dict", "slice"):
        if TYPE_TAGS[n](v):
            return LibFn("builtins", n)
    if v is None:
        return LibFn("builtins", "NoneType")
    if hasattr(v, "etype"):
        return ExcClass(v.etype)
    raise Unsupported(f"type() of {typetag(v)}")


@builtin("object")
def bi_object(ex, args, kw):
    return Record("object")


@builtin("bytes")
def bi_bytes(ex, args, kw):
    raise Unsupported("bytes()")


@builtin("set")
def bi_set(ex, args, kw):
    items = ex.as_iterable(args[0]) if args else []
    if isinstance(items, list) and all(isinstance(x, (int, str)) for x in items):
        return set(items)
    raise Unsupported("set() of symbolic values")


@builtin("list")
def bi_list(ex, args, kw):
    if not args:
        return []
    v = ex.as_iterable(args[0])
    if isinstance(v, list):
        return list(v)
    return SymSeq(v.n0, v.get0, "list", v.suffix)


@builtin("tuple")
def bi_tuple(ex, args, kw):
    if not args:
        return ()
    v = ex.as_iterable(args[0])
    if isinstance(v, list):
        return tuple(v)
    raise Unsupported("tuple() of a symbolic-length sequence")


@builtin("dict")
def bi_dict(ex, args, kw):
    d = {}
    if args:
        src = args[0]
        if isinstance(src, dict):
            d.update(src)
        else:
            for k, v in ex.as_iterable(src):
                d[ex.hashable(k)] = v
    d.update(kw)
    return d


@builtin("slice")
def bi_slice(ex, args, kw):
    if len(args) == 1:
        return SSlice(None, args[0], None)
    return SSlice(*(list(args) + [None] * (3 - len(args))))


@builtin("print")
def bi_print(ex, args, kw):
    ex.print_log.append((ex.ctx.cur_lineno, args))
    return None


@builtin("abs")
def bi_abs(ex, args, kw):
    v = b2i(args[0])
    if is_z3(v):
        return z3.If(v >= 0, v, -v)
    return abs(v)


def _minmax(kind):
    def f(ex, args, kw):
        items = ex.as_iterable(args[0]) if len(args) == 1 else list(args)
        if not isinstance(items, list):
            raise Unsupported(f"{kind}() of a symbolic-length sequence")
        if "key" in kw:
            raise Unsupported(f"{kind}() with a key function")
        if not items:
            if "default" in kw and len(args) == 1:
                return kw["default"]
            raise SymRaise("ValueError", f"{kind}() arg is an empty sequence")
        kw.get("default")
        r = b2i(items[0])
        for x in items[1:]:
            x = b2i(x)
            if not is_z3(r) and not is_z3(x):
                r = min(r, x) if kind == "min" else max(r, x)
            else:
                r = zmin(r, x) if kind == "min" else zmax(r, x)
        return r
    return f


BUILTINS["min"] = _minmax("min")
BUILTINS["max"] = _minmax("max")


@builtin("sum")
def bi_sum(ex, args, kw):
    items = ex.as_iterable(args[0])
    if not isinstance(items, list):
        raise Unsupported("sum() of a symbolic-length sequence")
    r = args[1] if len(args) > 1 else 0
    from .ops import binop
    for x in items:
        r = binop(ex, "Add", r, x)
    return r


@builtin("sorted")
def bi_sorted(ex, args, kw):
    items = ex.as_iterable(args[0])
    if isinstance(items, list) and all(isinstance(x, (int, float, str)) for x in items) and not kw:
        return sorted(items)
    raise Unsupported("sorted() of symbolic values")


@builtin("any")
def bi_any(ex, args, kw):
    items = ex.as_iterable(args[0])
    if not isinstance(items, list):
        raise Unsupported("any() of symbolic-length sequence")
    for x in items:
        if ex.truth(x):
            return True
    return False


@builtin("all")
def bi_all(ex, args, kw):
    items = ex.as_iterable(args[0])
    if not isinstance(items, list):
        raise Unsupported("all() of symbolic-length sequence")
    for x in items:
        if not ex.truth(x):
            return False
    return True


@builtin("map")
def bi_map(ex, args, kw):
    f = args[0]
    items = ex.as_iterable(args[1])
    if isinstance(items, list):
        return [ex.call_value(f, [x]) for x in items]
    from .pool import sym_map
    return sym_map(ex, f, items, ordered=True)


@builtin("callable")
def bi_callable(ex, args, kw):
    from .vals import FuncVal
    return isinstance(args[0], (FuncVal, LibFn, Closure, ClassRef))


@builtin("round")
def bi_round(ex, args, kw):
    raise Unsupported("round()")


@builtin("input")
def bi_input(ex, args, kw):
    return Opaque("stdin", "str")


@builtin("hasattr")
def bi_hasattr(ex, args, kw):
    o, n = args
    if isinstance(o, Record):
        return n in o.attrs or bool(o.cls and ex.repo.classdef(o.cls) and ex.repo.method(o.cls, n))
    raise Unsupported("hasattr")


# -- list / dict / tuple methods ---------------------------------------------------------------------


@method("list", "append")
def l_append(ex, self, args, kw):
    self.append(args[0])


@method("SymSeq", "append")
def ss_append(ex, self, args, kw):
    if self.kind != "list":
        raise SymRaise("AttributeError", "append")
    self.append(args[0])


@method("list", "extend")
def l_extend(ex, self, args, kw):
    items = ex.as_iterable(args[0])
    if not isinstance(items, list):
        raise Unsupported("extend by a symbolic-length sequence")
    self.extend(items)


@method("list", "sort")
def l_sort(ex, self, args, kw):
    if all(isinstance(x, str) for x in self):
        key = kw.get("key")
        if key is None:
            self.sort()
            return
        if isinstance(key, BoundMethodLike):
            pass
    raise Unsupported("list.sort of symbolic values")


class BoundMethodLike:
    pass


@method("list", "index")
def l_index(ex, self, args, kw):
    for i, x in enumerate(self):
        if ex.truth(compare(ex, "Eq", x, args[0])):
            return i
    raise SymRaise("ValueError", "x not in list")


@method("list", "copy")
def l_copy(ex, self, args, kw):
    return list(self)


@method("list", "pop")
def l_pop(ex, self, args, kw):
    if not self:
        raise SymRaise("IndexError", "pop from empty list")
    return self.pop(*args)


@method("dict", "keys")
def d_keys(ex, self, args, kw):
    return list(self.keys())


@method("dict", "values")
def d_values(ex, self, args, kw):
    return list(self.values())


@method("dict", "items")
def d_items(ex, self, args, kw):
    return [(k, v) for k, v in self.items()]


@method("dict", "get")
def d_get(ex, self, args, kw):
    k = ex.hashable(args[0]) if not isinstance(args[0], Opaque) else args[0]
    return self.get(k, args[1] if len(args) > 1 else None)


@method("dict", "update")
def d_update(ex, self, args, kw):
    self.update(args[0])


@method(["SSlice", "slice"], "indices")
def sl_indices(ex, self, args, kw):
    if isinstance(self, slice):
        self = SSlice(self.start, self.stop, self.step)
    n = args[0]
    step = 1 if self.step is None else self.step
    if is_z3(step):
        ex.ctx.check_or_raise(to_z3(step) != 0, "ValueError", "slice step cannot be zero")
    elif step == 0:
        raise SymRaise("ValueError", "slice step cannot be zero")
    return slice_indices(self, n)


@attr(["SSlice"], "start")
def sl_start(ex, self):
    return self.start


@attr(["SSlice"], "stop")
def sl_stop(ex, self):
    return self.stop


@attr(["SSlice"], "step")
def sl_step(ex, self):
    return self.step


@method("SymRaise", "__str__")
def exc_str(ex, self, args, kw):
    return str(self.msg)


# -- misc libs ------------------------------------------------------------------------------------------


@lib("time", "time")
def time_time(ex, args, kw):
    return ex.ctx.fresh("now", "real")


@lib("traceback", "format_exc")
def tb_format_exc(ex, args, kw):
    return "traceback"


@lib("tqdm", "tqdm")
def tqdm_tqdm(ex, args, kw):
    if args:
        return args[0]
    return Record("tqdm")


@method("Record:tqdm", "update")
def tqdm_update(ex, self, args, kw):
    for a in args:      # the increment of a progress bar: read, no effect on the program
        pass
    return None


@lib("sys", "exit")
def sys_exit(ex, args, kw):
    raise SymRaise("SystemExit", args[0] if args else None)


# ---------------------------------------------------------------------------------------------------------
# iterators (x.__iter__(), it.__next__(), iter(), next())


def _seq_len(seq):
    return len(seq) if isinstance(seq, (list, tuple)) else seq.length


@method(["list", "tuple", "SymSeq"], "__iter__")
def seq_iter(ex, self, args, kw):
    return SeqIter(self, 0)


@method("SeqIter", "__iter__")
def iter_iter(ex, self, args, kw):
    return self


@method("SeqIter", "__next__")
def iter_next(ex, self, args, kw):
    n = _seq_len(self.seq)
    if isinstance(n, int) and isinstance(self.pos, int):
        if self.pos >= n:
            raise SymRaise("StopIteration", "")
        v = self.seq[self.pos]
        self.pos += 1
        return v
    if not ex.ctx.branch(to_z3(self.pos) < to_z3(n)):
        raise SymRaise("StopIteration", "")
    v = self.seq[self.pos] if isinstance(self.seq, (list, tuple)) else self.seq.get(self.pos, ex)
    self.pos = simp(to_z3(self.pos) + 1)
    return v


@builtin("iter")
def bi_iter(ex, args, kw):
    v = args[0]
    if isinstance(v, SeqIter):
        return v
    it = ex.as_iterable(v)
    return SeqIter(it, 0)


@builtin("next")
def bi_next(ex, args, kw):
    if not isinstance(args[0], SeqIter):
        raise Unsupported("next() of a non-iterator")
    try:
        return iter_next(ex, args[0], [], {})
    except SymRaise as e:
        if e.etype == "StopIteration" and len(args) > 1:
            return args[1]
        raise


@lib("math", "isclose")
def math_isclose(ex, args, kw):
    """math.isclose(a, b, rel_tol=1e-09, abs_tol=0.0): |a-b| <= max(rel_tol * max(|a|, |b|), abs_tol)  (reals)"""
    a, b = args[0], args[1]
    rel, ab = kw.get("rel_tol", 1e-09), kw.get("abs_tol", 0.0)
    if not is_z3(a) and not is_z3(b):
        import math
        return math.isclose(a, b, rel_tol=rel, abs_tol=ab)
    a3, b3 = to_real(a), to_real(b)
    absv = lambda x: z3.If(x >= 0, x, -x)
    mx = lambda x, y: z3.If(x >= y, x, y)
    return absv(a3 - b3) <= mx(to_real(rel) * mx(absv(a3), absv(b3)), to_real(ab))
