"""Segment strings: text whose literal characters are concrete and whose numbers / names are symbolic atoms.

Alphabet assumptions (trusted base, stated in every evidence file that uses them):
  IntAtom   renders as -?[0-9]+                         (str(int), f"{int}")
  FloatAtom renders without blank, comma, parenthesis, newline, slash, colon (repr(float), f"{x}", "%.16e")
  NameAtom  an opaque non-empty text without newline; `nows` = it contains no whitespace;
            `plain` = it contains none of ( ) , / : either
and CPython round trips:  int(str(i)) == i,  float(repr(x)) == x,  float(f"{x:.16e}") == x.
"""
import z3
from .vals import *  # noqa
from .exec import lib, method, attr, builtin, LIBS, Const, typetag

intlen = z3.Function("intlen", z3.IntSort(), z3.IntSort())
fltlen = z3.Function("fltlen", z3.RealSort(), z3.IntSort(), z3.IntSort())
namelen = z3.Function("namelen", z3.IntSort(), z3.IntSort())

WS = " \t\n\r\x0b\x0c"


class Atom:
    kind = "atom"

    def same(self, o):
        raise NotImplementedError


class IntAtom(Atom):
    kind = "int"

    def __init__(self, term):
        self.term = term

    def forbidden(self, ch):
        return ch not in "-0123456789"

    def same(self, o):
        return to_z3(self.term) == to_z3(o.term)

    def length(self):
        return intlen(to_z3(self.term))

    def __repr__(self):
        return f"<int {self.term}>"


class FloatAtom(Atom):
    kind = "float"
    FMT = {"repr": 0, ".16e": 1}

    def __init__(self, term, fmt="repr"):
        self.term, self.fmt = term, fmt

    def forbidden(self, ch):
        return ch not in "-+.0123456789einfa"

    def same(self, o):
        if self.fmt != o.fmt:
            raise Unsupported("comparison of floats rendered with different formats")
        return to_real(self.term) == to_real(o.term)

    def exact(self):
        return self.fmt in ("repr", ".16e", ".17g", ".17e")

    def length(self):
        return fltlen(to_real(self.term), FloatAtom.FMT.get(self.fmt, 7))

    def __repr__(self):
        return f"<float {self.term}:{self.fmt}>"


class NameAtom(Atom):
    kind = "name"

    def __init__(self, opaque, nows=True, plain=False):
        self.op = opaque
        self.nows, self.plain = nows, plain

    def forbidden(self, ch):
        if ch == "\n":
            return True
        if ch in WS:
            return self.nows
        if ch in "(),/:":
            return self.plain
        return False

    def same(self, o):
        if self.op is o.op:
            return True
        sa, sb = getattr(self.op, "sym", None), getattr(o.op, "sym", None)
        if sa is not None and sb is not None:
            return sa == sb
        raise Unsupported("equality of unrelated names")

    def length(self):
        s = getattr(self.op, "sym", None)
        if s is None:
            raise Unsupported("length of a name without symbol")
        return namelen(s)

    def __repr__(self):
        return f"<name {self.op.name}>"


class SStr:
    """Immutable sequence of segments (python str | Atom), adjacent literals merged, no empty literal."""

    def __init__(self, segs, isbytes=False):
        out = []
        for s in segs:
            if isinstance(s, SStr):
                ss = s.segs
            else:
                ss = [s]
            for x in ss:
                if isinstance(x, str):
                    if not x:
                        continue
                    if out and isinstance(out[-1], str):
                        out[-1] += x
                    else:
                        out.append(x)
                else:
                    out.append(x)
        self.segs = out
        self.isbytes = isbytes

    def _key(self):
        out = []
        for s in self.segs:
            if isinstance(s, str):
                out.append(s)
            elif isinstance(s, NameAtom):
                out.append(("name", id(s.op)))
            elif isinstance(s, IntAtom):
                out.append(("int", to_z3(s.term).sexpr()))
            else:
                out.append(("float", to_real(s.term).sexpr(), s.fmt))
        return (tuple(out), self.isbytes)

    def __hash__(self):
        return hash(self._key())

    def __eq__(self, o):
        # python-level (dict key) equality: structural identity; symbolic equality goes through str_eq
        return isinstance(o, SStr) and self._key() == o._key()

    def is_lit(self):
        return all(isinstance(s, str) for s in self.segs)

    def lit(self):
        return "".join(self.segs)

    def truth(self, ex):
        for s in self.segs:
            if isinstance(s, str) and s:
                return True
            if isinstance(s, Atom):
                return True      # atoms are non-empty
        return False

    def __repr__(self):
        return "SStr(" + "".join(s if isinstance(s, str) else repr(s) for s in self.segs) + ")"


def norm(v):
    """python str -> SStr, SStr -> itself; returns python str again when fully literal."""
    if isinstance(v, SStr):
        return v
    if isinstance(v, str):
        return SStr([v])
    if isinstance(v, bytes):
        return SStr([v.decode("latin1")], isbytes=True)
    raise Unsupported(f"string operation on {typetag(v)}")


def back(s):
    if isinstance(s, SStr) and s.is_lit():
        return s.lit().encode("latin1") if s.isbytes else s.lit()
    return s


def sconcat(ex, parts):
    if all(isinstance(p, str) for p in parts):
        return "".join(parts)
    from .libos import PathVal, path_concat
    if any(isinstance(p, PathVal) for p in parts):
        # a path text between literals (f"{path}_ck", "{}_ck".format(path)): the same value as path + "_ck"
        if not all(isinstance(p, (str, PathVal)) for p in parts):
            # a message text (path together with other symbolic text): opaque - it is not a path any more, so every later use
            # of it AS a path (open, join, makedirs ...) is unsupported, and as a message it carries no obligation
            return SStr([NameAtom(Opaque("text_mentioning_a_path", "str"), nows=False)])
        r = None
        try:
            for p in parts:
                if p == "":
                    continue
                if isinstance(r, str) and isinstance(p, str):
                    r = r + p
                    continue
                r = p if r is None else path_concat(ex, r, p)
        except Unsupported:
            # a text built around a path in a way the path algebra does not express (a sentence naming the path): opaque, as above
            return SStr([NameAtom(Opaque("text_mentioning_a_path", "str"), nows=False)])
        return "" if r is None else r
    isb = any(isinstance(p, SStr) and p.isbytes for p in parts)
    return back(SStr([norm(p) for p in parts], isbytes=isb))


def slen(v):
    if isinstance(v, (str, bytes)):
        return len(v)
    n = 0
    for s in v.segs:
        n = n + (len(s) if isinstance(s, str) else s.length())
    return n


def fmt_value(ex, val, spec, conversion=-1):
    """f-string / format() rendering."""
    from .libfile import Line
    if isinstance(spec, SStr):
        raise Unsupported("symbolic format spec")
    if conversion == 114:    # !r
        if isinstance(val, str):
            return repr(val)
        raise Unsupported("!r conversion of a symbolic value")
    from .libos import PathVal
    if isinstance(val, PathVal):
        if spec:
            raise Unsupported("format spec on a path text")
        return val          # a path IS its text
    if isinstance(val, bool):
        return format(val, spec or "")
    if isinstance(val, (int, float, str)) and not isinstance(val, bool):
        if isinstance(val, float) and not spec:
            return repr(val)
        return format(val, spec or "")
    if isinstance(val, SStr):
        if spec:
            raise Unsupported("format spec on a symbolic string")
        return val
    if is_sym_int(val):
        if spec and spec not in ("d",):
            if spec[-1:] in "eEfg" or spec.startswith("."):
                return SStr([FloatAtom(to_real(val), spec)])
            raise Unsupported(f"format spec {spec!r} on symbolic int")
        return SStr([IntAtom(val)])
    if is_sym_real(val):
        return SStr([FloatAtom(val, spec or "repr")])
    if val is None:
        return "None"
    if isinstance(val, Opaque):
        if val.kind in ("name", "path", "str"):
            return SStr([NameAtom(val, nows=val.attrs.get("nows", True), plain=val.attrs.get("plain", False))])
        return SStr([NameAtom(val)])
    if isinstance(val, (Vec, NDArray, list, tuple, dict, Record, Line, SSlice, SymSeq)) or hasattr(val, "etype"):
        # only ever used in messages: keep an opaque placeholder
        return SStr([NameAtom(Opaque("repr", "str"), nows=False)])
    return SStr([NameAtom(Opaque("repr", "str"), nows=False)])


def to_sstr(ex, v):
    return fmt_value(ex, v, None)


@builtin("str")
def bi_str(ex, args, kw):
    if not args:
        return ""
    v = args[0]
    if isinstance(v, (str, SStr)):
        return v
    from .exec import ExcClass
    if isinstance(v, ExcClass):
        return f"<class '{v.name}'>"
    r = to_sstr(ex, v)
    return back(norm(r)) if isinstance(r, (str, SStr)) else r


@builtin("repr")
def bi_repr(ex, args, kw):
    v = args[0]
    if isinstance(v, str):
        return repr(v)
    if isinstance(v, SStr):
        return SStr(["'"] + v.segs + ["'"])
    return bi_str(ex, args, kw)


def str_to_number(ex, v, kind):
    """int(text) / float(text) / numpy string->number conversion."""
    s = norm(v)
    segs = list(s.segs)
    # surrounding whitespace is accepted by int()/float()
    if segs and isinstance(segs[0], str):
        segs[0] = segs[0].lstrip(WS)
    if segs and isinstance(segs[-1], str):
        segs[-1] = segs[-1].rstrip(WS)
    segs = [x for x in segs if x != ""]
    if len(segs) == 1 and isinstance(segs[0], str):
        try:
            return int(segs[0]) if kind == "int" else float(segs[0])
        except ValueError:
            raise SymRaise("ValueError", f"invalid literal for {kind}(): {segs[0]!r}")
    if len(segs) == 1 and isinstance(segs[0], IntAtom):
        return segs[0].term if kind == "int" else to_real(segs[0].term)
    if len(segs) == 1 and isinstance(segs[0], FloatAtom):
        if kind == "int":
            # int("1.0") raises; int of a float rendering is never valid unless it has no '.', 'e', 'inf', 'nan'
            raise SymRaise("ValueError", "invalid literal for int() with base 10 (float text)")
        if not segs[0].exact():
            raise Unsupported(f"parsing back a float rendered with lossy format {segs[0].fmt}")
        return segs[0].term
    if not segs:
        raise SymRaise("ValueError", f"invalid literal for {kind}(): ''")
    if len(segs) == 1 and isinstance(segs[0], NameAtom):
        raise Unsupported(f"{kind}() of an opaque name")
    # several segments: a literal char that no number contains makes it invalid for sure
    for x in segs:
        if isinstance(x, str) and any(ch not in "+-.0123456789eEinfaINFA_" for ch in x):
            raise SymRaise("ValueError", f"invalid literal for {kind}()")
    raise Unsupported(f"{kind}() of composite text {s!r}")


def split_ws(s):
    """str.split() on a segment string: list of tokens (each an SStr/str)."""
    toks, cur = [], []
    for seg in s.segs:
        if isinstance(seg, str):
            buf = ""
            for ch in seg:
                if ch in WS:
                    if buf:
                        cur.append(buf)
                        buf = ""
                    if cur:
                        toks.append(cur)
                        cur = []
                else:
                    buf += ch
            if buf:
                cur.append(buf)
        else:
            if isinstance(seg, NameAtom) and not seg.nows:
                raise Unsupported("split() of a line containing a name that may hold whitespace")
            cur.append(seg)
    if cur:
        toks.append(cur)
    return [back(SStr(t, s.isbytes)) for t in toks]


def split_sep(s, sep):
    if len(sep) == 0:
        raise SymRaise("ValueError", "empty separator")
    out, cur = [], []
    for seg in s.segs:
        if isinstance(seg, str):
            parts = seg.split(sep)
            # a separator longer than one char could straddle an atom boundary only if the atom may hold its chars
            for i, p in enumerate(parts):
                if i > 0:
                    out.append(cur)
                    cur = []
                if p:
                    cur.append(p)
        else:
            if any(not seg.forbidden(ch) for ch in sep):
                raise Unsupported(f"split({sep!r}) of text with an atom that may contain the separator")
            cur.append(seg)
    out.append(cur)
    if len(sep) > 1:
        # straddling: literal ends with a proper prefix of sep next to an atom -> atoms cannot contain sep chars (checked)
        pass
    return [back(SStr(t, s.isbytes)) for t in out]


def replace_lit(s, a, b):
    if not isinstance(b, str):
        raise Unsupported("replace with symbolic replacement")
    segs = []
    for seg in s.segs:
        if isinstance(seg, str):
            segs.append(seg.replace(a, b))
        else:
            if any(not seg.forbidden(ch) for ch in a):
                raise Unsupported(f"replace({a!r}) on text with an atom that may contain it")
            segs.append(seg)
    if len(a) > 1:
        # check no straddling over atom boundaries is possible: atoms cannot contain any char of a (checked above)
        pass
    return back(SStr(segs, s.isbytes))


def replace_sym(ex, s, a, b):
    """replace where the pattern itself contains atoms: supported when the pattern ends with a literal that occurs
    exactly once in s (e.g. f'{nvars}\\n')."""
    pa, pb = norm(a), norm(b)
    if not pa.segs or not isinstance(pa.segs[-1], str):
        raise Unsupported("replace with a pattern not ending in a literal")
    tail = pa.segs[-1]
    head = pa.segs[:-1]
    lit_positions = []
    for i, seg in enumerate(s.segs):
        if isinstance(seg, str):
            start = 0
            while True:
                j = seg.find(tail, start)
                if j < 0:
                    break
                lit_positions.append((i, j))
                start = j + 1
        else:
            if any(not seg.forbidden(ch) for ch in tail):
                raise Unsupported("replace: atom may contain the pattern's literal tail")
    if not lit_positions:
        return s
    if len(lit_positions) > 1:
        raise Unsupported("replace: pattern tail occurs more than once")
    i, j = lit_positions[0]
    if len(head) != 1 or not isinstance(head[0], IntAtom):
        raise Unsupported("replace: only <int atom><literal> patterns are modelled")
    # what precedes the tail occurrence
    if j > 0:
        # preceding char is a literal char: str(int) must end right before; digits in a literal => compare text
        pre = s.segs[i][:j]
        k = len(pre)
        while k > 0 and pre[k - 1] in "0123456789":
            k -= 1
        digits = pre[k:]
        if not digits:
            return s      # pattern int has at least one digit; the preceding char is not a digit -> no match
        raise Unsupported("replace: literal digits before the pattern tail")
    if i == 0:
        return s
    prev = s.segs[i - 1]
    if not isinstance(prev, IntAtom):
        raise Unsupported("replace: non-int atom before the pattern tail")
    # text is  ... <c> <IntAtom n> tail ...   The pattern str(p)+tail matches iff str(n) ends with str(p).
    # If the char before the atom is not a digit or '-' the token is exactly str(n); when n == p the whole token is
    # replaced.  When n != p a proper-suffix match (e.g. n=12, p=2) is possible: decided by the solver on n == p,
    # and the n != p case is reported unsupported unless provably impossible.
    n, p = prev.term, head[0].term
    eq = to_z3(n) == to_z3(p)
    if ex.ctx.branch(eq):
        segs = s.segs[:i - 1] + pb.segs + [s.segs[i][len(tail):]] + s.segs[i + 1:]
        return back(SStr(segs, s.isbytes))
    raise Unsupported("replace: header count differs from the pattern's count (suffix match not modelled)")


def str_eq(ex, a, b):
    from .libfile import Line
    if isinstance(a, Line) or isinstance(b, Line):
        from .headers import line_eq
        return line_eq(ex, a, b)
    if isinstance(a, (str, bytes)) and isinstance(b, (str, bytes)):
        return a == b
    if not isinstance(a, (str, bytes, SStr)) or not isinstance(b, (str, bytes, SStr)):
        return False
    sa, sb = norm(a), norm(b)
    if sa.isbytes != sb.isbytes and (isinstance(a, (bytes,)) or isinstance(b, bytes) or sa.isbytes != sb.isbytes):
        if not (isinstance(a, str) and sb.isbytes is False) and not (isinstance(b, str) and sa.isbytes is False):
            return False
    A, Bs = list(sa.segs), list(sb.segs)
    conds = []
    while A and Bs:
        x, y = A[0], Bs[0]
        if isinstance(x, str) and isinstance(y, str):
            n = min(len(x), len(y))
            if x[:n] != y[:n]:
                return False
            A[0], Bs[0] = x[n:], y[n:]
            if not A[0]:
                A.pop(0)
            if not Bs[0]:
                Bs.pop(0)
        elif isinstance(x, Atom) and isinstance(y, Atom):
            if x.kind != y.kind:
                raise Unsupported(f"equality of {x.kind} text with {y.kind} text")
            conds.append(x.same(y))
            A.pop(0)
            Bs.pop(0)
        else:
            atom, lit = (x, y) if isinstance(x, Atom) else (y, x)
            if atom.forbidden(lit[0]):
                return False
            if isinstance(atom, IntAtom):
                # consume the maximal run of int chars of the literal; the next char (if any) must delimit
                k = 0
                while k < len(lit) and not atom.forbidden(lit[k]):
                    k += 1
                try:
                    val = int(lit[:k])
                except ValueError:
                    return False
                if str(val) != lit[:k]:
                    return False
                conds.append(to_z3(atom.term) == val)
                rest = lit[k:]
                if isinstance(x, Atom):
                    A.pop(0)
                    Bs[0] = rest
                    if not rest:
                        Bs.pop(0)
                else:
                    Bs.pop(0)
                    A[0] = rest
                    if not rest:
                        A.pop(0)
                # next segment on the atom side must not start with an int char (else ambiguity)
                nxt = (A[0] if A else None) if isinstance(x, Atom) else (Bs[0] if Bs else None)
                if isinstance(nxt, Atom):
                    raise Unsupported("adjacent atoms in string equality")
                continue
            if isinstance(atom, FloatAtom) and atom.exact():
                # a number rendered with a round-trip format against literal text: the maximal run of number characters must
                # be the canonical rendering of some double L, and then the texts agree iff the value is L (the same
                # injectivity `same` uses for two rendered numbers)
                k = 0
                while k < len(lit) and not atom.forbidden(lit[k]):
                    k += 1
                try:
                    val = float(lit[:k])
                except ValueError:
                    return False
                import math
                if math.isnan(val) or math.isinf(val):
                    raise Unsupported("equality of a rendered number with a non-finite literal")
                canon = repr(val) if atom.fmt == "repr" else format(val, atom.fmt)
                if canon != lit[:k]:
                    return False
                from fractions import Fraction
                fr_ = Fraction(val)
                conds.append(to_real(atom.term) == z3.RealVal(f"{fr_.numerator}/{fr_.denominator}"))
                rest = lit[k:]
                if isinstance(x, Atom):
                    A.pop(0)
                    Bs[0] = rest
                    if not rest:
                        Bs.pop(0)
                else:
                    Bs.pop(0)
                    A[0] = rest
                    if not rest:
                        A.pop(0)
                nxt = (A[0] if A else None) if isinstance(x, Atom) else (Bs[0] if Bs else None)
                if isinstance(nxt, Atom):
                    raise Unsupported("adjacent atoms in string equality")
                continue
            if isinstance(atom, NameAtom) and atom.op.attrs.get("distinct_from_literals"):
                return False      # stated assumption: such names differ from every literal the program compares them with
            raise Unsupported("equality of an opaque atom with literal text")
    if A or Bs:
        rest = A or Bs
        if any(isinstance(r, Atom) for r in rest) or any(r for r in rest):
            return False
    conds = [c for c in conds if c is not True]
    if any(c is False for c in conds):
        return False
    if not conds:
        return True
    return zand(*conds)


def str_contains(ex, cont, x):
    if isinstance(cont, str) and isinstance(x, str):
        return x in cont
    c = norm(cont)
    if isinstance(x, str):
        if any(x in seg for seg in c.segs if isinstance(seg, str)):
            return True
        for seg in c.segs:
            if isinstance(seg, Atom) and not all(seg.forbidden(ch) for ch in x):
                # every char of x must be impossible in the atom for a sure 'no'... conservative:
                if any(not seg.forbidden(ch) for ch in x) and not any(seg.forbidden(ch) for ch in x):
                    raise Unsupported(f"{x!r} in text with an atom that may contain it")
        # straddling literal/atom boundaries: needs a char of x inside an atom -> if some char of x is forbidden in
        # every atom the match must lie in literals except partial overlaps; be conservative for len(x) > 1
        if len(x) > 1:
            for i, seg in enumerate(c.segs):
                if isinstance(seg, Atom) and any(not seg.forbidden(ch) for ch in x):
                    # possible partial overlap only if x can be split into lit-part + atom-part at this boundary
                    left = c.segs[i - 1] if i > 0 and isinstance(c.segs[i - 1], str) else ""
                    right = c.segs[i + 1] if i + 1 < len(c.segs) and isinstance(c.segs[i + 1], str) else ""
                    for k in range(1, len(x)):
                        if left.endswith(x[:k]) and not seg.forbidden(x[k]):
                            raise Unsupported("substring test straddling an atom")
                        if right.startswith(x[k:]) and not seg.forbidden(x[k - 1]):
                            raise Unsupported("substring test straddling an atom")
        return False
    raise Unsupported("symbolic substring test")


def str_getitem(ex, s, key):
    if isinstance(s, (str, bytes)):
        if isinstance(key, SSlice):
            parts = [as_const(p) if is_z3(p) else p for p in (key.start, key.stop, key.step)]
            return s[slice(*parts)]
        c = as_const(key) if is_z3(key) else key
        if isinstance(c, int):
            if not -len(s) <= c < len(s):
                raise SymRaise("IndexError", "string index out of range")
            return s[c]
        raise Unsupported("symbolic string index")
    raise Unsupported("indexing a symbolic string")


# -- methods ---------------------------------------------------------------------------------------


@method(["str", "SStr"], "split")
def m_split(ex, self, args, kw):
    s = norm(self)
    if not args or args[0] is None:
        return split_ws(s)
    sep = args[0]
    if not isinstance(sep, str):
        raise Unsupported("split by symbolic separator")
    return split_sep(s, sep)


@method(["str", "SStr"], "replace")
def m_replace(ex, self, args, kw):
    a, b = args[0], args[1]
    s = norm(self)
    if isinstance(a, str):
        if isinstance(b, str):
            return replace_lit(s, a, b)
        raise Unsupported("replace by symbolic text")
    return replace_sym(ex, s, a, b)


@method(["str", "SStr"], "encode")
def m_encode(ex, self, args, kw):
    if isinstance(self, str):
        try:
            return self.encode(*(args or ["utf-8"]))
        except UnicodeEncodeError:
            raise SymRaise("UnicodeEncodeError", "")
    codec_arg(args, kw)
    return SStr(self.segs, isbytes=True)


@method(["bytes", "SStr"], "decode")
def m_decode(ex, self, args, kw):
    if isinstance(self, bytes):
        return self.decode(*(args or ["utf-8"]))
    codec_arg(args, kw)
    return SStr(self.segs, isbytes=False)


@method(["str", "SStr"], "join")
def m_join(ex, self, args, kw):
    items = ex.as_iterable(args[0])
    if not isinstance(items, list):
        raise Unsupported("join of a symbolic-length sequence")
    parts = []
    for i, it in enumerate(items):
        if i:
            parts.append(self)
        if not isinstance(it, (str, SStr)):
            raise SymRaise("TypeError", f"sequence item {i}: expected str instance, {typetag(it)} found")
        parts.append(it)
    return sconcat(ex, parts) if parts else ""


@method(["str", "SStr"], "startswith")
def m_startswith(ex, self, args, kw):
    p = args[0]
    if isinstance(self, str) and isinstance(p, str):
        return self.startswith(p)
    s = norm(self)
    if isinstance(p, str) and s.segs and isinstance(s.segs[0], str) and len(s.segs[0]) >= len(p):
        return s.segs[0].startswith(p)
    if isinstance(p, str) and s.segs and isinstance(s.segs[0], Atom) and s.segs[0].forbidden(p[0]):
        return False
    if p == "-" and s.segs and isinstance(s.segs[0], FloatAtom):
        # the rendering of a number begins with the minus sign exactly when the number is negative (reals: no -0.0, no NaN)
        return to_real(s.segs[0].term) < 0
    if p == "-" and s.segs and isinstance(s.segs[0], IntAtom):
        return to_z3(s.segs[0].term) < 0
    if isinstance(p, str) and p and s.segs and isinstance(s.segs[0], NameAtom) and not any(s.segs[0].forbidden(ch) for ch in p):
        # a free name may or may not begin with the given literal: both are explored.  One question per name and path (two
        # different prefixes of one name are related - 'ab' implies 'a' - which independent choices would not respect)
        asked = ex.ctx.ghost.setdefault("name_prefix_asked", {})
        key = id(s.segs[0].op)
        if key in asked and asked[key][0] != p:
            raise Unsupported("startswith: a second prefix question about the same symbolic name")
        if key not in asked:
            asked[key] = (p, ex.ctx.choose(2) == 1)
        return asked[key][1]
    raise Unsupported("startswith on symbolic text")


@method(["str", "SStr"], "strip")
def m_strip(ex, self, args, kw):
    if isinstance(self, str):
        return self.strip(*args)
    segs = list(self.segs)
    chars = args[0] if args else WS
    if segs and isinstance(segs[0], str):
        segs[0] = segs[0].lstrip(chars)
    if segs and isinstance(segs[-1], str):
        segs[-1] = segs[-1].rstrip(chars)
    return back(SStr(segs, self.isbytes))


@method("str", "lower")
def m_lower(ex, self, args, kw):
    return self.lower()


@method("str", "format")
def m_format(ex, self, args, kw):
    if all(isinstance(a, (int, float, str)) for a in args) and all(isinstance(a, (int, float, str)) for a in kw.values()):
        try:
            return self.format(*args, **dict(kw))
        except (IndexError, KeyError, ValueError) as e:
            raise SymRaise(type(e).__name__, str(e))
    if self in ("{:.3}",) and len(args) == 1:
        return fmt_value(ex, args[0], ".3")
    # the general case: the literal pieces and the formatted fields in order, exactly as the f-string with the same fields
    # (plain positional / numbered / named fields, optional conversion and a literal format spec)
    import string
    parts, auto = [], 0
    args = list(args)
    for lit, field, spec, conv in string.Formatter().parse(self):
        if lit:
            parts.append(lit)
        if field is None:
            continue
        if spec and ("{" in spec):
            raise Unsupported("str.format with a nested format spec")
        if field == "":
            if auto is None:
                raise SymRaise("ValueError", "cannot switch from manual field specification to automatic field numbering")
            key, auto = auto, auto + 1
        elif field.isdigit():
            key, auto = int(field), None if auto in (0, None) else auto
        elif field.isidentifier():
            key = field
        else:
            raise Unsupported(f"str.format field '{field}'")
        if isinstance(key, int):
            if key >= len(args):
                raise SymRaise("IndexError", "Replacement index out of range for positional args tuple")
            val = args[key]
        else:
            if key not in kw:
                raise SymRaise("KeyError", key)
            val = kw[key]
        parts.append(fmt_value(ex, val, spec or None, {"r": 114, "s": 115, "a": 97}.get(conv, -1)))
    return sconcat(ex, parts)


@builtin("format")
def bi_format(ex, args, kw):
    """format(value[, spec]) == f'{value:spec}'"""
    spec = args[1] if len(args) > 1 else None
    if spec is not None and not isinstance(spec, str):
        raise Unsupported("format() with a symbolic spec")
    return fmt_value(ex, args[0], spec or None)
