"""multiprocessing pool contract (DESIGN 2.5 'pool')."""
from .vals import *  # noqa


def sym_map(ex, f, items, ordered=True):
    raise Unsupported("map over a symbolic-length task list")
