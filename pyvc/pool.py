"""multiprocessing pool contract (DESIGN 2.5 'pool'): for deterministic tasks with disjoint write sets, map/imap return
[f(x) for x in xs] in submission order for every worker count and schedule (ASSUMED); imap_unordered some permutation."""
import z3
from .vals import *  # noqa
from .exec import lib, method, LIBS


@lib("multiprocessing", "Pool")
def mp_pool(ex, args, kw):
    ex.ctx.note("pool-created", tuple(args), tuple(kw))
    r = Record("Pool")
    r.created_here = True       # a pool made by the code under contract (not one the caller holds)
    return r


@lib("pathos.multiprocessing", "ProcessingPool")
def pathos_pool(ex, args, kw):
    """pathos' ProcessingPool: same map / imap contract; pathos keeps every pool it makes in a process-wide cache, so the pool
    is referenced for as long as the process lives (no lifetime obligation on its iterators)."""
    ex.ctx.note("pool-created", tuple(args), tuple(kw))
    r = Record("Pool")
    r.created_here = True
    r.held = True
    return r


def sym_map(ex, f, items, ordered=True):
    """ordered map over a symbolic-length task list: element i is f(items[i]) (the callee's contract, evaluated lazily);
    the contract's precondition is an obligation for an arbitrary task index."""
    n = items.length
    j = ex.ctx.fresh("task")
    # precondition / exception behaviour of the worker for an arbitrary task: evaluated once here so that obligations
    # raised by the contract (call-site preconditions) are recorded on this path
    # ... for an ARBITRARY task only: nothing after the call may rely on the task list being non-empty
    with ex.ctx.scoped(z3.And(j >= 0, j < to_z3(n))):
        ex.call_value(f, [items.get(j, ex)])

    def get(i):
        ex.call_depth += 1          # evaluated lazily (possibly from a postcondition): still a callee, never a body
        try:
            return ex.call_value(f, [items.get(i, ex)])
        finally:
            ex.call_depth -= 1
    return SymSeq(n, get, "list")


def _map(ex, self, args, kw):
    f, items = args[0], ex.as_iterable(args[1])
    ex.ctx.note("pool-call", f)
    if isinstance(items, list):
        return [ex.call_value(f, [x]) for x in items]
    return sym_map(ex, f, items)


def _imap(ex, self, args, kw):
    """imap returns an ITERATOR over the ordered results"""
    it = SeqIter(_map(ex, self, args, kw), 0)
    it.pool = self
    return it


def _imap_unordered(ex, self, args, kw):
    """imap_unordered yields the results in COMPLETION order: some permutation of the submission order, chosen by the
    schedule.  For a concrete task list of up to four tasks every permutation is a path; beyond that the call is outside
    the model."""
    res = _map(ex, self, args, kw)
    if not isinstance(res, list):
        raise Unsupported("imap_unordered over a task list of symbolic length")
    n = len(res)
    if n > 4:
        raise Unsupported("imap_unordered over more than four tasks")
    import itertools
    perms = list(itertools.permutations(range(n)))
    k = ex.ctx.choose(len(perms)) if len(perms) > 1 else 0
    it = SeqIter([res[i] for i in perms[k]], 0)
    it.pool = self
    ex.ctx.note("completion-order", perms[k])
    return it


from .exec import METHODS
METHODS[("Record:Pool", "map")] = _map
METHODS[("Record:Pool", "imap")] = _imap
METHODS[("Record:Pool", "imap_unordered")] = _imap_unordered


@method("Record:Pool", "__enter__")
def pool_enter(ex, self, args, kw):
    self.held = True            # referenced by the with-block (a generator frame keeps it for as long as it is iterated)
    return self


@method("Record:Pool", "__exit__")
def pool_exit(ex, self, args, kw):
    return None


@method("Record:Pool", "close")
def pool_close(ex, self, args, kw):
    return None
