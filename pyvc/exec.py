"""Symbolic interpreter for the Python subset used by /repo's kernels (executes the real AST nodes)."""
import ast
import z3
from .vals import *  # noqa
from .ctx import Ctx

BUILTINS = {}     # name -> fn(ex, args, kwargs)
LIBS = {}         # (module, attr) -> fn(ex, args, kwargs)  or a constant wrapped in Const
METHODS = {}      # (typetag, method) -> fn(ex, self, args, kwargs)
ATTRS = {}        # (typetag, attr) -> fn(ex, self)


_KNOWN = []


def known_functions():
    if not _KNOWN:
        import os
        with open(os.path.join(os.path.dirname(__file__), "known_functions.txt")) as fh:
            _KNOWN.append({l.strip() for l in fh if l.strip()})
    return _KNOWN[0]


def _gen_result(fr):
    it = SeqIter(fr.yielded, 0)
    if getattr(fr, "gen_pool", None) is not None:
        it.pool = fr.gen_pool
    return it


class KwGuard(dict):
    """the keyword arguments of a call into a library MODEL, remembering which of them the model looked at: a keyword the
    model never reads would be silently ignored (max(xs, default=0) treated as max(xs)), so the call is refused instead."""

    def __init__(self, d):
        dict.__init__(self, d)
        self.used = set()

    def _all(self):
        self.used.update(dict.keys(self))

    def get(self, k, default=None):
        self.used.add(k)
        return dict.get(self, k, default)

    def __getitem__(self, k):
        self.used.add(k)
        return dict.__getitem__(self, k)

    def __contains__(self, k):
        self.used.add(k)
        return dict.__contains__(self, k)

    def pop(self, k, *a):
        self.used.add(k)
        return dict.pop(self, k, *a)

    def __iter__(self):
        self._all()
        return dict.__iter__(self)

    def keys(self):
        self._all()
        return dict.keys(self)

    def items(self):
        self._all()
        return dict.items(self)

    def values(self):
        self._all()
        return dict.values(self)

    def __len__(self):
        self._all()
        return dict.__len__(self)

    def __bool__(self):
        self._all()
        return dict.__len__(self) > 0

    def unused(self):
        return sorted(k for k in dict.keys(self) if k not in self.used)


class ArgGuard(list):
    """the positional arguments of a call into a library MODEL, remembering which positions the model read (same purpose
    as KwGuard: np.round(x, 2) must not be answered as np.round(x))"""

    def __init__(self, xs):
        list.__init__(self, xs)
        self.seen = set()

    def __getitem__(self, i):
        if isinstance(i, slice):
            self.seen.update(range(*i.indices(list.__len__(self))))
        else:
            self.seen.add(i if i >= 0 else i + list.__len__(self))
        return list.__getitem__(self, i)

    def __iter__(self):
        self.seen.update(range(list.__len__(self)))
        return list.__iter__(self)

    def __add__(self, o):
        self.seen.update(range(list.__len__(self)))
        return list(list.__iter__(self)) + list(o)

    def __radd__(self, o):
        self.seen.update(range(list.__len__(self)))
        return list(o) + list(list.__iter__(self))

    def unread(self):
        return [i for i in range(list.__len__(self)) if i not in self.seen]


# keywords that do not change what a call computes (progress bars, console output, memory layout hints)
HARMLESS_KW = {"total", "desc", "file", "flush", "end", "sep", "disable", "leave"}


ARGS_IGNORED_OK = {"builtins.print", "tqdm.tqdm", "tqdm.tqdm.tqdm"}


def guarded_call(name, kwargs, thunk, args=None):
    kw = kwargs if isinstance(kwargs, KwGuard) else KwGuard(kwargs or {})
    ag = ArgGuard(args) if args is not None else None

    def problems():
        out = []
        left = [k for k in kw.unused() if k not in HARMLESS_KW]
        if left:
            out.append(f"keyword argument(s) {left} of {name} are not modelled")
        if ag is not None and name not in ARGS_IGNORED_OK and not name.endswith(".__exit__") and ag.unread():
            out.append(f"positional argument(s) #{ag.unread()} of {name} are not modelled")
        return out
    try:
        r = thunk(kw) if ag is None else thunk(kw, ag)
    except SymRaise:
        # an exception the model raises without having looked at every argument may be one that argument prevents
        p = problems()
        if p:
            raise Unsupported(p[0])
        raise
    p = problems()
    if p:
        raise Unsupported(p[0])
    return r


class Const:
    def __init__(self, v):
        self.v = v


class ModRef:
    def __init__(self, name):
        self.name = name

    def __repr__(self):
        return f"<module {self.name}>"


class LibFn:
    def __init__(self, mod, attr):
        self.mod, self.attr = mod, attr

    def __repr__(self):
        return f"<lib {self.mod}.{self.attr}>"


class BoundMethod:
    def __init__(self, obj, name):
        self.obj, self.name = obj, name


class Closure:
    """lambda / nested def."""

    def __init__(self, node, frame):
        self.node, self.frame = node, frame


class ClassRef:
    def __init__(self, qual):
        self.qual = qual

    def __repr__(self):
        return f"<class {self.qual}>"


class ExcClass:
    def __init__(self, name):
        self.name = name


class ExcValue:
    def __init__(self, etype, msg=""):
        self.etype, self.msg = etype, msg


class _Return(Exception):
    def __init__(self, v):
        self.v = v


class _Break(Exception):
    pass


class _Continue(Exception):
    pass


class Havoced:
    def __init__(self, name):
        self.name = name


class Frame:
    def __init__(self, modqual, funcqual=None, clsqual=None, parent=None, local_names=()):
        self.vars = {}
        self.modqual, self.funcqual, self.clsqual = modqual, funcqual, clsqual
        self.parent = parent
        self.local_names = set(local_names)
        self.globals_decl = set()
        self.loops = {}


def typetag(v):
    if isinstance(v, bool) or is_sym_bool(v):
        return "bool"
    if isinstance(v, int) or is_sym_int(v):
        return "int"
    if isinstance(v, float) or is_sym_real(v):
        return "float"
    if v is None:
        return "None"
    return type(v).__name__


def builtin(name):
    def deco(f):
        BUILTINS[name] = f
        return f
    return deco


def lib(mod, attr):
    def deco(f):
        LIBS[(mod, attr)] = f
        return f
    return deco


def method(tag, name):
    def deco(f):
        for t in ([tag] if isinstance(tag, str) else tag):
            METHODS[(t, name)] = f
        return f
    return deco


def attr(tag, name):
    def deco(f):
        for t in ([tag] if isinstance(tag, str) else tag):
            ATTRS[(t, name)] = f
        return f
    return deco


def assigned_names(fdef):
    """Names that are local to the function (assigned anywhere in its body, not in nested scopes)."""
    names = set()

    def targets(t):
        if isinstance(t, ast.Name):
            names.add(t.id)
        elif isinstance(t, (ast.Tuple, ast.List)):
            for e in t.elts:
                targets(e)
        elif isinstance(t, ast.Starred):
            targets(t.value)

    def walk(n):
        for c in ast.iter_child_nodes(n):
            if isinstance(c, (ast.FunctionDef, ast.Lambda, ast.ClassDef, ast.ListComp, ast.GeneratorExp,
                              ast.DictComp, ast.SetComp)):
                if isinstance(c, ast.FunctionDef):
                    names.add(c.name)
                continue
            if isinstance(c, ast.Assign):
                for t in c.targets:
                    targets(t)
            elif isinstance(c, (ast.AugAssign, ast.AnnAssign)):
                targets(c.target)
            elif isinstance(c, (ast.For,)):
                targets(c.target)
            elif isinstance(c, ast.With):
                for it in c.items:
                    if it.optional_vars is not None:
                        targets(it.optional_vars)
            elif isinstance(c, ast.ExceptHandler):
                if c.name:
                    names.add(c.name)
            elif isinstance(c, ast.NamedExpr):
                targets(c.target)
            elif isinstance(c, (ast.Import, ast.ImportFrom)):
                for a in c.names:
                    names.add((a.asname or a.name).split(".")[0])
            walk(c)
    walk(fdef)
    return names


def loop_nodes(fdef):
    """For/While statements of a function in source order (nested defs excluded)."""
    out = []

    def walk(n):
        for c in ast.iter_child_nodes(n):
            if isinstance(c, (ast.FunctionDef, ast.Lambda, ast.ClassDef)):
                continue
            if isinstance(c, (ast.For, ast.While)):
                out.append(c)
            walk(c)
    walk(fdef)
    out.sort(key=lambda n: (n.lineno, n.col_offset))
    return out


class Exec:
    def __init__(self, ctx, repo, contracts=None, inline=(), loopspecs=None, globals_model=None):
        self.ctx = ctx
        self.repo = repo
        self.contracts = contracts or {}     # qualname -> fn(ex, args, kwargs)
        self.inline = set(inline)
        self.loopspecs = loopspecs or {}     # (funcqual, ordinal) -> LoopSpec
        self.globals_model = globals_model or {}   # (modqual, name) -> value  (module-level state)
        self.call_depth = 0
        self.calls_seen = []                 # repo functions reached (qualname, how)
        self.print_log = []

    # ======================================================================================
    # calling
    def call_qual(self, qual, args, kwargs=None, self_obj=None):
        kwargs = kwargs or {}
        r = self.repo.func(qual)
        if r is None:
            raise Unsupported(f"unknown repo function {qual}")
        fdef, modqual, clsqual = r
        real_qual = f"{clsqual}.{fdef.name}" if clsqual else f"{modqual}.{fdef.name}"
        # decorators: staticmethod / classmethod decide what is bound; any other decorator may change the function
        deco = [ast.unparse(d) for d in fdef.decorator_list]
        for d in deco:
            if d not in ("staticmethod", "classmethod", "property"):
                raise Unsupported(f"decorator @{d} on {real_qual}")
        if "staticmethod" in deco:
            self_obj = None
        elif "classmethod" in deco and clsqual:
            self_obj = ClassRef(clsqual)
        if self_obj is not None:
            args = [self_obj] + list(args)
        if self.call_depth > 0:
            # modular: a callee is represented by its contract, never its body (unless explicitly inlined)
            c = self.contracts.get(real_qual)
            if c is not None:
                self.calls_seen.append((real_qual, "contract"))
                return c(self, list(args), dict(kwargs))
            if real_qual not in self.inline:
                # a function the contracts were not written for (a helper extracted by a later refactoring: not in the list of
                # functions of the tree the contracts were made on) is executed as part of its caller - its real body, a few
                # levels deep at most; every function that existed then needs a contract or an explicit inline permission
                if real_qual in known_functions() or self.call_depth > 4:
                    raise Unsupported(f"call to {real_qual} which has neither contract nor inline permission")
                self.calls_seen.append((real_qual, "inlined (new helper)"))
        self.calls_seen.append((real_qual, "body"))
        return self.run_function(fdef, modqual, clsqual, list(args), dict(kwargs))

    def run_function(self, fdef, modqual, clsqual, args, kwargs):
        qual = f"{clsqual}.{fdef.name}" if clsqual else f"{modqual}.{fdef.name}"
        fr = Frame(modqual, qual, clsqual, local_names=assigned_names(fdef))
        self.bind_params(fdef.args, args, kwargs, fr, modqual)
        fr.loops = {id(n): i for i, n in enumerate(loop_nodes(fdef))}
        # generator functions are run eagerly: the values yielded, in order, as a list (the repository's generators are
        # consumed once, front to back, and share no state with their consumer between two yields)
        is_gen = any(isinstance(n, (ast.Yield, ast.YieldFrom)) for n in _own_nodes(fdef))
        if is_gen:
            fr.yielded = []
        self.call_depth += 1
        try:
            self.exec_block(fdef.body, fr)
        except _Return as r:
            if is_gen:
                return _gen_result(fr)
            return r.v
        finally:
            self.call_depth -= 1
        if is_gen:
            return _gen_result(fr)
        return None

    def bind_params(self, a, args, kwargs, fr, modqual):
        params = [p.arg for p in a.posonlyargs + a.args]
        for p in params:
            fr.local_names.add(p)
        defaults = a.defaults
        ndef = len(defaults)
        kwargs = dict(kwargs)
        for i, p in enumerate(params):
            if i < len(args):
                fr.vars[p] = args[i]
            elif p in kwargs:
                fr.vars[p] = kwargs.pop(p)
            else:
                di = i - (len(params) - ndef)
                if di < 0:
                    raise SymRaise("TypeError", f"missing argument {p}")
                fr.vars[p] = self.eval(defaults[di], Frame(modqual))
        if a.vararg:
            fr.local_names.add(a.vararg.arg)
            fr.vars[a.vararg.arg] = tuple(args[len(params):])
        elif len(args) > len(params):
            raise SymRaise("TypeError", "too many positional arguments")
        for p, d in zip(a.kwonlyargs, a.kw_defaults):
            fr.local_names.add(p.arg)
            if p.arg in kwargs:
                fr.vars[p.arg] = kwargs.pop(p.arg)
            elif d is not None:
                fr.vars[p.arg] = self.eval(d, Frame(modqual))
            else:
                raise SymRaise("TypeError", f"missing kw argument {p.arg}")
        if a.kwarg:
            fr.local_names.add(a.kwarg.arg)
            fr.vars[a.kwarg.arg] = kwargs
        elif kwargs:
            raise SymRaise("TypeError", f"unexpected keyword arguments {list(kwargs)}")

    def call_value(self, f, args, kwargs=None):
        kwargs = kwargs or {}
        if isinstance(f, FuncVal):
            return self.call_qual(f.qualname, args, kwargs, self_obj=f.self_obj)
        if isinstance(f, LibFn):
            fn = BUILTINS.get(f.attr) if f.mod == "builtins" else LIBS.get((f.mod, f.attr))
            if isinstance(fn, Const):
                fn = None
            if fn is None:
                raise Unsupported(f"library function {f.mod}.{f.attr}")
            return guarded_call(f"{f.mod}.{f.attr}", kwargs, lambda kw, ag: fn(self, ag, kw), args=list(args))
        if isinstance(f, BoundMethod):
            return self.call_method(f.obj, f.name, list(args), kwargs)
        if isinstance(f, Closure):
            node = f.node
            fr = Frame(f.frame.modqual, f.frame.funcqual, f.frame.clsqual, parent=f.frame)
            self.bind_params(node.args, list(args), kwargs, fr, f.frame.modqual)
            if isinstance(node, ast.Lambda):
                return self.eval(node.body, fr)
            fr.local_names |= assigned_names(node)
            is_gen = any(isinstance(n, (ast.Yield, ast.YieldFrom)) for n in _own_nodes(node))
            if is_gen:
                fr.yielded = []
            try:
                self.exec_block(node.body, fr)
            except _Return as r:
                return SeqIter(fr.yielded, 0) if is_gen else r.v
            return SeqIter(fr.yielded, 0) if is_gen else None
        if isinstance(f, ClassRef):
            return self.instantiate(f.qual, list(args), kwargs)
        if isinstance(f, ExcClass):
            msg = args[0] if args else ""
            return ExcValue(f.name, msg)
        if callable(f) and getattr(f, "_pyvc_builtin", False):
            return f(self, list(args), kwargs)
        raise Unsupported(f"call of {f!r}")

    def instantiate(self, cqual, args, kwargs):
        c = self.contracts.get(cqual + ".__new__")
        if c is not None:
            return c(self, args, kwargs)
        obj = Record(cqual)
        if self.repo.method(cqual, "__init__"):
            self.call_qual(cqual + ".__init__", args, kwargs, self_obj=obj)
        return obj

    def call_method(self, obj, name, args, kwargs):
        if isinstance(obj, Record) and obj.cls and self.repo.classdef(obj.cls):
            if name in obj.attrs:
                return self.call_value(obj.attrs[name], args, kwargs)
            if self.repo.method(obj.cls, name):
                return self.call_qual(f"{obj.cls}.{name}", args, kwargs, self_obj=obj)
        tag = typetag(obj)
        fn = METHODS.get((tag, name))
        if fn is None and isinstance(obj, Record):
            fn = METHODS.get((f"Record:{obj.cls}", name))
        if fn is None and isinstance(obj, Vec) and obj.kind == "array" and ("NDArray", name) in METHODS:
            # a numpy vector: the array methods apply to it as to any array
            from .ops import as_ndarray
            return METHODS[("NDArray", name)](self, as_ndarray(obj), list(args), kwargs)
        if fn is None:
            raise Unsupported(f"method {tag}.{name}")
        return guarded_call(f"{tag}.{name}", kwargs, lambda kw, ag: fn(self, obj, ag, kw), args=list(args))

    # ======================================================================================
    # statements
    def exec_block(self, stmts, fr):
        for s in stmts:
            self.exec_stmt(s, fr)

    def exec_stmt(self, s, fr):
        self.ctx.cur_lineno = getattr(s, "lineno", None)
        m = getattr(self, "st_" + type(s).__name__, None)
        if m is None:
            raise Unsupported(f"statement {type(s).__name__} at line {s.lineno}")
        return m(s, fr)

    def st_Expr(self, s, fr):
        if isinstance(s.value, ast.Constant):
            return
        self.eval(s.value, fr)

    def st_Pass(self, s, fr):
        pass

    def ev_Yield(self, e, fr):
        if not hasattr(fr, "yielded"):
            raise Unsupported("yield outside a generator function")
        if not isinstance(fr.yielded, list):
            raise Unsupported("yield after a symbolic-length 'yield from'")
        fr.yielded.append(self.eval(e.value, fr) if e.value is not None else None)
        return None

    def ev_YieldFrom(self, e, fr):
        """yield from <iterable> (eager, like yield): every element of the source, in order; a symbolic-length source is
        taken as the whole output (nothing may be yielded before or after it)"""
        if not hasattr(fr, "yielded"):
            raise Unsupported("yield from outside a generator function")
        src = self.eval(e.value, fr)
        if isinstance(src, SeqIter):
            c = as_const(src.pos) if is_z3(src.pos) else src.pos
            if c != 0:
                raise Unsupported("yield from a partly consumed iterator")
            if getattr(src, "pool", None) is not None:
                fr.gen_pool = src.pool        # the pool behind the iterator that is re-yielded (lifetime obligations)
            seq = src.seq
        else:
            seq = self.as_iterable(src)
        if isinstance(seq, list) and isinstance(fr.yielded, list):
            fr.yielded.extend(seq)
        elif isinstance(fr.yielded, list) and not fr.yielded:
            fr.yielded = seq
        else:
            raise Unsupported("yield from a symbolic-length sequence next to other yields")
        return None

    def st_Import(self, s, fr):
        for a in s.names:
            fr.vars[(a.asname or a.name).split(".")[0]] = ModRef(a.name)

    def st_ImportFrom(self, s, fr):
        raise Unsupported("local import-from")

    def st_Global(self, s, fr):
        fr.globals_decl |= set(s.names)

    def st_Return(self, s, fr):
        raise _Return(self.eval(s.value, fr) if s.value is not None else None)

    def st_Break(self, s, fr):
        raise _Break()

    def st_Continue(self, s, fr):
        raise _Continue()

    def st_Assign(self, s, fr):
        v = self.eval(s.value, fr)
        for t in s.targets:
            self.assign(t, v, fr)

    def st_AnnAssign(self, s, fr):
        if s.value is not None:
            self.assign(s.target, self.eval(s.value, fr), fr)

    def st_AugAssign(self, s, fr):
        t = s.target
        cur = self.eval(ast_load(t), fr)
        rhs = self.eval(s.value, fr)
        from .ops import binop, inplace_binop
        r = inplace_binop(self, type(s.op).__name__, cur, rhs)
        if r is not NotImplemented:
            # in-place on a mutable object (ndarray): the object was mutated; rebind for names
            self.assign(t, r, fr, aug=True)
            return
        self.assign(t, binop(self, type(s.op).__name__, cur, rhs), fr)

    def st_Delete(self, s, fr):
        for t in s.targets:
            if isinstance(t, ast.Name):
                fr.vars.pop(t.id, None)
            else:
                raise Unsupported("del of non-name")

    def st_Assert(self, s, fr):
        c = self.truth(self.eval(s.test, fr))
        if not c:
            raise SymRaise("AssertionError", "", s.lineno)

    def st_Raise(self, s, fr):
        if s.exc is None:
            e = getattr(fr, "_cur_exc", None)
            if e is None:
                raise Unsupported("bare raise outside handler")
            raise e
        v = self.eval(s.exc, fr)
        if isinstance(v, ExcClass):
            raise SymRaise(v.name, "", s.lineno)
        if isinstance(v, ExcValue):
            raise SymRaise(v.etype, v.msg, s.lineno)
        if isinstance(v, SymRaise):
            raise v
        raise Unsupported(f"raise of {v!r}")

    def st_If(self, s, fr):
        if self.truth(self.eval(s.test, fr)):
            self.exec_block(s.body, fr)
        else:
            self.exec_block(s.orelse, fr)

    def st_FunctionDef(self, s, fr):
        fr.vars[s.name] = Closure(s, fr)

    def st_With(self, s, fr):
        mgrs = []
        try:
            for it in s.items:
                v = self.eval(it.context_expr, fr)
                ent = self.call_method(v, "__enter__", [], {}) if not hasattr(v, "_enter") else v._enter(self)
                mgrs.append(v)
                if it.optional_vars is not None:
                    self.assign(it.optional_vars, ent, fr)
            self.exec_block(s.body, fr)
        finally:
            for v in reversed(mgrs):
                if hasattr(v, "_exit"):
                    v._exit(self)
                else:
                    self.call_method(v, "__exit__", [None, None, None], {})

    def st_Try(self, s, fr):
        try:
            try:
                self.exec_block(s.body, fr)
            except SymRaise as e:
                for h in s.handlers:
                    if self.handler_matches(h, e, fr):
                        if h.name:
                            fr.vars[h.name] = e
                        prev = getattr(fr, "_cur_exc", None)
                        fr._cur_exc = e
                        try:
                            self.exec_block(h.body, fr)
                        finally:
                            fr._cur_exc = prev
                        break
                else:
                    raise
            else:
                self.exec_block(s.orelse, fr)
        finally:
            if s.finalbody:
                self.exec_block(s.finalbody, fr)

    def handler_matches(self, h, e, fr):
        if h.type is None:
            return True
        t = self.eval(h.type, fr)
        ts = t if isinstance(t, (tuple, list)) else [t]
        for x in ts:
            if isinstance(x, ExcClass) and exc_isinstance(e.etype, x.name):
                return True
        return False

    # -- loops --------------------------------------------------------------------------------
    def loop_spec(self, node, fr):
        ordn = fr.loops.get(id(node))
        if ordn is None:
            return None, None
        return self.loopspecs.get((fr.funcqual, ordn)), ordn

    def st_For(self, s, fr):
        it = self.eval(s.iter, fr)
        seq = self.as_iterable(it)
        if isinstance(seq, list):
            for v in seq:
                self.assign(s.target, v, fr)
                try:
                    self.exec_block(s.body, fr)
                except _Break:
                    return
                except _Continue:
                    continue
            self.exec_block(s.orelse, fr)
            return
        # symbolic length: needs a loop contract
        spec, ordn = self.loop_spec(s, fr)
        if spec is None and hasattr(fr, "yielded") and len(s.body) == 1 and not s.orelse and isinstance(s.body[0], ast.Expr) \
                and isinstance(s.body[0].value, ast.Yield) and isinstance(s.target, ast.Name) \
                and isinstance(s.body[0].value.value, ast.Name) and s.body[0].value.value.id == s.target.id:
            # `for x in seq: yield x` in a generator is `yield from seq` (the elements, in order)
            if isinstance(fr.yielded, list) and not fr.yielded:
                if isinstance(it, SeqIter) and getattr(it, "pool", None) is not None:
                    fr.gen_pool = it.pool
                fr.yielded = seq
                return
        if spec is None:
            raise Unsupported(f"loop #{ordn} of {fr.funcqual} (line {s.lineno}) iterates a symbolic-length "
                              f"sequence and has no invariant")
        from .loops import run_for
        run_for(self, s, fr, seq, spec, ordn)

    def st_While(self, s, fr):
        spec, ordn = self.loop_spec(s, fr)
        if spec is None:
            # bounded concrete execution is only sound if the condition is concrete each time
            n = 0
            while True:
                c = self.eval(s.test, fr)
                if is_z3(c) and as_const(c) is None:
                    raise Unsupported(f"while loop #{ordn} of {fr.funcqual} (line {s.lineno}) has no invariant")
                if not self.truth(c):
                    break
                n += 1
                if n > 64:
                    raise Unsupported(f"while loop #{ordn} of {fr.funcqual}: more than 64 concrete iterations "
                                      f"and no invariant")
                try:
                    self.exec_block(s.body, fr)
                except _Break:
                    return
                except _Continue:
                    continue
            self.exec_block(s.orelse, fr)
            return
        from .loops import run_while
        run_while(self, s, fr, spec, ordn)

    # -- assignment -----------------------------------------------------------------------------
    def assign(self, t, v, fr, aug=False):
        if isinstance(t, ast.Name):
            if t.id in fr.globals_decl:
                self.globals_model[(fr.modqual, t.id)] = v
            else:
                fr.vars[t.id] = v
        elif isinstance(t, (ast.Tuple, ast.List)):
            items = self.as_iterable(v)
            if not isinstance(items, list):
                raise Unsupported("unpacking a symbolic-length sequence")
            if any(isinstance(e, ast.Starred) for e in t.elts):
                raise Unsupported("starred unpacking")
            if len(items) != len(t.elts):
                raise SymRaise("ValueError", f"unpack {len(items)} values into {len(t.elts)}")
            for e, x in zip(t.elts, items):
                self.assign(e, x, fr)
        elif isinstance(t, ast.Attribute):
            obj = self.eval(t.value, fr)
            self.setattr(obj, t.attr, v)
        elif isinstance(t, ast.Subscript):
            if aug:
                obj = self.eval(t.value, fr)
                if isinstance(obj, NDArray):
                    return     # mutated in place already
            obj = self.eval(t.value, fr)
            key = self.eval_index(t.slice, fr)
            from .ops import setitem
            setitem(self, obj, key, v)
        else:
            raise Unsupported(f"assignment target {type(t).__name__}")

    def setattr(self, obj, name, v):
        if isinstance(obj, Record):
            obj.attrs[name] = v
        else:
            raise Unsupported(f"setattr on {typetag(obj)}")

    # ======================================================================================
    # expressions
    def eval(self, e, fr):
        m = getattr(self, "ev_" + type(e).__name__, None)
        if m is None:
            raise Unsupported(f"expression {type(e).__name__} at line {getattr(e, 'lineno', '?')}")
        return m(e, fr)

    def ev_Constant(self, e, fr):
        return e.value

    def lookup(self, name, fr, lineno=None):
        f = fr
        while f is not None:
            if name in f.vars and name not in f.globals_decl:
                v = f.vars[name]
                if isinstance(v, Havoced):
                    raise Unsupported(f"read of loop-modified variable '{name}' that the loop invariant does not describe")
                return v
            if name in f.local_names and name not in f.globals_decl:
                raise SymRaise("UnboundLocalError", name, lineno)
            f = f.parent
        if (fr.modqual, name) in self.globals_model:
            return self.globals_model[(fr.modqual, name)]
        r = self.repo.resolve_name(fr.modqual, name)
        if r is not None:
            if r[0] == "func":
                return FuncVal(r[1])
            if r[0] == "class":
                if r[1].endswith("Error") and self.repo.bases(r[1]) == []:
                    return ExcClass(r[1].rsplit(".", 1)[1])
                return ClassRef(r[1])
            if r[0] == "mod":
                return ModRef(r[1])
            if r[0] == "ext":
                if (r[1], r[2]) in LIBS:
                    x = LIBS[(r[1], r[2])]
                    return x.v if isinstance(x, Const) else LibFn(r[1], r[2])
                return LibFn(r[1], r[2])
            if r[0] == "global":
                m = self.repo.modules[r[1]]
                return self.eval(m.globals_assigned[r[2]], Frame(r[1]))
        if name in BUILTINS:
            b = BUILTINS[name]
            if isinstance(b, Const):
                return b.v
            return LibFn("builtins", name)
        if name in EXC_PARENTS:
            return ExcClass(name)
        import builtins as _b
        if hasattr(_b, name):
            # a Python builtin without a model is outside the engine's reach, it is NOT an undefined name
            raise Unsupported(f"builtin '{name}' is not modelled")
        raise SymRaise("NameError", name, lineno)

    def ev_Name(self, e, fr):
        return self.lookup(e.id, fr, e.lineno)

    def ev_Attribute(self, e, fr):
        obj = self.eval(e.value, fr)
        return self.getattr(obj, e.attr)

    def getattr(self, obj, name):
        if isinstance(obj, ModRef):
            if (obj.name, name) in LIBS:
                x = LIBS[(obj.name, name)]
                return x.v if isinstance(x, Const) else LibFn(obj.name, name)
            sub = f"{obj.name}.{name}"
            if any(k[0] == sub for k in LIBS):
                return ModRef(sub)
            if sub in self.repo.modules:
                return ModRef(sub)
            if obj.name in self.repo.modules:
                r = self.repo.resolve_name(obj.name, name)
                if r and r[0] == "func":
                    return FuncVal(r[1])
                if r and r[0] == "class":
                    return ClassRef(r[1])
            return LibFn(obj.name, name)
        if isinstance(obj, Record):
            if name in obj.attrs:
                return obj.attrs[name]
            if obj.cls and self.repo.classdef(obj.cls):
                if self.repo.method(obj.cls, name):
                    return FuncVal(f"{obj.cls}.{name}", self_obj=obj)
                ca = self.repo.class_attr(obj.cls, name)
                if ca:
                    return self.eval(ca[0], Frame(ca[1]))
            fn = ATTRS.get((f"Record:{obj.cls}", name))
            if fn:
                return fn(self, obj)
            if (f"Record:{obj.cls}", name) in METHODS:
                return BoundMethod(obj, name)
            if getattr(obj, "by_contract", True) and self.repo.classdef(obj.cls) and self._assigned_somewhere(obj.cls, name):
                # an object handed in by a contract (the frame of a task) stands for an instance the real constructor would have
                # built: an attribute that the class assigns SOMEWHERE and the contract's object does not carry means the
                # contract was written for another shape of the class (an attribute added since) - undecided, not an error of
                # the program
                raise Unsupported(f"the contract's {obj.cls.split('.')[-1]} object carries no '{name}', which the class assigns elsewhere (attribute added or renamed)")
            raise SymRaise("AttributeError", f"{obj.cls}.{name}")
        if isinstance(obj, ClassRef):
            ca = self.repo.class_attr(obj.qual, name)
            if ca:
                return self.eval(ca[0], Frame(ca[1]))
            if self.repo.method(obj.qual, name):
                return FuncVal(f"{obj.qual}.{name}")
            raise SymRaise("AttributeError", name)
        tag = typetag(obj)
        fn = ATTRS.get((tag, name))
        if fn is not None:
            return fn(self, obj)
        if (tag, name) in METHODS:
            return BoundMethod(obj, name)
        if isinstance(obj, SymRaise) and name == "args":
            return (obj.msg,)
        raise Unsupported(f"attribute {tag}.{name}")

    def _assigned_somewhere(self, cqual, name):
        """does any method of the class (or of a class it derives from, or of a class derived from it) assign self.<name>?"""
        cache = self.__dict__.setdefault("_assigned_cache", {})
        if (cqual, name) in cache:
            return cache[(cqual, name)]
        found = False
        for cq in self.repo.mro(cqual):
            cd = self.repo.classdef(cq)
            if not cd:
                continue
            for n in ast.walk(cd[0]):
                if isinstance(n, ast.Attribute) and isinstance(n.ctx, ast.Store) and n.attr == name and isinstance(n.value, ast.Name) \
                        and n.value.id == "self":
                    found = True
                    break
            if found:
                break
        cache[(cqual, name)] = found
        return found

    def ev_Call(self, e, fr):
        # super().__init__(...)
        if isinstance(e.func, ast.Attribute) and isinstance(e.func.value, ast.Call) \
                and isinstance(e.func.value.func, ast.Name) and e.func.value.func.id == "super":
            selfobj = fr.vars.get("self")
            r = self.repo.method(selfobj.cls, e.func.attr, after=fr.clsqual)
            if r is None:
                raise Unsupported("super() target")
            args, kwargs = self.eval_args(e, fr)
            return self.call_qual(f"{r[2]}.{e.func.attr}", args, kwargs, self_obj=selfobj)
        if isinstance(e.func, ast.Attribute):
            obj = self.eval(e.func.value, fr)
            args, kwargs = self.eval_args(e, fr)
            self.ctx.cur_lineno = e.lineno
            if isinstance(obj, (ModRef, ClassRef)):
                return self.call_value(self.getattr(obj, e.func.attr), args, kwargs)
            if isinstance(obj, Record) and e.func.attr in obj.attrs:
                return self.call_value(obj.attrs[e.func.attr], args, kwargs)
            return self.call_method(obj, e.func.attr, args, kwargs)
        f = self.eval(e.func, fr)
        args, kwargs = self.eval_args(e, fr)
        self.ctx.cur_lineno = e.lineno
        return self.call_value(f, args, kwargs)

    def eval_args(self, e, fr):
        args = []
        for a in e.args:
            if isinstance(a, ast.Starred):
                v = self.as_iterable(self.eval(a.value, fr))
                if not isinstance(v, list):
                    raise Unsupported("*args of symbolic length")
                args.extend(v)
            else:
                args.append(self.eval(a, fr))
        kwargs = {}
        for k in e.keywords:
            if k.arg is None:
                d = self.eval(k.value, fr)
                if not isinstance(d, dict):
                    raise Unsupported("**kwargs of non-dict")
                kwargs.update(d)
            else:
                kwargs[k.arg] = self.eval(k.value, fr)
        return args, kwargs

    def ev_Lambda(self, e, fr):
        return Closure(e, fr)

    def ev_IfExp(self, e, fr):
        if self.truth(self.eval(e.test, fr)):
            return self.eval(e.body, fr)
        return self.eval(e.orelse, fr)

    def ev_Tuple(self, e, fr):
        return tuple(self._elts(e.elts, fr))

    def ev_List(self, e, fr):
        return list(self._elts(e.elts, fr))

    def _elts(self, elts, fr):
        out = []
        for x in elts:
            if isinstance(x, ast.Starred):
                v = self.as_iterable(self.eval(x.value, fr))
                if not isinstance(v, list):
                    raise Unsupported("starred symbolic sequence")
                out.extend(v)
            else:
                out.append(self.eval(x, fr))
        return out

    def ev_Set(self, e, fr):
        return set(self._elts(e.elts, fr))

    def ev_Dict(self, e, fr):
        d = {}
        for k, v in zip(e.keys, e.values):
            if k is None:
                d.update(self.eval(v, fr))
            else:
                d[self.hashable(self.eval(k, fr))] = self.eval(v, fr)
        return d

    def hashable(self, k):
        if is_z3(k):
            c = as_const(k)
            if c is None:
                raise Unsupported("symbolic dict key")
            return c
        if isinstance(k, list):
            raise SymRaise("TypeError", "unhashable list")
        return k

    def ev_Slice(self, e, fr):
        ev = lambda x: None if x is None else self.eval(x, fr)
        return SSlice(ev(e.lower), ev(e.upper), ev(e.step))

    def eval_index(self, sl, fr):
        if isinstance(sl, ast.Tuple):
            return tuple(self.eval_index(x, fr) for x in sl.elts)
        return self.eval(sl, fr)

    def ev_Subscript(self, e, fr):
        obj = self.eval(e.value, fr)
        key = self.eval_index(e.slice, fr)
        self.ctx.cur_lineno = e.lineno
        from .ops import getitem
        return getitem(self, obj, key)

    def ev_Starred(self, e, fr):
        raise Unsupported("starred expression")

    def ev_BinOp(self, e, fr):
        from .ops import binop
        a = self.eval(e.left, fr)
        b = self.eval(e.right, fr)
        self.ctx.cur_lineno = e.lineno
        return binop(self, type(e.op).__name__, a, b)

    def ev_UnaryOp(self, e, fr):
        from .ops import unop
        return unop(self, type(e.op).__name__, self.eval(e.operand, fr))

    def ev_BoolOp(self, e, fr):
        is_and = isinstance(e.op, ast.And)
        v = None
        for x in e.values:
            v = self.eval(x, fr)
            t = self.truth(v)
            # `a and b` / `a or b` return one of the OPERANDS: a symbolic boolean is replaced by the truth value this path
            # has decided for it; a symbolic number (``limit or default``) stays the number it is
            symb = is_z3(v) and z3.is_bool(v)
            if is_and and not t:
                return False if symb else v
            if not is_and and t:
                return True if symb else v
        return (bool(t) if (is_z3(v) and z3.is_bool(v)) else v)

    def ev_Compare(self, e, fr):
        from .ops import compare
        left = self.eval(e.left, fr)
        res = True
        for op, rn in zip(e.ops, e.comparators):
            right = self.eval(rn, fr)
            r = compare(self, type(op).__name__, left, right)
            if len(e.ops) == 1:
                return r
            if not self.truth(r):
                return False
            left = right
        return res

    def ev_JoinedStr(self, e, fr):
        from .strings import fmt_value, sconcat
        parts = []
        for v in e.values:
            if isinstance(v, ast.Constant):
                parts.append(v.value)
            else:
                val = self.eval(v.value, fr)
                spec = None
                if v.format_spec is not None:
                    spec = self.ev_JoinedStr(v.format_spec, fr)
                parts.append(fmt_value(self, val, spec, v.conversion))
        return sconcat(self, parts)

    def ev_ListComp(self, e, fr):
        if len(e.generators) == 1 and not e.generators[0].ifs:
            g = e.generators[0]
            it = self.as_iterable(self.eval(g.iter, fr))
            if isinstance(it, SymSeq):
                # lazy map over a symbolic-length sequence: element i is the expression evaluated with the target
                # bound to the i-th item (pure expressions only: evaluated when, and as often as, it is looked at)
                def get(i, it=it, g=g, e=e, fr=fr):
                    f2 = Frame(fr.modqual, fr.funcqual, fr.clsqual, parent=fr)
                    self.assign(g.target, it.get(i, self), f2)
                    return self.eval(e.elt, f2)
                return SymSeq(it.length, get, "list")
            out = []
            self._comp(e.generators, 0, fr, lambda f: out.append(self.eval(e.elt, f)), first_iter=it)
            return out
        out = []
        self._comp(e.generators, 0, fr, lambda f: out.append(self.eval(e.elt, f)))
        return out

    def ev_GeneratorExp(self, e, fr):
        return self.ev_ListComp(e, fr)

    def ev_DictComp(self, e, fr):
        out = {}
        self._comp(e.generators, 0, fr,
                   lambda f: out.__setitem__(self.hashable(self.eval(e.key, f)), self.eval(e.value, f)))
        return out

    def _comp(self, gens, i, fr, emit, first_iter=None):
        if i == len(gens):
            emit(fr)
            return
        g = gens[i]
        it = first_iter if (first_iter is not None and i == 0) else self.as_iterable(self.eval(g.iter, fr))
        if not isinstance(it, list):
            raise Unsupported(f"comprehension over a symbolic-length sequence (line {g.iter.lineno})")
        for v in it:
            f2 = Frame(fr.modqual, fr.funcqual, fr.clsqual, parent=fr)
            self.assign(g.target, v, f2)
            if all(self.truth(self.eval(c, f2)) for c in g.ifs):
                self._comp(gens, i + 1, f2, emit)

    # ======================================================================================
    # helpers
    def truth(self, v):
        if isinstance(v, bool):
            return v
        if v is None:
            return False
        if is_sym_bool(v):
            return self.ctx.branch(v)
        if is_sym_int(v) or is_sym_real(v):
            return self.ctx.branch(v != 0)
        if isinstance(v, (int, float)):
            return v != 0
        if isinstance(v, (str, bytes, list, tuple, dict, set)):
            return len(v) != 0
        if isinstance(v, Vec):
            if v.kind == "array":
                if len(v) != 1:
                    raise SymRaise("ValueError", "truth value of an array with more than one element is ambiguous")
                return self.truth(v.items[0])
            return len(v) != 0
        if isinstance(v, SymSeq):
            return self.ctx.branch(to_z3(v.length) != 0)
        if isinstance(v, NDArray):
            c = as_const(v.size() == 1) if is_z3(v.size()) else (v.size() == 1)
            if c is True:
                return self.truth(v.elem(tuple(0 for _ in v.shape)))
            raise SymRaise("ValueError", "truth value of an array with more than one element is ambiguous")
        from .strings import SStr
        if isinstance(v, SStr):
            return v.truth(self)
        if isinstance(v, Record):
            if v.cls and self.repo.classdef(v.cls) and self.repo.method(v.cls, "__bool__"):
                return self.truth(self.call_qual(f"{v.cls}.__bool__", [], {}, self_obj=v))
            return True
        return True

    def as_iterable(self, v):
        """Return a python list of values when the length is concrete, else a SymSeq."""
        if isinstance(v, (list, tuple)):
            return list(v)
        if isinstance(v, Vec):
            return list(v.items)
        if isinstance(v, range):
            return list(v)
        if isinstance(v, dict):
            return list(v.keys())
        if isinstance(v, (set, frozenset)):
            return sorted(v)
        if isinstance(v, SymSeq):
            c = as_const(v.length)
            if isinstance(c, int) and c <= 64:
                return [v.get(i) for i in range(c)]
            return v
        if isinstance(v, NDArray):
            n = v.shape[0]
            c = as_const(n)
            from .ops import getitem
            if isinstance(c, int) and c <= 64:
                return [getitem(self, v, i) for i in range(c)]
            return SymSeq(n, lambda i: getitem(self, v, i), kind="ndarray")
        if isinstance(v, str):
            return list(v)
        from .strings import SStr
        if isinstance(v, SStr):
            raise Unsupported("iteration over a symbolic string")
        if hasattr(v, "_iterable"):
            return v._iterable(self)
        raise program_type_error(v, f"{typetag(v)} object is not iterable")


def _own_nodes(fdef):
    """nodes of a function body without those of nested function / class definitions"""
    nested = (ast.FunctionDef, ast.AsyncFunctionDef, ast.ClassDef, ast.Lambda)
    stack = [n for n in fdef.body if not isinstance(n, nested)]
    while stack:
        n = stack.pop()
        yield n
        for c in ast.iter_child_nodes(n):
            if not isinstance(c, nested):
                stack.append(c)


def ast_load(t):
    import copy
    n = copy.deepcopy(t)
    for x in ast.walk(n):
        if hasattr(x, "ctx"):
            x.ctx = ast.Load()
    return n
