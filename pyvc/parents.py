"""numpy grouping / permutation contracts used by the parent (orchestration) functions: unique, masks, argsort,
fancy assignment.  (Extended as the parents come under contract.)"""
import z3
from .vals import *  # noqa


def bool_index_axis0(ex, arr, mask):
    raise Unsupported("boolean mask on axis 0 (symbolic)")


def fancy_setitem(ex, arr, keys, v):
    """a[ids, :, ...] = v with an index array of concrete length m on the FIRST axis and full slices elsewhere: row ids[t] gets
    v[t] (later entries win when an index repeats, as numpy assigns in order)."""
    from .ops import as_ndarray, set_region
    k0 = keys[0]
    if not all(isinstance(k, SSlice) and k.start is None and k.stop is None and k.step is None for k in keys[1:]):
        raise Unsupported("fancy-index assignment combined with partial slices")
    ids = k0.items if isinstance(k0, Vec) else (list(k0) if isinstance(k0, (list, tuple)) else None)
    if ids is None and isinstance(k0, NDArray) and getattr(k0, "scatter_inverse", None) is not None and k0.ndim == 1:
        return _scatter_symbolic(ex, arr, k0, keys, v)
    if ids is None:
        raise Unsupported("fancy-index assignment with a symbolic-length index array")
    n = arr.shape[0]
    for i in ids:
        ex.ctx.check_or_raise(zand(to_z3(i) >= -to_z3(n), to_z3(i) < to_z3(n)), "IndexError", "index out of bounds")
    ids = [z3.If(to_z3(i) < 0, to_z3(i) + to_z3(n), to_z3(i)) if is_z3(i) else (i % n if isinstance(n, int) else i) for i in ids]
    if isinstance(v, (int, float)) or is_z3(v):
        val = lambda t, rest: v
    else:
        va = as_ndarray(v if not isinstance(v, (list, tuple)) else Vec(v))
        ve, _ = va.snapshot()
        if va.ndim == arr.ndim:
            if isinstance(va.shape[0], int) and va.shape[0] != len(ids) and va.shape[0] != 1:
                raise SymRaise("ValueError", "shape mismatch: value array could not be broadcast to indexing result")
            val = lambda t, rest: ve((t if va.shape[0] != 1 else 0,) + tuple(rest))
        elif va.ndim == arr.ndim - 1:
            val = lambda t, rest: ve(tuple(rest))          # one row broadcast to every selected row
        else:
            raise Unsupported("fancy-index assignment: value rank")

    def region(idx):
        return zor(*[to_z3(idx[0]) == to_z3(i) for i in ids])

    def value(idx):
        e = val(0, idx[1:])
        for t in range(1, len(ids)):
            e = zite(to_z3(idx[0]) == to_z3(ids[t]), val(t, idx[1:]), e)
        return e
    set_region(ex, arr, region, value)


def _scatter_symbolic(ex, arr, k0, keys, v):
    """a[ids] = v / a[ids, :] = v for an index array of SYMBOLIC length m whose contract provides its inverse: `has(i)` - i occurs
    in ids - and `pos(i)` - the position it occurs at (the contract states ids duplicate-free, so numpy's 'the last one wins' never
    applies).  Row i of a becomes v[pos(i)] where has(i); the rest keeps its value.  Side obligations as numpy raises them: every
    index in range (for an arbitrary position), as many values as indices."""
    from .ops import as_ndarray, set_region
    has, pos = k0.scatter_inverse
    ctx = ex.ctx
    m, n = to_z3(k0.shape[0]), to_z3(arr.shape[0])
    t = ctx.fresh("scatter_pos")
    ke, _ = k0.snapshot()
    with ctx.scoped(z3.And(t >= 0, t < m)):
        ctx.check_or_raise(zand(to_z3(ke((t,))) >= 0, to_z3(ke((t,))) < n), "IndexError", "index out of bounds")
    if isinstance(v, (int, float)) or is_z3(v):
        val = lambda idx: v
    else:
        va = as_ndarray(v if not isinstance(v, (list, tuple)) else Vec(v))
        ve, _ = va.snapshot()
        if va.ndim not in (arr.ndim, arr.ndim - 1):
            raise Unsupported("fancy-index assignment: value rank")
        if va.ndim == arr.ndim:
            ctx.check_or_raise(to_z3(va.shape[0]) == m, "ValueError", "shape mismatch: value array could not be broadcast to indexing result")
            for d in range(1, arr.ndim):
                ctx.check_or_raise(to_z3(va.shape[d]) == to_z3(arr.shape[d]), "ValueError", "shape mismatch: value array could not be broadcast to indexing result")
            val = lambda idx: ve((pos(to_z3(idx[0])),) + tuple(idx[1:]))
        else:
            val = lambda idx: ve(tuple(idx[1:]))
    set_region(ex, arr, lambda idx: has(to_z3(idx[0])), val)


def _triggers(expr, var):
    """applications of uninterpreted functions in expr that have the bound variable as a direct argument"""
    out, seen = [], set()

    def walk(e):
        if not z3.is_app(e) or e.get_id() in seen:
            return
        seen.add(e.get_id())
        if e.decl().kind() == z3.Z3_OP_UNINTERPRETED and e.num_args() > 0 and any(a.eq(var) for a in e.children()):
            out.append(e)
        for c in e.children():
            walk(c)
    if is_z3(expr):
        walk(expr)
    return out


def true_positions(ex, c):
    """np.where(c)[0] for a 1-D boolean array: the ascending positions where c holds."""
    from .ops import as_ndarray
    e, _ = c.snapshot()
    n = c.shape[0]
    cnt = ex.ctx.fresh("nz_count")
    posf = z3.Function(f"nz_pos!{ex.ctx.path_id}_{len(ex.ctx.assumptions)}", z3.IntSort(), z3.IntSort())
    t = z3.Int("nz_t")
    u = z3.Int("nz_u")
    n3 = to_z3(n)
    ctx = ex.ctx
    ct = to_z3(e((t,)))
    trig = _triggers(ct, t)

    def forall_t(body, extra=()):
        pats = list(extra) + trig
        return z3.ForAll([t], body, patterns=pats) if pats else z3.ForAll([t], body)
    ctx.assume(z3.And(cnt >= 0, cnt <= n3))
    # positions are in range, ascending, satisfy c, and cover every position satisfying c
    ctx.assume(z3.ForAll([t], z3.Implies(z3.And(t >= 0, t < cnt),
                                         z3.And(posf(t) >= 0, posf(t) < n3, to_z3(e((posf(t),))))), patterns=[posf(t)]))
    ctx.assume(z3.ForAll([t, u], z3.Implies(z3.And(t >= 0, t < u, u < cnt), posf(t) < posf(u)), patterns=[z3.MultiPattern(posf(t), posf(u))]))
    rank = z3.Function(f"nz_rank!{ex.ctx.path_id}_{len(ex.ctx.assumptions)}", z3.IntSort(), z3.IntSort())
    ctx.assume(forall_t(z3.Implies(z3.And(t >= 0, t < n3, ct),
                                   z3.And(rank(t) >= 0, rank(t) < cnt, posf(rank(t)) == t)), [rank(t)]))
    # derived (from ascending + covering): nothing holds before the first position nor after the last one; instantiated
    # at the neighbours of the first and last position (the terms a bracketing argument needs)
    first, last = posf(0), posf(cnt - 1)
    ctx.assume(forall_t(z3.Implies(z3.And(cnt > 0, t >= 0, t < first), z3.Not(ct))))
    ctx.assume(forall_t(z3.Implies(z3.And(cnt > 0, t > last, t < n3), z3.Not(ct))))
    ctx.assume(z3.Implies(z3.And(cnt > 0, first - 1 >= 0), z3.Not(to_z3(e((first - 1,))))))
    ctx.assume(z3.Implies(z3.And(cnt > 0, last + 1 < n3), z3.Not(to_z3(e((last + 1,))))))
    ctx.assume(z3.Implies(cnt > 0, z3.And(first >= 0, first < n3, to_z3(e((first,))), last >= 0, last < n3, to_z3(e((last,))), first <= last)))
    # an empty result means c holds nowhere: instantiated at both ends
    ctx.assume(z3.Implies(z3.And(cnt == 0, n3 > 0), z3.And(z3.Not(to_z3(e((0,)))), z3.Not(to_z3(e((n3 - 1,)))))))
    r = NDArray([cnt], lambda idx: posf(to_z3(idx[0])), "int")
    r.where_of = (c, cnt, posf, rank)
    return r


def count_true(ex, a):
    raise Unsupported("count_nonzero of a symbolic-length array")
