"""numpy grouping / permutation contracts used by the parent (orchestration) functions: unique, masks, argsort,
fancy assignment.  (Extended as the parents come under contract.)"""
import z3
from .vals import *  # noqa


def bool_index_axis0(ex, arr, mask):
    raise Unsupported("boolean mask on axis 0 (symbolic)")


def fancy_setitem(ex, arr, keys, v):
    raise Unsupported("fancy-index assignment")


def true_positions(ex, c):
    """np.where(c)[0] for a 1-D boolean array: the ascending positions where c holds."""
    from .ops import as_ndarray
    e, _ = c.snapshot()
    n = c.shape[0]
    cnt = ex.ctx.fresh("nz_count")
    posf = z3.Function(f"nz_pos!{ex.ctx.path_id}_{len(ex.ctx.assumptions)}", z3.IntSort(), z3.IntSort())
    t = z3.Int("nz_t")
    u = z3.Int("nz_u")
    n3 = to_z3(n)
    ctx = ex.ctx
    ctx.assume(z3.And(cnt >= 0, cnt <= n3))
    # positions are in range, ascending, satisfy c, and cover every position satisfying c
    ctx.assume(z3.ForAll([t], z3.Implies(z3.And(t >= 0, t < cnt),
                                         z3.And(posf(t) >= 0, posf(t) < n3, to_z3(e((posf(t),)))))))
    ctx.assume(z3.ForAll([t, u], z3.Implies(z3.And(t >= 0, t < u, u < cnt), posf(t) < posf(u))))
    rank = z3.Function(f"nz_rank!{ex.ctx.path_id}_{len(ex.ctx.assumptions)}", z3.IntSort(), z3.IntSort())
    ctx.assume(z3.ForAll([t], z3.Implies(z3.And(t >= 0, t < n3, to_z3(e((t,)))),
                                         z3.And(rank(t) >= 0, rank(t) < cnt, posf(rank(t)) == t))))
    r = NDArray([cnt], lambda idx: posf(to_z3(idx[0])), "int")
    r.where_of = (c, cnt, posf, rank)
    return r


def count_true(ex, a):
    raise Unsupported("count_nonzero of a symbolic-length array")
