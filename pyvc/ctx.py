"""Path/obligation bookkeeping, decision replay (forking by re-execution), solver access."""
import time
import z3
from .vals import *  # noqa


class Oblig:
    __slots__ = ("name", "kind", "formula", "pc", "lineno", "path", "note", "status", "solver", "ms", "model",
                 "task", "reason", "defs")

    def __init__(self, name, kind, formula, pc, lineno=None, path=None, note=""):
        self.name, self.kind, self.formula, self.pc = name, kind, formula, list(pc)
        self.lineno, self.path, self.note = lineno, path, note
        self.status = None
        self.solver = None
        self.ms = 0.0
        self.model = None
        self.task = None
        self.reason = ""
        self.defs = []


_QCACHE = {}


def _has_quant(f):
    k = f.get_id()
    r = _QCACHE.get(k)
    if r is None:
        seen = set()

        def walk(e):
            if e.get_id() in seen:
                return False
            seen.add(e.get_id())
            if z3.is_quantifier(e):
                return True
            return any(walk(c) for c in e.children())
        r = _QCACHE[k] = (k, f, walk(f))       # keep f alive: ids are reused after garbage collection
    return r[2]


class Ctx:
    """State of the symbolic execution of ONE task (a function under a contract); paths are explored by
    re-executing with a decision prefix."""

    def __init__(self, feas_timeout_ms=3000):
        self.assumptions = []       # task-level hypotheses (contract precondition, ghost axioms)
        self.pc = []                # path condition of the current path
        self.epoch = 0              # number of closed scopes on this path (part of the cache keys)
        self._def_facts = set()
        self.trace = []
        self.prefix = []
        self.pending = []
        self.obligs = []
        self.events = []            # free-form notes (writes, opens, pool calls, ...)
        self._fresh = {}
        self._feas_cache = {}
        self.feas_timeout_ms = feas_timeout_ms
        self.solver_s = 0.0
        self.n_feas = 0
        self.path_id = 0
        self.cur_lineno = None
        self.setup_done = False
        self.max_paths = 4000
        self.ghost = {}             # task-level ghost objects (files, spec functions)
        self._defs = {}
        self.defs = []              # definitional equalities of named compound terms (nonlinear products)

    # -- fresh symbols (deterministic per path) -------------------------------------------------
    def fresh(self, name, sort="int"):
        n = self._fresh.get(name, 0)
        self._fresh[name] = n + 1
        nm = name if n == 0 else f"{name}!{n}"
        if sort == "int":
            return z3.Int(nm)
        if sort == "real":
            return z3.Real(nm)
        if sort == "bool":
            return z3.Bool(nm)
        raise ValueError(sort)

    def define(self, term, hint="d"):
        """Name a compound term by a fresh constant (conservative extension): keeps VCs small and lets equal
        sub-terms share one name."""
        if not is_z3(term):
            return term
        t = z3.simplify(term)
        if z3.is_const(t) or z3.is_int_value(t) or z3.is_rational_value(t):
            return t
        key = t.sexpr()
        c = self._defs.get(key)
        if c is None:
            c = self.fresh(hint, "int" if t.is_int() else "real")
            self.defs.append(c == t)
            # sign facts that survive when the definition is abstracted away (stage 1 of discharge)
            if z3.is_mul(t):
                fs = t.children()
                self._assume_def(z3.Implies(z3.And(*[f >= 0 for f in fs]), c >= 0))
                self._assume_def(z3.Implies(z3.And(*[f >= 1 for f in fs]), c >= 1))
            self._defs[key] = c
        return c

    def register_canon(self, *terms):
        """Terms the spec uses for extents / widths: compound terms the program computes are replaced by one of these
        when the path condition entails equality (keeps code and spec syntactically aligned)."""
        c = self.ghost.setdefault("canon", [])
        for t in terms:
            if is_z3(t) and not any(t.eq(x) for x in c):
                c.append(t)

    def canon(self, t):
        if not is_z3(t):
            return t
        t = z3.simplify(t)
        if z3.is_int_value(t) or z3.is_const(t):
            return t
        cands = self.ghost.get("canon", [])
        key = ("canon", t.sexpr(), len(self.pc), len(self.assumptions), self.epoch)
        if key in self._defs:
            return self._defs[key]
        res = t
        for c in cands:
            if c.eq(t):
                break
            if c.sort() != t.sort():
                continue
            s_ = z3.Solver()
            s_.set("timeout", 300)
            s_.add(*self.assumptions)
            s_.add(*self.pc)
            s_.add(t != c)
            if s_.check() == z3.unsat:
                res = c
                break
        self._defs[key] = res
        return res

    def quot(self, t, f):
        """(t div f, t mod f) for a divisor that is positive: named by fresh constants characterised linearly
        (t == q*f + r, 0 <= r < f) in addition to the div/mod terms themselves."""
        if not is_z3(t) and not is_z3(f):
            return t // f, t % f
        t3, f3 = to_z3(t), to_z3(f)
        key = ("quot", z3.simplify(t3).sexpr(), z3.simplify(f3).sexpr())
        hit = self._defs.get(key)
        if hit is None:
            q, r = self.fresh("q"), self.fresh("r")
            self._assume_def(z3.Implies(f3 > 0, z3.And(q == t3 / f3, r == t3 % f3, t3 == q * f3 + r,
                                                        r >= 0, r < f3)))
            hit = (q, r)
            self._defs[key] = hit
        return hit

    # -- paths ----------------------------------------------------------------------------------
    def start_path(self, prefix):
        self._defs = {}
        self.defs = []
        from . import vals as _v
        _v._DEFINER[0] = self.define
        self.pc = []
        self.epoch = 0
        self._def_facts = set()
        self.trace = []
        self.prefix = list(prefix)
        self._fresh = {}
        self.assumptions = []
        self.events = []
        self.path_id += 1
        self.ghost = {}

    def assume(self, f):
        """Task-level assumption (precondition / ghost axiom instance)."""
        if f is True:
            return
        self.assumptions.append(to_z3(f))

    def add_pc(self, f):
        if f is True:
            return
        self.pc.append(to_z3(f))

    def _assume_def(self, f):
        """a fact that characterises a fresh name (valid on its own, whatever scope it is stated in)"""
        self.assumptions.append(f)
        self._def_facts.add(f.get_id())

    def scoped(self, cond):
        """'for an arbitrary x with cond': a block whose path condition holds cond only inside the block.  What the block
        assumes is kept as cond -> fact; on an exception the scope stays open (the exception IS raised under cond)."""
        ctx = self

        class _Scope:
            def __enter__(self_):
                self_.npc, self_.nas = len(ctx.pc), len(ctx.assumptions)
                ctx.add_pc(cond)
                return self_

            def __exit__(self_, et, ev, tb):
                if et is not None:
                    return False
                inner = ctx.pc[self_.npc:]
                new_as = ctx.assumptions[self_.nas:]
                del ctx.assumptions[self_.nas:]
                del ctx.pc[self_.npc:]
                ctx.epoch += 1
                guard = z3.And(*inner) if len(inner) > 1 else (inner[0] if inner else z3.BoolVal(True))
                for a in new_as:
                    ctx.assumptions.append(a if a.get_id() in ctx._def_facts else z3.Implies(guard, a))
                return False
        return _Scope()

    def _check(self, extra, full=False):
        """Satisfiability of the path (+extra).  By default the definitions of named products are left out: the
        query is an over-approximation, so 'unsat' is sound for pruning and anything else keeps the path."""
        t = time.time()
        s = z3.Solver()
        s.set("timeout", self.feas_timeout_ms if not full else 10000)
        if full:
            s.add(*self.assumptions)
            s.add(*self.pc)
            s.add(*self.defs)
        else:
            # quantified facts are left out as well (satisfiability with quantifiers mostly ends in 'unknown' after
            # the whole budget): still an over-approximation
            s.add(*[f for f in self.assumptions if not _has_quant(f)])
            s.add(*[f for f in self.pc if not _has_quant(f)])
        s.add(*extra)
        r = s.check()
        self.solver_s += time.time() - t
        self.n_feas += 1
        return r

    def entails(self, f, timeout_ms=2000):
        """True when the path condition (with the definitions of named products) proves f; False = not known"""
        t = time.time()
        s = z3.Solver()
        s.set("timeout", timeout_ms)
        s.add(*self.assumptions)
        s.add(*self.pc)
        s.add(*self.defs)
        s.add(z3.Not(to_z3(f)))
        r = s.check()
        self.solver_s += time.time() - t
        return r == z3.unsat

    def path_infeasible(self):
        return self._check([], full=True) == z3.unsat

    def feasible(self, cond):
        r = self._check([cond])
        return r != z3.unsat

    def choose(self, n, feas=None):
        """n-ary nondeterministic choice; explored exhaustively by re-execution."""
        i = len(self.trace)
        if i < len(self.prefix):
            c = self.prefix[i]
        else:
            c = 0
            for alt in range(n - 1, 0, -1):
                self.pending.append(self.trace + [alt])
        self.trace.append(c)
        return c

    def branch(self, cond):
        """Branch on a boolean; returns the python bool taken on this path."""
        if isinstance(cond, bool):
            return cond
        c = as_const(cond)
        if c is True or c is False:
            return c
        key = (tuple(self.trace), len(self.pc), self.epoch)
        i = len(self.trace)
        ft = self._feas_cache.get((key, "t"))
        if ft is None:
            ft = self.feasible(cond)
            ff = self.feasible(z3.Not(cond))
            self._feas_cache[(key, "t")] = ft
            self._feas_cache[(key, "f")] = ff
        else:
            ff = self._feas_cache[(key, "f")]
        if ft and ff:
            if i < len(self.prefix):
                take = bool(self.prefix[i])
            else:
                take = True
                self.pending.append(self.trace + [0])
            self.trace.append(int(take))
            self.add_pc(cond if take else z3.Not(cond))
            return take
        if ft:
            self.add_pc(cond)     # keeps later queries cheap; implied anyway
            return True
        if ff:
            self.add_pc(z3.Not(cond))
            return False
        raise Infeasible()

    def check_or_raise(self, cond, etype, msg=""):
        """Library precondition with Python semantics: if it can fail, that path raises `etype`."""
        if not self.branch(cond):
            raise SymRaise(etype, msg, self.cur_lineno)

    # -- obligations ----------------------------------------------------------------------------
    @staticmethod
    def _conjuncts(f, limit=24):
        """flatten And / Implies(A, And(..)) so that each conjunct is discharged by its own (smaller) query"""
        out = []

        def walk(g, hyp):
            if len(out) >= limit:
                out.append(g if hyp is None else z3.Implies(hyp, g))
                return
            if z3.is_and(g):
                for c in g.children():
                    walk(c, hyp)
            elif z3.is_implies(g) and z3.is_and(g.arg(1)):
                h = g.arg(0) if hyp is None else z3.And(hyp, g.arg(0))
                for c in g.arg(1).children():
                    walk(c, h)
            else:
                out.append(g if hyp is None else z3.Implies(hyp, g))
        walk(f, None)
        return out

    def oblige(self, name, formula, kind="P", note="", split=True):
        if formula is True:
            formula = z3.BoolVal(True)
        if formula is False:
            formula = z3.BoolVal(False)
        # (conjunctive goals are first tried whole and split by the discharger only when that stays undecided:
        #  neither form is uniformly easier for the solvers)
        o = Oblig(name, kind, formula, self.assumptions + self.pc, self.cur_lineno, list(self.trace), note)
        o.defs = list(self.defs)
        self.obligs.append(o)
        return o

    def structure(self, name, ok, note=""):
        """The SHAPE a contract expects of an internal interface or representation (arity of a returned tuple, a local a
        fragment defines, an attribute of an internal object, the number of helper objects built, a source pattern).  Code of
        another shape is not a violation of the property by itself - a consistent refactoring changes both sides of an
        internal interface - so the task becomes UNDECIDED (the run-time layer, which only sees the public behaviour,
        decides); only values inside the expected shape are obligations."""
        if is_z3(ok):
            c = as_const(ok)
            ok = c if isinstance(c, bool) else self.entails(ok)
        if not ok:
            raise Unsupported(f"internal structure differs from what the contract expects: {name}{' - ' + note if note else ''}")
        return self.oblige(name, True, "P", note)

    def note(self, *ev):
        self.events.append(ev)
