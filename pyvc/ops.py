"""Operators, indexing and item assignment over the symbolic value domain."""
import z3
from .vals import *  # noqa

pow2 = z3.Function("pow2", z3.IntSort(), z3.IntSort())


def _is_scalar(v):
    return isinstance(v, (int, float, bool)) or isinstance(v, (z3.ArithRef, z3.BoolRef))


def b2i(v):
    """bool -> int for arithmetic."""
    if isinstance(v, bool):
        return int(v)
    if is_sym_bool(v):
        return z3.If(v, 1, 0)
    return v


def py_floordiv(a, b):
    a3, b3 = to_z3(a), to_z3(b)
    if isinstance(b, int) and b > 0:
        return a3 / b3
    return z3.If(z3.Or(b3 > 0, a3 % b3 == 0), a3 / b3, a3 / b3 - 1)


def py_mod(a, b):
    a3, b3 = to_z3(a), to_z3(b)
    if isinstance(b, int) and b > 0:
        return a3 % b3
    return z3.If(z3.Or(b3 > 0, a3 % b3 == 0), a3 % b3, a3 % b3 + b3)


def scalar_binop(ex, op, a, b):
    a, b = b2i(a), b2i(b)
    conc = not is_z3(a) and not is_z3(b)
    if op == "Add":
        return a + b
    if op == "Sub":
        return a - b
    if op == "Mult":
        if conc:
            return a * b
        a3, b3 = to_z3(a), to_z3(b)
        if a3.is_int() != b3.is_int():
            a3, b3 = to_real(a3), to_real(b3)
        return a3 * b3
    if op == "Div":
        if conc:
            if b == 0:
                raise SymRaise("ZeroDivisionError", "division by zero")
            return a / b
        if is_z3(b):
            ex.ctx.check_or_raise(to_z3(b) != 0, "ZeroDivisionError", "division by zero")
        elif b == 0:
            raise SymRaise("ZeroDivisionError", "division by zero")
        return to_real(a) / to_real(b)
    if op == "FloorDiv":
        if conc:
            if b == 0:
                raise SymRaise("ZeroDivisionError", "")
            return a // b
        if is_sym_real(a) or is_sym_real(b) or isinstance(a, float) or isinstance(b, float):
            raise Unsupported("floor division of reals")
        if is_z3(b):
            ex.ctx.check_or_raise(to_z3(b) != 0, "ZeroDivisionError", "integer division by zero")
        elif b == 0:
            raise SymRaise("ZeroDivisionError", "")
        return ex.ctx.canon(py_floordiv(a, b))
    if op == "Mod":
        if conc:
            if b == 0:
                raise SymRaise("ZeroDivisionError", "")
            return a % b
        if is_sym_real(a) or is_sym_real(b) or isinstance(a, float) or isinstance(b, float):
            raise Unsupported("modulo of reals")
        if is_z3(b):
            ex.ctx.check_or_raise(to_z3(b) != 0, "ZeroDivisionError", "modulo by zero")
        return py_mod(a, b)
    if op == "Pow":
        if conc:
            return a ** b
        if isinstance(b, int) and 0 <= b <= 4:
            r = 1
            for _ in range(b):
                r = r * a if not (isinstance(r, int) and r == 1) else a
            return r
        if isinstance(a, int) and a == 2 and is_sym_int(b):
            bc = as_const(b)
            if isinstance(bc, int) and bc >= 0:
                return 2 ** bc
            t = pow2(b)
            ex.ctx.assume(z3.Implies(b >= 0, t >= 1))
            ex.ctx.assume(z3.Implies(b == 0, t == 1))
            ex.ctx.assume(z3.Implies(b >= 1, z3.And(t == 2 * pow2(b - 1), pow2(b - 1) >= 1)))
            # python: 2 ** negative is a float; the repo only uses it with limit >= level
            ex.ctx.check_or_raise(b >= 0, "Unsupported2PowNeg", "2**negative")
            return t
        raise Unsupported("symbolic power")
    if op in ("BitAnd", "BitOr", "BitXor"):
        if isinstance(a, (bool, z3.BoolRef)) or isinstance(b, (bool, z3.BoolRef)):
            pass
        raise Unsupported("integer bit operation")
    raise Unsupported(f"operator {op}")


def bool_binop(op, a, b):
    if op == "BitAnd":
        if a is False or b is False:
            return False
        return zand(a, b) if (is_z3(a) or is_z3(b)) else (a and b)
    if op == "BitOr":
        if a is True or b is True:
            return True
        return zor(a, b) if (is_z3(a) or is_z3(b)) else (a or b)
    if op == "BitXor":
        return z3.Xor(to_z3(a), to_z3(b)) if (is_z3(a) or is_z3(b)) else (a != b)
    raise Unsupported(op)


def _isbool(v):
    return isinstance(v, bool) or is_sym_bool(v)


def elem_binop(ex, op, a, b, array=False):
    if op in ("BitAnd", "BitOr", "BitXor") and _isbool(a) and _isbool(b):
        return bool_binop(op, a, b)
    if array and op == "Div" and (is_z3(a) or is_z3(b)):
        # numpy float division never raises (x/0 is inf/nan): a total, otherwise unspecified value for b == 0
        return to_real(b2i(a)) / to_real(b2i(b))
    return scalar_binop(ex, op, a, b)


def broadcast_shapes(ex, sa, sb):
    """numpy broadcasting of two shapes (lists); returns (shape, mapa, mapb) with index maps."""
    ra, rb = len(sa), len(sb)
    r = max(ra, rb)
    pa = [1] * (r - ra) + list(sa)
    pb = [1] * (r - rb) + list(sb)
    shape, ka, kb = [], [], []
    for x, y in zip(pa, pb):
        cx, cy = as_const(x) if is_z3(x) else x, as_const(y) if is_z3(y) else y
        if cx == 1 and cy != 1:
            shape.append(y); ka.append(False); kb.append(True)
        elif cy == 1 and cx != 1:
            shape.append(x); ka.append(True); kb.append(False)
        else:
            if not (isinstance(cx, int) and isinstance(cy, int) and cx == cy):
                ex.ctx.check_or_raise(to_z3(x) == to_z3(y), "ValueError", "operands could not be broadcast together")
            shape.append(x); ka.append(True); kb.append(True)
    def mk(keep, rr):
        off = r - rr
        return lambda idx: tuple(idx[d] if keep[d] else 0 for d in range(off, r))
    return shape, mk(ka, ra), mk(kb, rb)


def as_ndarray(v):
    """Vec/list/scalar -> NDArray view of the same data (for uniform elementwise handling)."""
    if isinstance(v, NDArray):
        return v
    if isinstance(v, Vec):
        items = list(v.items)
        def el(idx, items=items):
            i = idx[0]
            c = as_const(i) if is_z3(i) else i
            if isinstance(c, int):
                return items[c]
            r = items[-1]
            for k in range(len(items) - 2, -1, -1):
                r = zite(i == k, items[k], r)
            return r
        return NDArray([len(items)], el, dtype="int")
    if isinstance(v, (list, tuple)):
        if all(_is_scalar(x) for x in v):
            return as_ndarray(Vec(v))
        raise Unsupported("nested list as array")
    if _is_scalar(v):
        return NDArray([], lambda idx, v=v: v)
    raise Unsupported(f"as_ndarray({type(v).__name__})")


def nd_elementwise(ex, f, a, b, dtype=None):
    A, B = as_ndarray(a), as_ndarray(b)
    shape, ma, mb = broadcast_shapes(ex, A.shape, B.shape)
    ea, ia = A.snapshot()
    eb, ib = B.snapshot()
    return NDArray(shape, lambda idx: f(ea(ma(idx)), eb(mb(idx))),
                   dtype=dtype or (A.dtype if A.dtype == B.dtype else "f8"),
                   init=lambda idx: zand(ia(ma(idx)), ib(mb(idx))))


def vec_elementwise(ex, f, a, b, kind="array"):
    la = a.items if isinstance(a, Vec) else None
    lb = b.items if isinstance(b, Vec) else None
    if la is not None and lb is not None:
        if len(la) == len(lb):
            return Vec([f(x, y) for x, y in zip(la, lb)], kind)
        if len(la) == 1:
            return Vec([f(la[0], y) for y in lb], kind)
        if len(lb) == 1:
            return Vec([f(x, lb[0]) for x in la], kind)
        raise SymRaise("ValueError", "operands could not be broadcast together")
    if la is not None:
        return Vec([f(x, b) for x in la], kind)
    return Vec([f(a, y) for y in lb], kind)


def _arr_like(v):
    return isinstance(v, NDArray) or (isinstance(v, Vec) and v.kind == "array")


def binop(ex, op, a, b):
    from .strings import SStr, sconcat
    from .libos import PathVal, path_concat
    if isinstance(a, PathVal) or isinstance(b, PathVal):
        if op == "Add":
            return path_concat(ex, a, b)
        raise Unsupported(f"operator {op} on a path")
    # arithmetic with None: TypeError (python semantics; the mandoline workers rely on it for fidx = None)
    if (a is None and (is_z3(b) or isinstance(b, (int, float)))) or (b is None and (is_z3(a) or isinstance(a, (int, float)))):
        raise SymRaise("TypeError", f"unsupported operand type(s) for {op}: NoneType")
    # strings
    if isinstance(a, (str, SStr)) and isinstance(b, (str, SStr)) and op == "Add":
        return sconcat(ex, [a, b])
    if isinstance(a, str) and op == "Mult" and isinstance(b, int):
        return a * b
    if isinstance(a, str) and op == "Mod":
        raise Unsupported("%-formatting")
    if isinstance(a, bytes) and isinstance(b, bytes) and op == "Add":
        return a + b
    # python sequences
    if isinstance(a, list) and isinstance(b, list) and op == "Add":
        return a + b
    if isinstance(a, tuple) and isinstance(b, tuple) and op == "Add":
        return a + b
    if isinstance(a, (list, tuple)) and op == "Mult" and is_intlike(b):
        c = as_const(b) if is_z3(b) else b
        if isinstance(c, int):
            return a * c
        if len(a) == 1:
            x = a[0]
            return SymSeq(zmax(b, 0), lambda i, x=x: x)
        raise Unsupported("list * symbolic int")
    if isinstance(b, (list, tuple)) and op == "Mult" and is_intlike(a):
        return binop(ex, op, b, a)
    if isinstance(a, Vec) and a.kind != "array" and isinstance(b, Vec) and b.kind != "array" and op == "Add":
        return Vec(a.items + b.items, a.kind)
    # MaskedSel
    from .libnp import MaskedSel
    if isinstance(a, MaskedSel) or isinstance(b, MaskedSel):
        return MaskedSel.binop(ex, op, a, b)
    # arrays
    if isinstance(a, NDArray) or isinstance(b, NDArray):
        if isinstance(a, (list, tuple)):
            a = Vec(a)
        if isinstance(b, (list, tuple)):
            b = Vec(b)
        return nd_elementwise(ex, lambda x, y: elem_binop(ex, op, x, y, array=True), a, b)
    if _arr_like(a) or _arr_like(b):
        if isinstance(a, (list, tuple)):
            a = Vec(a)
        if isinstance(b, (list, tuple)):
            b = Vec(b)
        if (isinstance(a, Vec) or _is_scalar(a)) and (isinstance(b, Vec) or _is_scalar(b)):
            return vec_elementwise(ex, lambda x, y: elem_binop(ex, op, x, y), a, b)
    if _is_scalar(a) and _is_scalar(b):
        return elem_binop(ex, op, a, b)
    if isinstance(a, Vec) and isinstance(b, Vec) and op == "Add":
        return Vec(a.items + b.items, a.kind)
    raise Unsupported(f"binop {op} on {type(a).__name__}, {type(b).__name__}")


def inplace_binop(ex, op, cur, rhs):
    """x op= rhs.  Returns NotImplemented to fall back to x = x op rhs."""
    if isinstance(cur, NDArray):
        res = binop(ex, op, cur, rhs)
        e, i = res.snapshot()
        # result keeps cur's shape (numpy would raise if broadcasting enlarged it)
        set_region(ex, cur, lambda idx: True, e, i)
        return cur
    if isinstance(cur, Vec) and cur.kind == "array":
        # a numpy vector is updated IN PLACE: every alias of it sees the new contents
        res = binop(ex, op, cur, rhs)
        ri = res.items if isinstance(res, Vec) else [as_ndarray(res).elem((i,)) for i in range(len(cur.items))]
        if len(ri) != len(cur.items):
            raise SymRaise("ValueError", "non-broadcastable output operand")
        cur.items[:] = ri
        return cur
    if isinstance(cur, list) and op == "Add":
        items = ex.as_iterable(rhs)
        if isinstance(items, list):
            cur.extend(items)
            return cur
    return NotImplemented


def unop(ex, op, v):
    from .libnp import MaskedSel
    if op == "Not":
        t = ex.truth(v)
        return not t
    if op == "USub":
        if _is_scalar(v):
            return -b2i(v)
        if isinstance(v, Vec):
            return Vec([-x for x in v.items], v.kind)
        if isinstance(v, NDArray):
            e, i = v.snapshot()
            return NDArray(v.shape, lambda idx: -e(idx), v.dtype, i)
    if op == "UAdd":
        return v
    if op == "Invert":
        if isinstance(v, bool):
            return not v      # numpy.bool_ semantics (np.isclose returns numpy bools)
        if is_sym_bool(v):
            return z3.Not(v)
        if isinstance(v, NDArray) and v.dtype == "bool":
            e, i = v.snapshot()
            r = NDArray(v.shape, lambda idx: simp_not(e(idx)), "bool", i)
            r.neg_of = v
            return r
        if isinstance(v, Vec):
            return Vec([simp_not(x) for x in v.items], v.kind)
    raise Unsupported(f"unary {op} on {type(v).__name__}")


def simp_not(x):
    if isinstance(x, bool):
        return not x
    return z3.Not(x)


CMP = {
    "Eq": lambda a, b: a == b, "NotEq": lambda a, b: a != b, "Lt": lambda a, b: a < b,
    "LtE": lambda a, b: a <= b, "Gt": lambda a, b: a > b, "GtE": lambda a, b: a >= b,
}


def scalar_cmp(op, a, b):
    a, b = b2i(a) if not (_isbool(a) and _isbool(b)) else a, b2i(b) if not (_isbool(a) and _isbool(b)) else b
    if _isbool(a) and _isbool(b) and (is_z3(a) or is_z3(b)):
        if op == "Eq":
            return to_z3(a) == to_z3(b)
        if op == "NotEq":
            return to_z3(a) != to_z3(b)
    if is_z3(a) or is_z3(b):
        a3, b3 = to_z3(a), to_z3(b)
        if isinstance(a3, z3.ArithRef) and isinstance(b3, z3.ArithRef) and a3.is_int() != b3.is_int():
            a3, b3 = to_real(a3), to_real(b3)
        r = CMP[op](a3, b3)
        c = as_const(r)
        return r if c is None else c
    return CMP[op](a, b)


def sym_of(v):
    return getattr(v, "sym", None) if isinstance(v, Opaque) else None


def compare(ex, op, a, b):
    from .strings import SStr, str_eq, str_contains
    if op in ("Is", "IsNot"):
        if a is None or b is None:
            r = (a is None) and (b is None)
        elif _is_scalar(a) and _is_scalar(b) and not is_z3(a) and not is_z3(b):
            r = a is b or a == b
        else:
            r = a is b
        return r if op == "Is" else not r
    if op in ("In", "NotIn"):
        r = contains(ex, b, a)
        if op == "In":
            return r
        return (not r) if isinstance(r, bool) else z3.Not(r)
    # None
    if a is None or b is None:
        if op == "Eq":
            return a is None and b is None
        if op == "NotEq":
            return not (a is None and b is None)
        raise SymRaise("TypeError", "comparison with None")
    if isinstance(a, Record) and a.cls and ex.repo.classdef(a.cls) and op in ("Eq", "NotEq") \
            and ex.repo.method(a.cls, "__eq__"):
        r = ex.call_qual(f"{a.cls}.__eq__", [b], {}, self_obj=a)
        if op == "Eq":
            return r
        t = ex.truth(r)
        return not t
    if _is_scalar(a) and _is_scalar(b):
        return scalar_cmp(op, a, b)
    from .libos import PathVal, path_eq
    if isinstance(a, PathVal) or isinstance(b, PathVal):
        if op not in ("Eq", "NotEq"):
            raise Unsupported("ordering of paths")
        if not isinstance(a, (PathVal, str)) or not isinstance(b, (PathVal, str)):
            return op == "NotEq"
        r = path_eq(ex, a, b)
        return r if op == "Eq" else not r
    from .libfile import Line
    from .headers import CanonHdr, line_eq
    if isinstance(a, (Line, CanonHdr)) or isinstance(b, (Line, CanonHdr)):
        if op not in ("Eq", "NotEq"):
            raise Unsupported("ordering of header lines")
        if not isinstance(a, (Line, CanonHdr)) or not isinstance(b, (Line, CanonHdr)):
            raise Unsupported("comparison of a header line with other text")
        r = line_eq(ex, a, b)
        if op == "Eq":
            return r
        return (not r) if isinstance(r, bool) else z3.Not(r)
    # numpy array of strings compared with a string (or with another such array): elementwise
    if isinstance(a, Vec) and a.kind == "array" and isinstance(b, (str, SStr)) and op in ("Eq", "NotEq"):
        return Vec([compare(ex, op, x, b) for x in a.items], "array")
    if isinstance(b, Vec) and b.kind == "array" and isinstance(a, (str, SStr)) and op in ("Eq", "NotEq"):
        return Vec([compare(ex, op, a, x) for x in b.items], "array")
    if isinstance(a, (str, SStr, bytes)) or isinstance(b, (str, SStr, bytes)):
        if type(a) is type(b) and isinstance(a, (str, bytes)):
            return CMP[op](a, b)
        if op in ("Eq", "NotEq"):
            r = str_eq(ex, a, b)
            if op == "Eq":
                return r
            return (not r) if isinstance(r, bool) else z3.Not(r)
        raise Unsupported("ordering of symbolic strings")
    if isinstance(a, Opaque) and isinstance(b, Opaque) and op in ("Eq", "NotEq"):
        if a is b:
            r = True
        elif sym_of(a) is not None and sym_of(b) is not None:
            r = sym_of(a) == sym_of(b)
        else:
            raise Unsupported(f"equality of opaque values {a} {b}")
        if op == "Eq":
            return r
        return (not r) if isinstance(r, bool) else z3.Not(r)
    from .libnp import MaskedSel
    if isinstance(a, NDArray) or isinstance(b, NDArray):
        if isinstance(a, (list, tuple)):
            a = Vec(a)
        if isinstance(b, (list, tuple)):
            b = Vec(b)
        if isinstance(a, Opaque) or isinstance(b, Opaque):
            arr, o = (a, b) if isinstance(a, NDArray) else (b, a)
            e, i = arr.snapshot()
            return NDArray(arr.shape, lambda idx: compare(ex, op, e(idx), o), "bool", i)
        return nd_elementwise(ex, lambda x, y: scalar_cmp(op, x, y), a, b, dtype="bool")
    if (isinstance(a, Vec) and a.kind == "array") or (isinstance(b, Vec) and b.kind == "array"):
        if isinstance(a, (list, tuple)):
            a = Vec(a)
        if isinstance(b, (list, tuple)):
            b = Vec(b)
        return vec_elementwise(ex, lambda x, y: scalar_cmp(op, x, y), a, b)
    if isinstance(a, (list, tuple, Vec)) and isinstance(b, (list, tuple, Vec)) and op in ("Eq", "NotEq"):
        la = a.items if isinstance(a, Vec) else list(a)
        lb = b.items if isinstance(b, Vec) else list(b)
        if len(la) != len(lb):
            r = False
        else:
            parts = [compare(ex, "Eq", x, y) for x, y in zip(la, lb)]
            if all(isinstance(p, bool) for p in parts):
                r = all(parts)
            else:
                r = zand(*parts)
        if op == "Eq":
            return r
        return (not r) if isinstance(r, bool) else z3.Not(r)
    if isinstance(a, FuncVal) or isinstance(b, FuncVal):
        r = a == b
        return r if op == "Eq" else not r
    if type(a).__name__ == "DType" or type(b).__name__ == "DType":
        def dn(x):
            if type(x).__name__ == "DType":
                return x.name
            from .exec import LibFn
            if isinstance(x, LibFn) and x.mod == "builtins":
                return {"int": "int", "float": "f8", "bool": "bool", "str": "str", "object": "object"}.get(x.attr, x.attr)
            if isinstance(x, str):
                return {"float64": "f8", "int64": "int", "float": "f8"}.get(x, x)
            return None
        r = dn(a) is not None and dn(a) == dn(b)
        return r if op == "Eq" else not r
    if (isinstance(a, SymSeq) or isinstance(b, SymSeq)) and op in ("Eq", "NotEq") and \
            isinstance(a, (SymSeq, list)) and isinstance(b, (SymSeq, list)):
        la = a.length if isinstance(a, SymSeq) else len(a)
        lb = b.length if isinstance(b, SymSeq) else len(b)
        if (isinstance(lb, int) and lb == 0) or (isinstance(la, int) and la == 0):
            r = to_z3(la) == to_z3(lb)
            return r if op == "Eq" else z3.Not(r)
        raise Unsupported("equality of symbolic-length lists")
    if op in ("Eq", "NotEq"):
        if type(a) is type(b) and isinstance(a, (dict, set, range, slice)):
            return CMP[op](a, b)
        if a is b:
            return op == "Eq"
    raise Unsupported(f"compare {op} on {type(a).__name__}, {type(b).__name__}")


def contains(ex, cont, x):
    from .strings import SStr, str_contains
    if isinstance(cont, (str, SStr)):
        return str_contains(ex, cont, x)
    if isinstance(cont, dict):
        if isinstance(x, Opaque):
            return any(k is x for k in cont)
        if hasattr(cont, "contains"):
            return cont.contains(ex, x)
        try:
            return ex.hashable(x) in cont
        except TypeError:
            raise SymRaise("TypeError", "unhashable")
    if isinstance(cont, (list, tuple, set, Vec)):
        items = cont.items if isinstance(cont, Vec) else list(cont)
        parts = []
        for it in items:
            if x is None or it is None:
                if x is None and it is None:
                    return True
                continue
            try:
                parts.append(compare(ex, "Eq", it, x))
            except Unsupported:
                raise
        if all(isinstance(p, bool) for p in parts):
            return any(parts)
        if any(p is True for p in parts):
            return True
        return zor(*[p for p in parts if p is not False])
    if hasattr(cont, "contains"):
        return cont.contains(ex, x)
    raise Unsupported(f"'in' on {type(cont).__name__}")


# ------------------------------------------------------------------------------------------------
# indexing


def norm_index(ex, i, n, what="index"):
    """Python/numpy integer index normalisation with bounds check (IndexError path if it can fail)."""
    if isinstance(i, int) and isinstance(n, int):
        if not -n <= i < n:
            raise SymRaise("IndexError", f"{what} {i} out of range {n}")
        return i + n if i < 0 else i
    i3, n3 = to_z3(i), to_z3(n)
    ex.ctx.check_or_raise(z3.And(i3 >= -n3, i3 < n3), "IndexError", f"{what} out of range")
    if isinstance(i, int):
        return i if i >= 0 else simp(n3 + i)
    c = as_const(i3 >= 0)
    if c is True:
        return i
    if ex.ctx.branch(i3 >= 0):
        return i
    return simp(i3 + n3)


def _list_getitem(ex, lst, key):
    if isinstance(key, SSlice):
        parts = [as_const(p) if is_z3(p) else p for p in (key.start, key.stop, key.step)]
        if any(p is None and q is not None for p, q in zip(parts, (key.start, key.stop, key.step))):
            # slicing never raises (step 0 excepted): the selected sub-list has a symbolic length
            step = 1 if key.step is None else key.step
            if is_z3(step):
                ex.ctx.check_or_raise(to_z3(step) != 0, "ValueError", "slice step cannot be zero")
            s_, e_, st_ = slice_indices(key, len(lst))
            n_ = slice_len(s_, e_, st_)

            def get(i, lst=lst, s_=s_, st_=st_):
                pos = s_ + i * st_
                if all(_is_scalar(x) for x in lst):
                    r = lst[-1]
                    for j in range(len(lst) - 2, -1, -1):
                        r = zite(to_z3(pos) == j, lst[j], r)
                    return r
                raise Unsupported("element of a symbolic slice of a list of structured values")
            return SymSeq(simp(to_z3(n_)), get, "list")
        return lst[slice(*parts)]
    if is_intlike(key):
        c = as_const(key) if is_z3(key) else key
        if isinstance(c, int):
            if not -len(lst) <= c < len(lst):
                raise SymRaise("IndexError", "list index out of range")
            return lst[c]
        k = norm_index(ex, key, len(lst))
        if all(_is_scalar(x) for x in lst):
            r = lst[-1]
            for j in range(len(lst) - 2, -1, -1):
                r = zite(k == j, lst[j], r)
            return r
        # fork on the value of the index
        for j in range(len(lst)):
            if j == len(lst) - 1 or ex.ctx.branch(to_z3(k) == j):
                return lst[j]
    if isinstance(key, bool):
        return lst[int(key)]
    raise SymRaise("TypeError", f"list indices must be integers or slices, not {type(key).__name__}")


def getitem(ex, obj, key):
    from .strings import SStr, str_getitem
    from .libnp import nd_getitem
    if isinstance(obj, (list, tuple)):
        if isinstance(key, (list, tuple, Vec, NDArray)) and isinstance(obj, list):
            raise SymRaise("TypeError", "list indices must be integers or slices")
        r = _list_getitem(ex, list(obj), key)
        if isinstance(key, SSlice) and isinstance(obj, tuple):
            return tuple(r)
        return r
    if isinstance(obj, dict):
        if hasattr(obj, "getitem"):
            return obj.getitem(ex, key)
        if isinstance(key, Opaque):
            for k, v in obj.items():
                if k is key:
                    return v
            raise SymRaise("KeyError", str(key))
        k = ex.hashable(key)
        if k not in obj:
            raise SymRaise("KeyError", str(k))
        return obj[k]
    if isinstance(obj, Vec):
        if isinstance(key, SSlice) or is_intlike(key):
            r = _list_getitem(ex, obj.items, key)
            if isinstance(r, SymSeq):
                return r
            return Vec(r, obj.kind) if isinstance(key, SSlice) else r
        if obj.kind == "array":
            ks = key.items if isinstance(key, Vec) else (list(key) if isinstance(key, (list, tuple)) else None)
            if ks is not None and not all(_is_scalar(x) for x in obj.items) and \
                    all(is_intlike(k) and not isinstance(k, bool) for k in ks):
                # array of objects (names, index ranges) taken at an index array: every index decided by a case split
                return Vec([obj.items[concretize_index(ex, k, len(obj.items))] for k in ks], "array")
            return nd_getitem(ex, as_ndarray(obj), key, prefer_vec=True)
        raise SymRaise("TypeError", "list indices must be integers or slices")
    if isinstance(obj, NDArray):
        return nd_getitem(ex, obj, key)
    if isinstance(obj, SymSeq):
        if is_intlike(key):
            return obj.get(norm_index(ex, key, obj.length))
        if isinstance(key, SSlice):
            if key.step is not None and key.step != 1:
                raise Unsupported("stepped slice of a symbolic list")
            s, e, _ = slice_indices(key, obj.length)
            n = slice_len(s, e, 1)
            return SymSeq(n, lambda i, s=s: obj.get(s + i), obj.kind)
        if obj.kind == "ndarray":
            raise Unsupported("fancy index of symbolic sequence")
        raise SymRaise("TypeError", "list indices must be integers or slices")
    if isinstance(obj, (str, SStr, bytes)):
        return str_getitem(ex, obj, key)
    if isinstance(obj, range):
        return _list_getitem(ex, list(obj), key)
    if isinstance(obj, Record) and obj.cls and ex.repo.classdef(obj.cls) and ex.repo.method(obj.cls, "__getitem__"):
        return ex.call_qual(f"{obj.cls}.__getitem__", [key], {}, self_obj=obj)
    if hasattr(obj, "getitem"):
        return obj.getitem(ex, key)
    raise program_type_error(obj, f"{type(obj).__name__} object is not subscriptable")


def set_region(ex, arr, region, val, vinit=None):
    """arr[idx] = val(idx) for every idx with region(idx); through views down to the owning array."""
    if arr.base is not None:
        b, imap = arr.base
        inv = arr.inv
        if inv is None:
            raise Unsupported("assignment through a non-affine view")
        def region_b(bidx):
            inside, vidx = inv(bidx)
            return zand(inside, region(vidx))
        def val_b(bidx):
            return val(inv(bidx)[1])
        vi_b = None if vinit is None else (lambda bidx: vinit(inv(bidx)[1]))
        return set_region(ex, b, region_b, val_b, vi_b)
    old_e, old_i = arr._elem, arr._init
    arr._elem = lambda idx: zite(region(idx), val(idx), old_e(idx))
    if old_i is not None or vinit is not None:
        oi = (lambda idx: True) if old_i is None else old_i
        vi = (lambda idx: True) if vinit is None else vinit
        arr._init = lambda idx: zite(region(idx), vi(idx), oi(idx))


def concretize_index(ex, k, n):
    """decide a symbolic index into a concrete-length container by a case split (one path per feasible value); numpy/python
    semantics: negative values wrap, out of range raises IndexError"""
    c = as_const(k) if is_z3(k) else k
    if isinstance(c, int):
        if not -n <= c < n:
            raise SymRaise("IndexError", "index out of range")
        return c % n if n else c
    k3 = to_z3(k)
    for c in range(n):
        if ex.ctx.branch(z3.Or(k3 == c, k3 == c - n)):
            return c
    raise SymRaise("IndexError", "index out of range")


def setitem(ex, obj, key, v):
    from .libnp import nd_setitem
    if isinstance(obj, list):
        if is_intlike(key):
            c = as_const(key) if is_z3(key) else key
            if not isinstance(c, int):
                raise Unsupported("symbolic index assignment into a python list")
            if not -len(obj) <= c < len(obj):
                raise SymRaise("IndexError", "list assignment index out of range")
            obj[c] = v
            return
        raise Unsupported("list slice assignment")
    if isinstance(obj, dict):
        if hasattr(obj, "setitem"):
            return obj.setitem(ex, key, v)
        if isinstance(key, Opaque):
            obj[key] = v
            return
        obj[ex.hashable(key)] = v
        return
    if isinstance(obj, Vec):
        c = as_const(key) if is_z3(key) else key
        if isinstance(c, int) and not isinstance(c, bool):
            if not -len(obj.items) <= c < len(obj.items):
                raise SymRaise("IndexError", "index out of range")
            obj.items[c] = v
            return
        if isinstance(key, NDArray) and key.dtype == "bool" and key.ndim == 1:
            n_ = as_const(key.shape[0]) if is_z3(key.shape[0]) else key.shape[0]
            if isinstance(n_, int):
                key = Vec([key.elem((i,)) for i in range(n_)], "array")
        # boolean mask of the same length: elementwise choice
        if isinstance(key, Vec) and len(key.items) == len(obj.items) and key.items and \
                all(isinstance(k, bool) or is_sym_bool(k) for k in key.items):
            from .libnp import MaskedSel
            if isinstance(v, MaskedSel):
                from .ops import as_ndarray as _asnd
                src = _asnd(v.src)
                vals = [src.elem((i,)) for i in range(len(obj.items))]
            elif isinstance(v, Vec) and v.kind == "array" and all(isinstance(k, bool) for k in key.items) and \
                    len(v.items) == sum(1 for k in key.items if k):
                # packed values for a CONCRETE mask: the t-th value goes to the t-th selected position
                it = iter(v.items)
                vals = [next(it) if k else None for k in key.items]
            elif isinstance(v, (Vec, list, tuple)):
                raise Unsupported("masked assignment of a packed value vector")
            else:
                vals = [v] * len(obj.items)
            if obj.items and all(isinstance(o, bool) or is_sym_bool(o) for o in obj.items):
                # a boolean array keeps its dtype: numbers assigned into it are truth values
                vals = [(x if isinstance(x, bool) or is_sym_bool(x) or x is None else (x != 0 if not is_z3(x) else to_z3(x) != 0)) for x in vals]
            obj.items = [zite(k, nv, old) if is_z3(k) else (nv if k else old) for k, nv, old in zip(key.items, vals, obj.items)]
            return
        # a[ids] = value(s) with an index array: each index is decided by a case split (path fork) when symbolic
        if isinstance(key, (Vec, list, tuple)):
            ks = key.items if isinstance(key, Vec) else list(key)
            if all(is_intlike(k) and not isinstance(k, bool) for k in ks):
                vals = v.items if isinstance(v, Vec) else (list(v) if isinstance(v, (list, tuple)) else None)
                if vals is not None and len(vals) != len(ks):
                    raise SymRaise("ValueError", "shape mismatch in index assignment")
                for t, k in enumerate(ks):
                    c = concretize_index(ex, k, len(obj.items))
                    obj.items[c] = v if vals is None else vals[t]
                return
        if is_intlike(key) and not isinstance(key, bool):
            c = concretize_index(ex, key, len(obj.items))
            obj.items[c] = v
            return
        raise Unsupported("Vec assignment with non-constant index")
    if isinstance(obj, NDArray):
        return nd_setitem(ex, obj, key, v)
    if isinstance(obj, tuple):
        raise SymRaise("TypeError", "'tuple' object does not support item assignment")
    if hasattr(obj, "setitem"):
        return obj.setitem(ex, key, v)
    raise Unsupported(f"setitem on {type(obj).__name__}")
