"""os / os.path model: a structural path algebra (decidable without a solver).

A PathVal is a list of components plus two flags (absolute, trailing separator).  A component is
  a literal string (non-empty, no '/', not '.' or '..'),
  ("name", opaque)          one unknown non-empty component without '/', not '.' / '..'
  ("cat", comp, "lit")      the text of comp followed by a non-empty literal without '/'
  ("fun", tag, comp...)     a text computed from other components by string operations the algebra does not look into
                            (never contains '/': str.replace / slicing / formatting of '/'-free texts); its relation to
                            other components is unknown unless a branch decided it
  ("dir", opaque)           an unknown run of ONE OR MORE components (only as the leading part of a path; the form
                            without leading directories is a separate case of every task)
Assumptions (listed in the evidence): input path texts contain no empty, '.' or '..' components, so
os.path.normpath only removes a trailing separator; '/' is the separator.
"""
import z3
from .vals import *  # noqa
from .exec import lib, method, attr, builtin, LIBS, Const, typetag
from .strings import SStr, NameAtom


class PathVal:
    def __init__(self, parts, absolute=False, trailing=False):
        self.parts = list(parts)
        self.absolute = absolute
        self.trailing = trailing

    def __repr__(self):
        def r(p):
            if isinstance(p, str):
                return p
            if p[0] in ("name", "dir"):
                return f"<{p[0]}:{p[1].name}>"
            if p[0] == "cat":
                return r(p[1]) + p[2]
            return f"<{p[1]}({','.join(r(x) for x in p[2:])})>"
        return ("/" if self.absolute else "") + "/".join(r(p) for p in self.parts) + ("/" if self.trailing and self.parts else "")


def comp_eq(ex, a, b):
    """True / False / None (unknown) for equality of two components."""
    if isinstance(a, str) and isinstance(b, str):
        return a == b
    if a is b:
        return True
    if not isinstance(a, str) and not isinstance(b, str) and a[0] == b[0]:
        if a[0] in ("name", "dir"):
            if a[1] is b[1]:
                return True
        elif a[0] == "cat":
            e = comp_eq(ex, a[1], b[1])
            if a[2] == b[2]:
                return e
            if e is True:
                return False
        elif a[0] == "fun" and a[1] == b[1] and len(a) == len(b) and all(comp_eq(ex, x, y) is True for x, y in zip(a[2:], b[2:])):
            return True
    # text of x followed by a non-empty literal is never x itself
    for x, y in ((a, b), (b, a)):
        if not isinstance(x, str) and x[0] == "cat" and comp_eq(ex, x[1], y) is True:
            return False
        # the concatenation of two non-empty component texts is neither of them
        if not isinstance(x, str) and x[0] == "fun" and x[1] == "concat" and \
                (comp_eq(ex, x[2], y) is True or comp_eq(ex, x[3], y) is True):
            return False
    decided = ex.ctx.ghost.setdefault("comp_eq", {})
    k = (repr(a), repr(b))
    if k in decided:
        return decided[k]
    if (k[1], k[0]) in decided:
        return decided[(k[1], k[0])]
    return None


def to_path(ex, v):
    if isinstance(v, PathVal):
        return v
    if isinstance(v, str):
        if v == "":
            return PathVal([], False, False)
        parts = [c for c in v.split("/") if c != ""]
        return PathVal(parts, v.startswith("/"), v.endswith("/") and bool(parts))
    if isinstance(v, Opaque):
        return PathVal([("name", v)] if v.kind == "name" else [("dir", v)], v.attrs.get("absolute", False), False)
    if isinstance(v, SStr):
        # f-string / concatenation result without '/': one computed component
        if any(isinstance(s, str) and "/" in s for s in v.segs):
            raise Unsupported("path text assembled from symbolic pieces around a separator")
        return PathVal([("fun", "text:" + repr(v))], False, False)
    raise SymRaise("TypeError", f"expected str, bytes or os.PathLike object, not {typetag(v)}")


def join2(ex, a, b):
    a, b = to_path(ex, a), to_path(ex, b)
    if b.absolute:
        return PathVal(b.parts, True, b.trailing)
    if b.parts and not isinstance(b.parts[0], str) and b.parts[0][0] == "dir" and not b.absolute:
        o = b.parts[0][1]
        if "absolute" not in o.attrs:
            raise Unsupported("join with a path whose absoluteness the task did not fix")
    if not b.parts:
        return PathVal(a.parts, a.absolute, bool(a.parts))
    return PathVal(a.parts + b.parts, a.absolute, b.trailing)


@lib("os", "getcwd")
def os_getcwd(ex, args, kw):
    cwd = ex.ctx.ghost.get("cwd")
    if cwd is None:
        cwd = Opaque("CWD", "path", absolute=True)
        ex.ctx.ghost["cwd"] = cwd
    return PathVal([("dir", cwd)], True, False)


@lib("os.path", "join")
def os_path_join(ex, args, kw):
    cur = to_path(ex, args[0])
    for a in args[1:]:
        cur = join2(ex, cur, a)
    return cur


@lib("os.path", "normpath")
def os_path_normpath(ex, args, kw):
    p = to_path(ex, args[0])
    return PathVal(p.parts, p.absolute, False)


@lib("os.path", "split")
def os_path_split(ex, args, kw):
    p = to_path(ex, args[0])
    if p.trailing or not p.parts:
        return (PathVal(p.parts, p.absolute, False), "")
    last = p.parts[-1]
    if not isinstance(last, str) and last[0] == "dir":
        raise Unsupported("os.path.split of a path ending in an unknown run of components")
    # a literal last component is a plain python string again (so that it compares, sorts and hashes like one)
    return (PathVal(p.parts[:-1], p.absolute, False), last if isinstance(last, str) else PathVal([last], False, False))


@lib("os.path", "basename")
def os_path_basename(ex, args, kw):
    return os_path_split(ex, args, kw)[1]


@lib("os.path", "dirname")
def os_path_dirname(ex, args, kw):
    return os_path_split(ex, args, kw)[0]


@lib("os.path", "abspath")
def os_path_abspath(ex, args, kw):
    p = to_path(ex, args[0])
    if p.absolute:
        return PathVal(p.parts, True, False)
    return join2(ex, os_getcwd(ex, [], {}), PathVal(p.parts, False, False))


def path_concat(ex, a, b):
    """python '+' between a path text and a literal"""
    if isinstance(a, PathVal) and isinstance(b, str):
        if "/" in b:
            extra = to_path(ex, b)
            if b.startswith("/"):
                return PathVal(a.parts + extra.parts, a.absolute, extra.trailing)
            raise Unsupported("path + literal containing a separator in the middle")
        if b == "":
            return a
        if a.trailing or not a.parts:
            return PathVal(a.parts + [b], a.absolute, False)      # 'plt/' + '_ck' == 'plt/_ck'
        return PathVal(a.parts[:-1] + [("cat", a.parts[-1], b)], a.absolute, False)
    if isinstance(a, str) and isinstance(b, PathVal):
        if a == "":
            return b
        if "/" in a or b.absolute or len(b.parts) != 1:
            raise Unsupported("literal + path")
        return PathVal([("fun", "prefix:" + a, b.parts[0])], False, b.trailing)
    if isinstance(a, PathVal) and isinstance(b, PathVal):
        if a.trailing or b.absolute or len(a.parts) != 1 or len(b.parts) != 1 or a.absolute:
            raise Unsupported("concatenation of two path texts")
        return PathVal([("fun", "concat", a.parts[0], b.parts[0])], False, b.trailing)
    raise Unsupported("path concatenation")


@method("PathVal", "replace")
def pv_replace(ex, self, args, kw):
    a, b = args[0], args[1]
    if not isinstance(a, str) or not isinstance(b, str) or "/" in a or "/" in b:
        raise Unsupported("replace on a path with non-literal or separator arguments")
    if len(self.parts) != 1 or self.absolute or self.trailing:
        raise Unsupported("replace on a multi-component path")
    return PathVal([("fun", f"replace:{a}:{b}", self.parts[0])], False, False)


@method("PathVal", "split")
def pv_split(ex, self, args, kw):
    if args and args[0] == "/":
        return [p if isinstance(p, str) else PathVal([p]) for p in self.parts]
    raise Unsupported("str.split on a path")


def path_eq(ex, a, b):
    """== between path texts: decided structurally, otherwise a branch point (both outcomes explored and remembered)."""
    a, b = to_path(ex, a), to_path(ex, b)
    hasdir = lambda p: any(not isinstance(q, str) and q[0] == "dir" for q in p.parts)
    if a.absolute != b.absolute or a.trailing != b.trailing:
        return False
    # the same unknown leading run on both sides cancels
    while a.parts and b.parts and not isinstance(a.parts[0], str) and not isinstance(b.parts[0], str) and \
            a.parts[0][0] == "dir" and b.parts[0][0] == "dir" and a.parts[0][1] is b.parts[0][1]:
        a, b = PathVal(a.parts[1:], a.absolute, a.trailing), PathVal(b.parts[1:], b.absolute, b.trailing)
    if hasdir(a) or hasdir(b):
        # a run stands for one or more components: the other side needs at least as many components
        for x, y in ((a, b), (b, a)):
            if hasdir(x) and not hasdir(y) and len(y.parts) < len(x.parts):
                return False
        raise Unsupported("equality of paths with unknown runs of components")
    if len(a.parts) != len(b.parts):
        return False
    res = True
    for x, y in zip(a.parts, b.parts):
        e = comp_eq(ex, x, y)
        if e is False:
            return False
        if e is None:
            c = ex.ctx.choose(2)
            e = (c == 0)
            ex.ctx.ghost.setdefault("comp_eq", {})[(repr(x), repr(y))] = e
            if not e:
                return False
    return res


def is_inside(ex, x, root):
    """x == root or x lies under root: True / False / None(unknown)"""
    x, root = to_path(ex, x), to_path(ex, root)
    if x.absolute != root.absolute:
        return None if any(not isinstance(p, str) and p[0] == "dir" for p in x.parts + root.parts) else False
    if len(root.parts) > len(x.parts):
        # an unknown run inside x could still make it longer
        if any(not isinstance(p, str) and p[0] == "dir" for p in x.parts):
            return None
        return False
    unknown = False
    for a, b in zip(x.parts, root.parts):
        e = comp_eq(ex, a, b)
        if e is False:
            return False
        if e is None:
            unknown = True
    return None if unknown else True


@lib("os", "makedirs")
def os_makedirs(ex, args, kw):
    p = to_path(ex, args[0])
    ex.ctx.note("mkdir", p)
    ex.ctx.ghost.setdefault("write_sites", []).append(("makedirs", p))
    return None


@lib("os", "mkdir")
def os_mkdir(ex, args, kw):
    p = to_path(ex, args[0])
    ex.ctx.note("mkdir", p)
    ex.ctx.ghost.setdefault("write_sites", []).append(("mkdir", p))
    return None


@lib("shutil", "rmtree")
def shutil_rmtree(ex, args, kw):
    p = to_path(ex, args[0])
    ex.ctx.ghost.setdefault("write_sites", []).append(("rmtree", p))
    return None


@lib("os", "listdir")
def os_listdir(ex, args, kw):
    fs = ex.ctx.ghost.get("fs")
    if fs is not None and hasattr(fs, "listdir"):
        return fs.listdir(ex, to_path(ex, args[0]) if args else None)
    raise Unsupported("os.listdir without a file-system model")
