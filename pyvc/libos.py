"""os / os.path model: a small path algebra.

A PathVal is a sequence of parts; each part is a literal component string, or a symbolic piece:
  ("sym", opaque)  an unknown path text (zero or more components, may be absolute, may end with '/')
  ("dir", opaque)  os.path.split(sym)[0]      ("base", opaque)  os.path.split(sym)[1]
  ("name", opaque) exactly one non-empty component without '/'
plus flags: absolute (starts with '/'), trailing (ends with '/').
"""
import z3
from .vals import *  # noqa
from .exec import lib, method, attr, builtin, LIBS, Const, typetag
from .strings import SStr, NameAtom


class PathVal:
    def __init__(self, parts, absolute=False, trailing=False):
        self.parts = list(parts)
        self.absolute = absolute
        self.trailing = trailing

    def key(self):
        def k(p):
            return p if isinstance(p, str) else (p[0], id(p[1]))
        return (tuple(k(p) for p in self.parts), self.absolute, self.trailing)

    def __repr__(self):
        def r(p):
            return p if isinstance(p, str) else f"<{p[0]}:{p[1].name}>"
        return ("/" if self.absolute else "") + "/".join(r(p) for p in self.parts) + ("/" if self.trailing else "")


def to_path(ex, v):
    if isinstance(v, PathVal):
        return v
    if isinstance(v, str):
        if v == "":
            return PathVal([], False, False)
        absolute = v.startswith("/")
        trailing = v.endswith("/") and len(v) > 1
        parts = [c for c in v.split("/") if c != ""]
        return PathVal(parts, absolute, trailing)
    if isinstance(v, Opaque):
        if v.kind == "name":
            return PathVal([("name", v)], False, False)
        return PathVal([("sym", v)], False, False)
    if isinstance(v, SStr):
        parts = []
        cur = []
        for seg in v.segs:
            if isinstance(seg, str):
                pieces = seg.split("/")
                for i, pc in enumerate(pieces):
                    if i > 0:
                        parts.append(cur)
                        cur = []
                    if pc:
                        cur.append(pc)
            else:
                cur.append(seg)
        parts.append(cur)
        out = []
        for c in parts:
            if not c:
                continue
            if len(c) == 1 and isinstance(c[0], str):
                out.append(c[0])
            elif len(c) == 1 and isinstance(c[0], NameAtom):
                out.append(("name", c[0].op))
            else:
                out.append(("comp", Opaque("comp" + repr(SStr(c)), "name", segs=c)))
        lit0 = v.segs[0] if isinstance(v.segs[0], str) else ""
        litn = v.segs[-1] if isinstance(v.segs[-1], str) else ""
        return PathVal(out, lit0.startswith("/"), litn.endswith("/"))
    raise SymRaise("TypeError", f"expected str, bytes or os.PathLike object, not {typetag(v)}")


@lib("os", "getcwd")
def os_getcwd(ex, args, kw):
    cwd = ex.ctx.ghost.get("cwd")
    if cwd is None:
        cwd = Opaque("CWD", "path")
        ex.ctx.ghost["cwd"] = cwd
    return PathVal([("sym", cwd)], True, False)


def sym_is_abs(ex, op):
    """Whether a symbolic path text is absolute: decided by the task (attrs) or branched on a ghost bool."""
    if "absolute" in op.attrs:
        return op.attrs["absolute"]
    b = z3.Bool(f"abs_{op.name}")
    return ex.ctx.branch(b)


@lib("os.path", "join")
def os_path_join(ex, args, kw):
    cur = to_path(ex, args[0])
    for a in args[1:]:
        p = to_path(ex, a)
        is_abs = p.absolute
        if not is_abs and p.parts and not isinstance(p.parts[0], str) and p.parts[0][0] == "sym":
            is_abs = sym_is_abs(ex, p.parts[0][1])
        if is_abs:
            cur = PathVal(p.parts, True, p.trailing) if p.absolute else PathVal(p.parts, False, p.trailing)
            cur.abs_from_sym = True
            continue
        if not p.parts:
            cur = PathVal(cur.parts, cur.absolute, True)
            continue
        cur = PathVal(cur.parts + p.parts, cur.absolute, p.trailing)
    return cur


@lib("os.path", "split")
def os_path_split(ex, args, kw):
    p = to_path(ex, args[0])
    if p.trailing:
        return (PathVal(p.parts, p.absolute, False), "")
    if not p.parts:
        return (PathVal([], p.absolute, False), "")
    last = p.parts[-1]
    if isinstance(last, str) or last[0] in ("name", "base", "comp"):
        tail = last if isinstance(last, str) else PathVal([last])
        return (PathVal(p.parts[:-1], p.absolute, False), tail)
    if last[0] == "sym":
        op = last[1]
        return (PathVal(p.parts[:-1] + [("dir", op)], p.absolute, False), PathVal([("base", op)]))
    raise Unsupported(f"os.path.split of {p!r}")


@lib("os.path", "basename")
def os_path_basename(ex, args, kw):
    return os_path_split(ex, args, kw)[1]


@lib("os.path", "dirname")
def os_path_dirname(ex, args, kw):
    return os_path_split(ex, args, kw)[0]


@lib("os.path", "abspath")
def os_path_abspath(ex, args, kw):
    p = to_path(ex, args[0])
    if p.absolute:
        return PathVal(p.parts, True, False)
    return os_path_join(ex, [os_getcwd(ex, [], {}), PathVal(p.parts, False, False)], {})


@lib("os", "makedirs")
def os_makedirs(ex, args, kw):
    fs = ex.ctx.ghost.get("fs")
    p = to_path(ex, args[0])
    ex.ctx.note("mkdir", p)
    if fs is not None and hasattr(fs, "makedirs"):
        return fs.makedirs(ex, p, kw.get("exist_ok", False))
    return None


@lib("os", "mkdir")
def os_mkdir(ex, args, kw):
    fs = ex.ctx.ghost.get("fs")
    p = to_path(ex, args[0])
    ex.ctx.note("mkdir", p)
    if fs is not None and hasattr(fs, "mkdir"):
        return fs.mkdir(ex, p)
    return None


@lib("shutil", "rmtree")
def shutil_rmtree(ex, args, kw):
    fs = ex.ctx.ghost.get("fs")
    p = to_path(ex, args[0])
    ex.ctx.note("rmtree", p)
    if fs is not None and hasattr(fs, "rmtree"):
        return fs.rmtree(ex, p)
    return None


@lib("os", "listdir")
def os_listdir(ex, args, kw):
    fs = ex.ctx.ghost.get("fs")
    if fs is not None and hasattr(fs, "listdir"):
        return fs.listdir(ex, to_path(ex, args[0]) if args else None)
    raise Unsupported("os.listdir without a file-system model")
