"""Loops with contracts: invariant established at entry, preserved by an arbitrary iteration, assumed at exit.

A LoopSpec describes the loop-carried state after k completed iterations as a TEMPLATE: `template(ex, fr, k, entry)`
returns {local name: value} (values are ghost/spec expressions of k).  Generic machinery compares the real state
with the template (vc.veq), so the invariant is 'state == template(k)'.  Special keys:
  "__assume__": [formula...]   facts about k / ghost functions assumed when the template is applied
  "__assert__": [(name, formula)...]  extra facts to prove when the template is established (e.g. k within range,
                 which bounds the number of iterations: the loop terminates)
  "__ghost__": [callable(ex, fr, k)...]  ghost code run at the end of iteration k, before the template is established at
                 k+1: it may only DEFINE ghost locations indexed by k that the template at k says nothing about (e.g.
                 SEL(k) := 'this iteration appended'), the standard ghost-array update
"""
import ast
import z3
from .vals import *  # noqa
from .exec import _Break, _Continue, Havoced, assigned_names
from .vc import veq


class LoopSpec:
    def __init__(self, template, note=""):
        self.template = template
        self.note = note


class Any:
    """Template value 'unconstrained between iterations': havoced with make(ctx) when the template is applied,
    not compared when it is established (e.g. the cursor of a file the body always seeks absolutely)."""

    def __init__(self, make):
        self.make = make


def _tmpl(spec, ex, fr, k, entry):
    """the loop contract's template, evaluated on the frame of the code at hand: a contract that cannot even be evaluated there
    (it reads a local / attribute the function no longer has) leaves the task undecided"""
    try:
        return spec.template(ex, fr, k, entry)
    except (KeyError, AttributeError, TypeError, IndexError) as e:
        raise Unsupported(f"the loop contract cannot be evaluated on this code shape ({type(e).__name__}: {e})")


def _apply(ex, fr, tmpl, node, keep=()):
    for a in tmpl.get("__assume__", []):
        ex.ctx.add_pc(a)
    mod = assigned_names(node)
    for name in mod:
        if name not in tmpl and name not in keep:
            fr.vars[name] = Havoced(name)
    from .libfile import RFile, WFile
    for name, v in tmpl.items():
        if name.startswith("__"):
            continue
        if isinstance(v, Any):
            v = v.make(ex.ctx)
        if "." in name:
            obj, att = name.split(".", 1)
            if obj not in fr.vars or not hasattr(fr.vars[obj], "attrs"):
                raise Unsupported(f"the loop contract describes '{name}', which this function does not have (restructured code)")
            fr.vars[obj].attrs[att] = v
        else:
            if name not in fr.vars and name not in fr.local_names:
                raise Unsupported(f"the loop contract describes a local '{name}' that this function does not have (renamed or restructured code)")
            cur = fr.vars.get(name)
            if isinstance(v, (RFile, WFile)) and type(cur) is type(v):
                cur.__dict__.update(v.__dict__)      # keep the handle's identity (with-blocks, registrations)
            else:
                fr.vars[name] = v


def _get(fr, name):
    if "." in name:
        obj, att = name.split(".", 1)
        if obj not in fr.vars or not hasattr(fr.vars[obj], "attrs"):
            raise Unsupported(f"the loop contract describes '{name}', which this function does not have (restructured code)")
        return fr.vars[obj].attrs.get(att, Havoced(name))
    if name not in fr.vars and name not in fr.local_names:
        # a local of another name is not a violation: the invariant is stated over the names the contract was written for
        raise Unsupported(f"the loop contract describes a local '{name}' that this function does not have (renamed or restructured code)")
    return fr.vars.get(name, Havoced(name))


def _establish(ex, fr, tmpl, label):
    ctx = ex.ctx
    for name, exp in tmpl.items():
        if name.startswith("__") or isinstance(exp, Any):
            continue
        act = _get(fr, name)
        if isinstance(act, Havoced):
            ctx.oblige(f"{label}.{name}", False, "P", note="variable not bound")
            continue
        ctx.oblige(f"{label}.{name}", veq(ctx, act, exp), "P")
    for nm, f in tmpl.get("__assert__", []):
        ctx.oblige(f"{label}.{nm}", f, "P")


def run_for(ex, node, fr, seq, spec, ordn):
    ctx = ex.ctx
    n = seq.length
    entry = dict(fr.vars)
    label = f"{fr.funcqual.split('.', 1)[1]}.loop{ordn}"
    _establish(ex, fr, _tmpl(spec, ex, fr, 0, entry), f"{label}.inv-init")
    choice = ctx.choose(2)
    if choice == 0:
        k = ctx.fresh(f"k{ordn}")
        ctx.add_pc(z3.And(k >= 0, k < to_z3(n)))
        tk = _tmpl(spec, ex, fr, k, entry)
        _apply(ex, fr, tk, node)
        ex.assign(node.target, seq.get(k, ex), fr)
        try:
            ex.exec_block(node.body, fr)
        except _Break:
            return
        except _Continue:
            pass
        for g in tk.get("__ghost__", []):
            g(ex, fr, k)
        _establish(ex, fr, _tmpl(spec, ex, fr, k + 1, entry), f"{label}.inv-preserved")
        raise PathEnd()
    _apply(ex, fr, _tmpl(spec, ex, fr, n, entry), node, keep=())
    ex.exec_block(node.orelse, fr)


def run_while(ex, node, fr, spec, ordn):
    ctx = ex.ctx
    entry = dict(fr.vars)
    label = f"{fr.funcqual.split('.', 1)[1]}.loop{ordn}"
    _establish(ex, fr, _tmpl(spec, ex, fr, 0, entry), f"{label}.inv-init")
    always = isinstance(node.test, ast.Constant) and node.test.value is True
    choice = 0 if always else ctx.choose(2)
    k = ctx.fresh(f"k{ordn}")
    ctx.add_pc(k >= 0)
    _apply(ex, fr, _tmpl(spec, ex, fr, k, entry), node)
    c = ex.truth(ex.eval(node.test, fr))
    if choice == 0:
        if not c:
            raise PathEnd()
        try:
            ex.exec_block(node.body, fr)
        except _Break:
            return
        except _Continue:
            pass
        _establish(ex, fr, _tmpl(spec, ex, fr, k + 1, entry), f"{label}.inv-preserved")
        raise PathEnd()
    if c:
        raise PathEnd()
    ex.exec_block(node.orelse, fr)
