"""Structural equality generator (for goals) and obligation discharge with z3, then cvc5 on what z3 leaves open."""
import os
import subprocess
import tempfile
import time
import z3
from .vals import *  # noqa
from .libfile import RFile, WFile, Line, BytesVal
from .strings import SStr, str_eq

Z3_TIMEOUT_MS = int(os.environ.get("PYVC_Z3_MS", "10000"))
CVC5_TIMEOUT_MS = int(os.environ.get("PYVC_CVC5_MS", "10000"))
CVC5_BIN = "/usr/bin/cvc5"


def _bounds(sk, shape):
    return zand(*[zand(to_z3(i) >= 0, to_z3(i) < to_z3(n)) for i, n in zip(sk, shape)])


def veq(ctx, a, b, need_init=True):
    """Formula stating that the ACTUAL value a equals the EXPECTED value b.  Fresh constants introduced here are
    universally quantified by validity checking (the formula is only ever used as a goal)."""
    from .ops import _is_scalar, as_ndarray
    if a is b:
        return True
    if _is_scalar(a) and _is_scalar(b):
        if isinstance(a, bool) != isinstance(b, bool) and not (is_z3(a) or is_z3(b)):
            return a == b
        if not is_z3(a) and not is_z3(b):
            return a == b
        a3, b3 = to_z3(a), to_z3(b)
        if is_sym_bool(a3) != is_sym_bool(b3):
            return False
        if isinstance(a3, z3.ArithRef) and a3.is_int() != b3.is_int():
            a3, b3 = to_real(a3), to_real(b3)
        return a3 == b3
    if a is None or b is None:
        return a is None and b is None
    if isinstance(a, (str, bytes, SStr)) and isinstance(b, (str, bytes, SStr)):
        class _E:      # str_eq only needs ctx for branching in exotic cases
            pass
        e = _E()
        e.ctx = ctx
        return str_eq(e, a, b)
    if isinstance(a, (list, tuple, Vec)) and isinstance(b, (list, tuple, Vec)):
        la = a.items if isinstance(a, Vec) else list(a)
        lb = b.items if isinstance(b, Vec) else list(b)
        if len(la) != len(lb):
            return False
        return zand(*[veq(ctx, x, y, need_init) for x, y in zip(la, lb)])
    if isinstance(a, (NDArray, Vec)) and isinstance(b, (NDArray, Vec)):
        A, Bn = as_ndarray(a), as_ndarray(b)
        if A.ndim != Bn.ndim:
            return False
        sh = zand(*[to_z3(x) == to_z3(y) for x, y in zip(A.shape, Bn.shape)])
        sk = tuple(ctx.fresh("ix") for _ in A.shape)
        ea, eb = A.elem(sk), Bn.elem(sk)
        body = veq(ctx, ea, eb)
        if need_init:
            ia = A.init(sk)
            if getattr(Bn, "_init", None) is not None:
                # the expected array is itself only partly initialised (a template of an array being filled): same cells
                # initialised, equal values there
                ib = Bn.init(sk)
                body = zand(to_z3(ia) == to_z3(ib), z3.Implies(to_z3(ib), to_z3(body)))
            else:
                body = zand(body, ia)
        return zand(sh, z3.Implies(_bounds(sk, Bn.shape), to_z3(body)) if sk else body)
    if isinstance(a, (SymSeq, list, tuple)) and isinstance(b, (SymSeq, list, tuple)):
        if not isinstance(a, SymSeq):
            a = SymSeq(0, lambda i: None, suffix=list(a))
        if not isinstance(b, SymSeq):
            b = SymSeq(0, lambda i: None, suffix=list(b))
        parts = [to_z3(a.length) == to_z3(b.length)]
        for t, v in enumerate(a.suffix):
            parts.append(veq(ctx, v, b.get(a.n0 + t), need_init))
        if not (isinstance(a.n0, int) and a.n0 == 0):
            if a.get0 is not b.get0:
                i = ctx.fresh("si")
                parts.append(z3.Implies(z3.And(i >= 0, i < to_z3(a.n0)), to_z3(veq(ctx, a.get0(i), b.get(i), need_init))))
        return zand(*parts)
    if isinstance(a, Line) and isinstance(b, Line):
        if a.text != b.text:
            return False
        return zand(to_z3(a.F) == to_z3(b.F), to_z3(a.pos) == to_z3(b.pos))
    if isinstance(a, RFile) and isinstance(b, RFile):
        if a.closed != b.closed:
            return False
        return zand(to_z3(a.F) == to_z3(b.F), to_z3(a.pos) == to_z3(b.pos))
    if isinstance(a, WFile) and isinstance(b, WFile):
        return veq_wfile(ctx, a, b)
    if isinstance(a, dict) and isinstance(b, dict):
        if set(map(id_or_val, a)) != set(map(id_or_val, b)):
            return False
        bm = {id_or_val(k): v for k, v in b.items()}
        return zand(*[veq(ctx, v, bm[id_or_val(k)], need_init) for k, v in a.items()])
    if isinstance(a, Record) and isinstance(b, Record):
        if set(a.attrs) != set(b.attrs):
            return False
        return zand(*[veq(ctx, a.attrs[k], b.attrs[k], need_init) for k in a.attrs])
    if isinstance(a, Opaque) and isinstance(b, Opaque):
        sa, sb = getattr(a, "sym", None), getattr(b, "sym", None)
        if sa is not None and sb is not None:
            return sa == sb
        return False
    if isinstance(a, SSlice) and isinstance(b, SSlice):
        return zand(veq(ctx, a.start, b.start), veq(ctx, a.stop, b.stop), veq(ctx, a.step, b.step))
    if isinstance(a, tuple) and len(a) == 3 and a[0] in ("ser", "line", "text", "hdr"):
        return veq_piece(ctx, a, b)
    if isinstance(a, FuncVal) and isinstance(b, FuncVal):
        return a == b
    if type(a) is not type(b):
        return False
    raise Unsupported(f"veq on {type(a).__name__}")


def id_or_val(k):
    return id(k) if isinstance(k, Opaque) else k


def veq_piece(ctx, p, q):
    if p is q:
        return True
    if p is None or q is None:
        return False
    if p[0] != q[0]:
        return False
    if p[0] == "ser":
        if p[2] != q[2]:
            return False
        return veq(ctx, p[1], q[1])
    if p[0] == "line":
        return veq(ctx, p[1], q[1])
    if p[0] == "hdr":
        (lo1, hi1, n1), (lo2, hi2, n2) = p[1], q[1]
        if len(lo1) != len(lo2):
            return False
        return zand(to_z3(n1) == to_z3(n2), *[to_z3(x) == to_z3(y) for x, y in zip(list(lo1) + list(hi1), list(lo2) + list(hi2))])
    return veq(ctx, p[1], q[1])


def veq_wfile(ctx, a, b):
    """actual a (record prefix + appended pieces) against expected b (records only)."""
    if b.suffix:
        raise Unsupported("expected write-file state must be given as records")
    if a.text != b.text or a.closed != b.closed:
        return False
    parts = [to_z3(a.F) == to_z3(b.F), to_z3(a.pos) == to_z3(b.pos)]
    an = a.nrec
    nsuf = len(a.suffix)
    if b.rec is None:
        # expected: empty file
        if nsuf or not (isinstance(an, int) and an == 0):
            return False
        return zand(*parts)
    rs = b.rec_size
    if nsuf % rs:
        return False
    m = nsuf // rs
    parts.append(to_z3(an) + m == to_z3(b.nrec))
    for t in range(m):
        j = an + t
        exp = b.rec(j)
        st = b.recstart(j)
        got = a.suffix[t * rs:(t + 1) * rs]
        parts.append(to_z3(got[0][1]) == to_z3(st))
        for (piece, _), ep in zip(got, exp):
            parts.append(veq_piece(ctx, piece, ep))
    if not (isinstance(an, int) and an == 0):
        if a.rec is not b.rec or a.recstart is not b.recstart:
            j = ctx.fresh("rj")
            inner = [to_z3(a.recstart(j)) == to_z3(b.recstart(j))]
            for p, q in zip(a.rec(j), b.rec(j)):
                inner.append(veq_piece(ctx, p, q))
            parts.append(z3.Implies(z3.And(j >= 0, j < to_z3(an)), to_z3(zand(*inner))))
    return zand(*parts)


# ------------------------------------------------------------------------------------------------------------
# discharge


def model_to_dict(m, limit=400):
    out = {}
    for d in m.decls():
        try:
            v = m[d]
            if d.arity() == 0:
                out[d.name()] = str(v)
            else:
                out[d.name()] = str(v)[:limit]
        except Exception:
            pass
    return out


def run_cvc5(smt2_text, timeout_ms):
    if not os.path.exists(CVC5_BIN):
        return "unknown", "cvc5 binary missing"
    with tempfile.NamedTemporaryFile("w", suffix=".smt2", delete=False) as f:
        f.write("(set-logic ALL)\n" + smt2_text)
        fn = f.name
    try:
        r = subprocess.run([CVC5_BIN, "--lang=smt2", f"--tlimit={timeout_ms}", fn], capture_output=True, text=True,
                           timeout=timeout_ms / 1000 + 5)
        out = (r.stdout or "").strip().splitlines()
        res = out[0].strip() if out else "unknown"
        if res not in ("sat", "unsat", "unknown"):
            res = "unknown"
        return res, (r.stdout + r.stderr)[:500]
    except subprocess.TimeoutExpired:
        return "unknown", "cvc5 timeout"
    finally:
        os.unlink(fn)


def _z3_try(pc, defs, f, z3_ms, fast=False):
    """staged z3 attempt: (status, model|None, reason, solver).  Every stage but the last works with FEWER hypotheses
    (no quantified facts and/or no definitions of named products), so only its 'unsat' is used; a counter-model is only
    taken from the last, complete, stage."""
    from .ctx import _has_quant
    r = None
    s = None
    qf = [h for h in pc if not _has_quant(h)]
    stages = []
    quant = len(qf) < len(pc)
    if quant:
        stages.append((qf, False, 1000))
        # (then the same with the definitions; then:)
        # z3's automatic configuration picks a set-up for quantified non-linear goals in which E-matching on the given
        # triggers is not effective; the plain SMT core with auto_config off finds these instances at once
        if defs:
            stages.append((qf, True, 2000))
        stages.append((pc, True, -3000))
    if defs:
        stages.append((pc, False, 1500))
    stages.append((pc, True, z3_ms))
    # first of all the complete query with a small budget: easy goals are decided at once either way (a counter-model of the
    # complete query is trustworthy), only the hard ones go through the abstraction stages
    stages.insert(0, (pc, True, -800 if quant else 800))
    if fast:
        stages = [(pc, True, -z3_ms if quant else z3_ms)]
    for hyps, with_defs, ms in stages:
        s = z3.Solver()
        if ms < 0:
            s.set("smt.auto_config", False)
            ms = -ms
        s.set("timeout", min(z3_ms, ms))
        s.set("random_seed", 7)
        s.add(*hyps)
        if with_defs:
            s.add(*defs)
        s.add(z3.Not(f))
        r = s.check()
        if r == z3.unsat:
            return "proved", None, "", s
        if r == z3.sat and hyps is pc and with_defs:
            break
    if r == z3.sat:
        try:
            m = model_to_dict(s.model())
        except Exception:
            m = {}
        return "refuted", m, "", s
    return "unknown", None, f"z3: {s.reason_unknown()}", s


def discharge(ob, use_cvc5=True, z3_ms=None, cvc5_ms=None, fast=False):
    """Decide one obligation: proved | refuted | unknown.  Whole goal first (short budget), then conjunct by conjunct,
    then cvc5 on what is still open."""
    z3_ms = z3_ms or Z3_TIMEOUT_MS
    cvc5_ms = cvc5_ms or CVC5_TIMEOUT_MS
    f = to_z3(ob.formula)
    t0 = time.time()
    if as_const(f) is True:
        ob.status, ob.solver, ob.ms = "proved", "trivial", 0.0
        return ob
    defs = getattr(ob, "defs", None) or []
    from .ctx import Ctx
    parts = Ctx._conjuncts(f)
    from .ctx import _has_quant
    quant = any(_has_quant(h) for h in ob.pc)
    # with quantified hypotheses z3 gets a short first budget: cvc5 decides many of those in a second or two; z3 is asked
    # again with its whole budget when cvc5 does not
    first_ms = min(z3_ms, 3000) if (quant and use_cvc5 and len(parts) == 1) else z3_ms
    if fast:       # one complete z3 query, nothing else (used once the task's verdict is settled)
        st, model, reason, s = _z3_try(ob.pc, defs, f, z3_ms, fast=True)
        ob.ms = (time.time() - t0) * 1000
        ob.status, ob.solver = st, "z3"
        ob.model = model if st == "refuted" else None
        ob.reason = reason + " (reduced budget: the task already has a refuted or several undecided obligations)" if st == "unknown" else ""
        return ob
    st, model, reason, s = _z3_try(ob.pc, defs, f, first_ms if len(parts) == 1 else min(z3_ms, 5000))
    if st == "unknown" and first_ms < z3_ms:
        if os.environ.get("PYVC_DUMP"):
            open(os.path.join(os.environ["PYVC_DUMP"], f"vc_{abs(hash(ob.name)) % 10**8}_early.smt2"), "w").write(f"; {ob.name} path={getattr(ob, 'path', None)}\n" + s.to_smt2())
        try:
            res, out = run_cvc5(s.to_smt2(), cvc5_ms)
        except Exception as e:
            res, out = "unknown", str(e)
        if res == "unsat":
            ob.status, ob.solver, ob.ms = "proved", "cvc5", (time.time() - t0) * 1000
            return ob
        if res == "sat":
            ob.status, ob.solver, ob.ms, ob.model = "refuted", "cvc5", (time.time() - t0) * 1000, {"_cvc5": out}
            return ob
        st, model, reason, s = _z3_try(ob.pc, defs, f, z3_ms)
        use_cvc5 = False
    if st == "unknown" and len(parts) > 1:
        # quick pass: one short complete query per conjunct, looking for a counter-model before the long staged attempts
        for p_ in parts:
            sq = z3.Solver()
            sq.set("timeout", 800)
            sq.set("random_seed", 7)
            if quant:
                sq.set("smt.auto_config", False)
            sq.add(*ob.pc)
            sq.add(*defs)
            sq.add(z3.Not(p_))
            if sq.check() == z3.sat:
                try:
                    model = model_to_dict(sq.model())
                except Exception:
                    model = {}
                ob.ms = (time.time() - t0) * 1000
                ob.status, ob.solver, ob.model = "refuted", "z3", model
                return ob
        sts = []
        for p_ in parts:
            st_p, m_p, r_p, s_p = _z3_try(ob.pc, defs, p_, z3_ms)
            if st_p == "unknown" and use_cvc5:
                try:
                    res, out = run_cvc5(s_p.to_smt2(), cvc5_ms)
                except Exception as e:
                    res, out = "unknown", str(e)
                st_p = {"unsat": "proved", "sat": "refuted"}.get(res, "unknown")
                if st_p == "refuted":
                    m_p = {"_cvc5": out}
            sts.append(st_p)
            if st_p == "refuted":
                st, model = "refuted", m_p
                break
            if st_p == "unknown":
                reason = r_p          # keep looking: another conjunct may be refutable
        else:
            st = "proved" if all(x == "proved" for x in sts) else "unknown"
        if st == "unknown":
            reason = reason or "a conjunct stayed undecided"
    ob.ms = (time.time() - t0) * 1000
    if st == "proved":
        ob.status, ob.solver = "proved", "z3"
        return ob
    if st == "refuted":
        ob.status, ob.solver, ob.model = "refuted", "z3", model or {}
        return ob
    ob.reason = reason
    if os.environ.get("PYVC_DUMP"):
        open(os.path.join(os.environ["PYVC_DUMP"], f"vc_{abs(hash(ob.name)) % 10**8}.smt2"), "w").write(f"; {ob.name} path={getattr(ob, 'path', None)}\n" + s.to_smt2())
    if use_cvc5:
        t1 = time.time()
        try:
            res, out = run_cvc5(s.to_smt2().replace("(check-sat)", "(check-sat)\n"), cvc5_ms)
        except Exception as e:     # export problem: stay unknown
            res, out = "unknown", f"cvc5 export failed: {e}"
        ob.ms += (time.time() - t1) * 1000
        if res == "unsat":
            ob.status, ob.solver = "proved", "cvc5"
            return ob
        if res == "sat":
            ob.status, ob.solver = "refuted", "cvc5"
            ob.model = {"_cvc5": out}
            return ob
        ob.reason += f"; cvc5: {out[:120]}"
    ob.status, ob.solver = "unknown", "z3+cvc5"
    return ob
