"""A Task = one function of /repo executed symbolically under a contract; produces named obligations."""
import time
import traceback
import z3
from .vals import *  # noqa
from .ctx import Ctx
from .exec import Exec
from . import libnp, libfile, strings, builtins, headers, libos, pool  # noqa: F401  (register models)
from .vc import discharge, veq
from .repo import ast_sha


class Outcome:
    def __init__(self, kind, value=None, exc=None):
        self.kind, self.value, self.exc = kind, value, exc     # 'ret' | 'exc'

    def __repr__(self):
        return f"Outcome({self.kind},{self.exc or ''})"


class Task:
    """Subclass or instantiate with callables.
       setup(ex) -> inputs (adds ctx.assume(...) preconditions)
       call(ex, inp) -> value          (default: call self.qual with inp['args'])
       post(ex, inp, outcome)          (records ctx.oblige(...) obligations)"""
    prop = "?"
    name = "?"
    qual = None
    contracts = None
    inline = ()
    loopspecs = None
    reach = "U"
    expect = "proved"        # 'proved' | 'refuted' (known-finding region)
    finding = None
    max_paths = 3000

    def setup(self, ex):
        return {"args": []}

    def call(self, ex, inp):
        return ex.call_qual(self.qual, inp.get("args", []), inp.get("kwargs", {}), self_obj=inp.get("self"))

    def post(self, ex, inp, out):
        pass

    def functions(self):
        return [self.qual] if self.qual else []


class TaskResult:
    def __init__(self, task):
        self.task = task.name
        self.prop = task.prop
        self.qual = task.qual
        self.reach = task.reach
        self.expect = task.expect
        self.finding = task.finding
        self.obligs = []        # dicts
        self.paths = 0
        self.ret_paths = 0
        self.exc_paths = 0
        self.unsupported = []
        self.errors = []
        self.calls = []
        self.solver_s = 0.0
        self.wall_s = 0.0
        self.vacuous = False
        self.precond_model = None
        self.ast_sha = {}
        self.assumption_count = 0


def run_task(task, repo, use_cvc5=True, stop_on_refuted=False):
    """runs one task; the model registries are restored afterwards (a task may install task-local library contracts, and
    worker processes are reused)"""
    from . import exec as _ex
    saved = {n: dict(getattr(_ex, n)) for n in ("LIBS", "METHODS", "BUILTINS", "ATTRS")}
    try:
        return _run_task(task, repo, use_cvc5, stop_on_refuted)
    finally:
        for n, d in saved.items():
            cur = getattr(_ex, n)
            cur.clear()
            cur.update(d)


def _run_task(task, repo, use_cvc5=True, stop_on_refuted=False):
    res = TaskResult(task)
    t0 = time.time()
    ctx = Ctx()
    pending = [[]]
    first = True
    calls = set()
    for q in task.functions():
        r = repo.func(q)
        if r is None:
            # (renamed, moved or removed: the contract has nothing to be checked against - undecided, the run-time layer decides)
            res.unsupported.append(f"function {q} is not in this tree (renamed, moved or removed): its contract cannot be checked")
            res.wall_s = time.time() - t0
            return res
        res.ast_sha[q] = ast_sha(r[0])
    while pending:
        prefix = pending.pop()
        res.paths += 1
        if res.paths > task.max_paths:
            res.unsupported.append(f"more than {task.max_paths} paths")
            break
        ctx.start_path(prefix)
        ex = Exec(ctx, repo, dict(headers.HEADER_CONTRACTS, **(task.contracts or {})), task.inline,
                  task.loopspecs or {})
        try:
            inp = task.setup(ex)
            ex.loopspecs = task.loopspecs or {}
            ex.contracts.update(task.contracts or {})
            ex.inline = set(task.inline or ())
            if first:
                first = False
                s = z3.Solver()
                s.set("timeout", 10000)
                s.add(*ctx.assumptions)
                r = s.check()
                res.assumption_count = len(ctx.assumptions)
                if r == z3.unsat:
                    res.vacuous = True
                    break
                if r == z3.sat:
                    m = s.model()
                    res.precond_model = {d.name(): str(m[d]) for d in m.decls() if d.arity() == 0}
            try:
                v = task.call(ex, inp)
                out = Outcome("ret", v)
                res.ret_paths += 1
            except SymRaise as e:
                out = Outcome("exc", exc=e)
                res.exc_paths += 1
            try:
                task.post(ex, inp, out)
            except (KeyError, AttributeError, TypeError, IndexError, ValueError):
                # the post-condition is written against the shape of the code it was made for; on code of another shape it
                # cannot be evaluated: undecided (with the reason), neither held nor violated
                raise Unsupported("post-condition not evaluable on this code shape: " + traceback.format_exc().strip().splitlines()[-1][:200]
                                  + " @ " + traceback.format_exc().strip().splitlines()[-3].strip()[:120])
        except (PathEnd, Infeasible):
            pass
        except Unsupported as u:
            # an unsupported construct on a path that is in fact infeasible is no obstacle
            try:
                dead = ctx.path_infeasible()
            except Exception:
                dead = False
            if not dead:
                res.unsupported.append(f"{u} (line {ctx.cur_lineno})")
        except RecursionError:
            res.errors.append("recursion limit")
        except Exception:
            res.errors.append(traceback.format_exc()[-1500:])
        calls |= set(ex.calls_seen)
        pending.extend(ctx.pending)
        ctx.pending = []
    res.calls = sorted(calls)
    res.solver_s = ctx.solver_s
    # discharge
    # once the task has a refuted obligation (the verdict is 'violation' whatever the others say) or several undecided ones
    # (the verdict is 'undecided' at best) the remaining obligations get a reduced budget
    n_ref = n_unk = 0
    for ob in ctx.obligs:
        ob.task = task.name
        if stop_on_refuted and n_ref:        # canary runs only ask 'is anything refuted'
            ob.status, ob.solver, ob.ms, ob.reason = "unknown", "", 0.0, "not attempted (canary run: already refuted)"
            continue
        if n_ref or n_unk >= 3:
            discharge(ob, use_cvc5=False, z3_ms=2500, fast=True)
        else:
            discharge(ob, use_cvc5=use_cvc5)
        n_ref += ob.status == "refuted"
        n_unk += ob.status == "unknown"
        res.solver_s += ob.ms / 1000
    # aggregate by name: an obligation is proved when proved on every path
    agg = {}
    for ob in ctx.obligs:
        a = agg.setdefault(ob.name, {"name": ob.name, "kind": ob.kind, "status": "proved", "paths": 0, "ms": 0.0,
                                     "solvers": set(), "model": None, "lineno": ob.lineno, "reason": "",
                                     "note": ob.note})
        a["paths"] += 1
        a["ms"] += ob.ms
        a["solvers"].add(ob.solver)
        if ob.status == "refuted" and a["status"] != "refuted":
            a["status"] = "refuted"
            a["model"] = ob.model
            a["lineno"] = ob.lineno
        elif ob.status == "unknown" and a["status"] == "proved":
            a["status"] = "unknown"
            a["reason"] = ob.reason
    for a in agg.values():
        a["solvers"] = sorted(x for x in a["solvers"] if x)
        res.obligs.append(a)
    res.wall_s = time.time() - t0
    return res


def result_to_dict(r):
    return {k: v for k, v in r.__dict__.items()}


def require_return_arity(ex, quals, n):
    """A parent-side contract that takes a worker BY ITS INTERFACE ('returns an n-tuple per task') is only meaningful while the
    real worker has that interface: a worker whose return statements are not n-tuples (an internal interface changed on both
    sides) leaves the task undecided instead of judging the parent against a contract its worker no longer has."""
    import ast
    for q in quals:
        r = ex.repo.func(q)
        if r is None:
            raise Unsupported(f"worker {q} is not in this tree: the parent cannot be judged against its interface")
        rets = [x for x in ast.walk(r[0]) if isinstance(x, ast.Return)]
        if not rets or not all(isinstance(x.value, ast.Tuple) and len(x.value.elts) == n for x in rets):
            raise Unsupported(f"worker {q} no longer returns {n} values per task: the interface this contract assumes has changed")


class FrameView(dict):
    """the variables of a fragment's frame as its post-condition sees them: asking (without a default) for a local the code
    does not define - the contract was written for a local of that name, the code at hand calls it otherwise - leaves the
    task undecided instead of handing None to the post-condition"""
    _MISSING = object()

    def get(self, k, default=_MISSING):
        if k in self:
            return dict.get(self, k)
        if default is FrameView._MISSING:
            raise Unsupported(f"the fragment does not define a local '{k}' (renamed or restructured code)")
        return default

    def __getitem__(self, k):
        if k not in self:
            raise Unsupported(f"the fragment does not define a local '{k}' (renamed or restructured code)")
        return dict.__getitem__(self, k)


class FragmentTask(Task):
    """Executes a mechanically extracted FRAGMENT of a function: the consecutive statements of `qual` (at nesting
    level `path`) from the first one for which first(stmt) holds to the last one for which last(stmt) holds.  What is
    dropped is everything else of the function; the fragment's inputs are the frame given by setup()['frame'].
    post() receives the frame's variables as out.value (dict)."""
    first = None     # predicate(ast stmt) -> bool
    last = None
    unordered = False    # True: the fragment spans the two anchors whatever their order

    @staticmethod
    def assigns(name):
        import ast

        def pred(s):
            tg = []
            if isinstance(s, ast.Assign):
                tg = s.targets
            elif isinstance(s, (ast.AugAssign, ast.AnnAssign)):
                tg = [s.target]
            for t in tg:
                for n in ast.walk(t):
                    if isinstance(n, ast.Name) and n.id == name:
                        return True
                    if isinstance(n, ast.Attribute) and n.attr == name:
                        return True
            return False
        return pred

    def select(self, fdef):
        import ast

        def blocks(node):
            for fld in ("body", "orelse", "finalbody"):
                b = getattr(node, fld, None)
                if isinstance(b, list) and b and isinstance(b[0], ast.stmt):
                    yield b
                    for s in b:
                        if not isinstance(s, (ast.FunctionDef, ast.ClassDef)):
                            yield from blocks(s)
            for h in getattr(node, "handlers", []) or []:
                yield h.body
                for s in h.body:
                    yield from blocks(s)
            for it in getattr(node, "items", []) or []:
                pass
        MUT = {"append", "extend", "insert", "update", "add", "setdefault"}

        def filled_after(b, i1):
            """`x = []` (or {} / list() / dict()) as the closing statement only STARTS the definition of x: the statements
            right after it that fill x (x.append(...) / x[k] = ... inside loops) belong to the fragment, so that
            `x = [f(i) for i in r]` and its append-loop spelling select the same code"""
            st = b[i1]
            if not (isinstance(st, ast.Assign) and len(st.targets) == 1 and isinstance(st.targets[0], ast.Name)):
                return i1
            v = st.value
            empty = (isinstance(v, (ast.List, ast.Dict)) and not (getattr(v, "elts", None) or getattr(v, "keys", None))) or \
                (isinstance(v, ast.Call) and isinstance(v.func, ast.Name) and v.func.id in ("list", "dict") and not v.args)
            if not empty:
                return i1
            x = st.targets[0].id
            j = i1
            while j + 1 < len(b):
                nxt = b[j + 1]
                fills = False
                for n in ast.walk(nxt):
                    if isinstance(n, ast.Call) and isinstance(n.func, ast.Attribute) and n.func.attr in MUT and \
                            isinstance(n.func.value, ast.Name) and n.func.value.id == x:
                        fills = True
                    if isinstance(n, ast.Assign) and any(isinstance(t, ast.Subscript) and isinstance(t.value, ast.Name) and
                                                         t.value.id == x for t in n.targets):
                        fills = True
                if not fills or not isinstance(nxt, (ast.For, ast.While, ast.Expr, ast.If, ast.Assign)):
                    break
                j += 1
            return j
        for b in blocks(fdef):
            idx = [i for i, s in enumerate(b) if self.first(s)]
            if idx:
                i0 = idx[0]
                i1s = [i for i, s in enumerate(b) if i >= i0 and self.last(s)]
                if i1s:
                    return b[i0:filled_after(b, i1s[-1]) + 1]
                if getattr(self, "unordered", False):
                    # the two anchor statements in the other order (a reordering of the statements is still the fragment)
                    j = [i for i, s in enumerate(b) if self.last(s)]
                    if j:
                        return b[min(j[0], i0):max(j[-1], i0) + 1]
        return None

    def call(self, ex, inp):
        from .exec import Frame, assigned_names, loop_nodes
        fdef, modqual, clsqual = ex.repo.func(self.qual)
        stmts = self.select(fdef)
        if not stmts:
            raise Unsupported(f"fragment of {self.qual} not found (the function was restructured)")
        qual = f"{clsqual}.{fdef.name}" if clsqual else f"{modqual}.{fdef.name}"
        fr = Frame(modqual, qual, clsqual, local_names=assigned_names(fdef))
        fr.loops = {id(n): i for i, n in enumerate(loop_nodes(fdef))}
        fr.vars.update(inp.get("frame", {}))
        ex.call_depth += 1
        provided = set(inp.get("frame", {}))
        from .exec import _Return
        try:
            try:
                ex.exec_block(stmts, fr)
            except _Return as r:
                fr.vars["__return__"] = r.v        # the fragment ends with the function's return: its value, for the post-condition
        except SymRaise as e:
            if e.etype in ("NameError", "UnboundLocalError") and str(e.msg) not in provided:
                # the fragment reads a name its contract's frame does not provide: the statements around it were renamed or
                # restructured - undecided, not a violation
                raise Unsupported(f"the fragment reads '{e.msg}', which the frame of its contract does not provide (restructured code)")
            raise
        finally:
            ex.call_depth -= 1
        return FrameView(fr.vars)
