"""PyVC: verification-condition generator over the real Python AST of /repo (see /verif/DESIGN.md)."""
