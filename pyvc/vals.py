"""Symbolic value domain of PyVC.

Python ints / floats / bools / str / None / tuples / lists / dicts are used as themselves when concrete.
z3 Int / Real / Bool terms are used directly as symbolic scalars.  The classes below model the
structured values the repository code manipulates.
"""
import z3

# --------------------------------------------------------------------------------------------
# signals


class Unsupported(Exception):
    """Construct outside the encoded subset: the obligation becomes 'unsupported' (never a verdict)."""


class SymRaise(Exception):
    """A Python exception raised by the program under symbolic execution."""

    def __init__(self, etype, msg="", lineno=None):
        super().__init__(f"{etype}: {msg}")
        self.etype = etype
        self.msg = msg
        self.lineno = lineno


class PathEnd(Exception):
    """The current path stops here (obligations recorded; e.g. end of an arbitrary loop iteration)."""


class Infeasible(Exception):
    """Path condition became unsatisfiable."""


EXC_PARENTS = {
    "BaseException": None, "Exception": "BaseException", "ArithmeticError": "Exception",
    "ZeroDivisionError": "ArithmeticError", "AssertionError": "Exception", "AttributeError": "Exception",
    "LookupError": "Exception", "IndexError": "LookupError", "KeyError": "LookupError",
    "NameError": "Exception", "UnboundLocalError": "NameError", "OSError": "Exception",
    "FileNotFoundError": "OSError", "FileExistsError": "OSError", "IsADirectoryError": "OSError",
    "NotADirectoryError": "OSError", "PermissionError": "OSError",
    "RuntimeError": "Exception", "NotImplementedError": "RuntimeError", "StopIteration": "Exception",
    "TypeError": "Exception", "ValueError": "Exception", "UnicodeDecodeError": "ValueError",
    "TastesBadError": "Exception", "BadTastingHeadersError": "Exception", "BadTastingBinariesError": "Exception",
    "SystemExit": "BaseException", "KeyboardInterrupt": "BaseException",
}


def exc_isinstance(etype, handler):
    t = etype
    while t is not None:
        if t == handler:
            return True
        t = EXC_PARENTS.get(t, "Exception" if t not in ("BaseException",) else None)
        if t == etype:
            break
    return False


# --------------------------------------------------------------------------------------------
# scalar helpers


def is_z3(v):
    return isinstance(v, z3.ExprRef)


def is_sym_int(v):
    return isinstance(v, z3.ArithRef) and v.is_int()


def is_sym_real(v):
    return isinstance(v, z3.ArithRef) and v.is_real()


def is_sym_bool(v):
    return isinstance(v, z3.BoolRef)


def is_intlike(v):
    return (isinstance(v, int) and not isinstance(v, bool)) or is_sym_int(v)


def is_num(v):
    return isinstance(v, (int, float)) and not isinstance(v, bool) or isinstance(v, z3.ArithRef)


def to_z3(v):
    """Concrete number/bool -> z3 term (ints stay Int, floats become exact rationals)."""
    if is_z3(v):
        return v
    if isinstance(v, bool):
        return z3.BoolVal(v)
    if isinstance(v, int):
        return z3.IntVal(v)
    if isinstance(v, float):
        if v != v or v in (float("inf"), float("-inf")):
            raise Unsupported("non-finite float constant")
        from fractions import Fraction
        fr = Fraction(v)
        return z3.RealVal(fr.numerator) / z3.RealVal(fr.denominator)
    raise Unsupported(f"to_z3({type(v).__name__})")


def to_real(v):
    v = to_z3(v)
    if isinstance(v, z3.ArithRef) and v.is_int():
        return z3.ToReal(v)
    return v


def simp(e):
    return z3.simplify(e) if is_z3(e) else e


def as_const(e):
    """Return a python int/bool if the z3 term is a literal after simplification, else None."""
    if not is_z3(e):
        return e
    s = z3.simplify(e)
    if z3.is_int_value(s):
        return s.as_long()
    if z3.is_true(s):
        return True
    if z3.is_false(s):
        return False
    return None


def zand(*xs):
    xs = [to_z3(x) for x in xs if x is not True]
    if not xs:
        return z3.BoolVal(True)
    return z3.And(*xs) if len(xs) > 1 else xs[0]


def zor(*xs):
    xs = [to_z3(x) for x in xs if x is not False]
    if not xs:
        return z3.BoolVal(False)
    return z3.Or(*xs) if len(xs) > 1 else xs[0]


def zite(c, a, b):
    """If-then-else over scalar values (python or z3)."""
    if c is True:
        return a
    if c is False:
        return b
    cc = as_const(c)
    if cc is True:
        return a
    if cc is False:
        return b
    if a is b:
        return a
    a3, b3 = to_z3(a), to_z3(b)
    if isinstance(a3, z3.ArithRef) and isinstance(b3, z3.ArithRef) and a3.is_int() != b3.is_int():
        a3, b3 = to_real(a3), to_real(b3)
    return z3.If(c, a3, b3)


def zmin(a, b):
    return zite(to_z3(a) <= to_z3(b), a, b)


def zmax(a, b):
    return zite(to_z3(a) >= to_z3(b), a, b)


def zprod(xs):
    r = 1
    for x in xs:
        r = r * x if not (isinstance(r, int) and r == 1) else x
    return r


# --------------------------------------------------------------------------------------------
# structured values


class Opaque:
    """An uninterpreted python-level value with identity (e.g. a path string, a field name)."""

    def __init__(self, name, kind="obj", **attrs):
        self.name = name
        self.kind = kind
        self.attrs = attrs

    def __repr__(self):
        return f"<{self.kind}:{self.name}>"


class SSlice:
    """slice(start, stop, step) whose parts are None / int / z3 Int."""

    def __init__(self, start=None, stop=None, step=None):
        self.start, self.stop, self.step = start, stop, step

    def __repr__(self):
        return f"SSlice({self.start},{self.stop},{self.step})"


def slice_indices(sl, n):
    """Python's slice.indices(n) for possibly symbolic parts; step must be non-zero (checked by the caller).

    Returns (start, stop, step) normalised exactly as CPython's PySlice_AdjustIndices does."""
    step = 1 if sl.step is None else sl.step
    step_pos = to_z3(step) > 0 if is_z3(step) else (step > 0)
    n3 = n

    def adj(v, default_pos, default_neg, lo_pos, hi_pos, lo_neg, hi_neg):
        if v is None:
            return zite(step_pos, default_pos, default_neg)
        v3 = v
        # v < 0 -> v += n ; then clamp
        vv = zite(to_z3(v3) < 0, v3 + n3, v3)
        pos = zite(to_z3(vv) < lo_pos, lo_pos, zite(to_z3(vv) > hi_pos, hi_pos, vv))
        neg = zite(to_z3(vv) < lo_neg, lo_neg, zite(to_z3(vv) > hi_neg, hi_neg, vv))
        return zite(step_pos, pos, neg)
    start = adj(sl.start, 0, n3 - 1, 0, n3, -1, n3 - 1)
    stop = adj(sl.stop, n3, -1, 0, n3, -1, n3 - 1)
    return simp(start) if is_z3(start) else start, simp(stop) if is_z3(stop) else stop, step


def slice_len(start, stop, step):
    """len(range(start, stop, step)) for normalised bounds."""
    if all(isinstance(x, int) for x in (start, stop, step)):
        return len(range(start, stop, step))
    s3, e3, st3 = to_z3(start), to_z3(stop), to_z3(step)
    if isinstance(step, int):
        if step == 1:
            return simp(z3.If(e3 > s3, e3 - s3, 0))
        if step > 0:
            return simp(z3.If(e3 > s3, (e3 - s3 + step - 1) / step, 0))
        return simp(z3.If(e3 < s3, (s3 - e3 - step - 1) / (-step), 0))
    pos = z3.If(e3 > s3, (e3 - s3 + st3 - 1) / st3, 0)
    neg = z3.If(e3 < s3, (s3 - e3 - st3 - 1) / (-st3), 0)
    return z3.If(st3 > 0, pos, neg)


class Vec:
    """A 1-D numpy integer/real array (or python list turned array) of CONCRETE length with scalar items."""

    def __init__(self, items, kind="array"):
        self.items = list(items)
        self.kind = kind      # 'array' (numpy) | 'list' | 'tuple'

    def __len__(self):
        return len(self.items)

    def __repr__(self):
        return f"Vec{self.items}"


def _has_mul(t):
    if not is_z3(t):
        return False
    t = z3.simplify(t)
    todo = [t]
    while todo:
        x = todo.pop()
        if z3.is_mul(x) and sum(1 for c in x.children() if not z3.is_int_value(c) and not z3.is_rational_value(c)) >= 2:
            return True
        todo.extend(x.children())
    return False


class NDArray:
    """numpy ndarray of concrete rank, symbolic extents, elements given by a function of the index tuple.

    elem(idx) must return a z3 term (or python scalar).  `init(idx)` -> Bool says whether the cell has been
    written (np.empty gives False).  Arrays are mutable python objects (identity = heap identity)."""
    _count = 0

    def __init__(self, shape, elem, dtype="f8", init=None, base=None, tag=None):
        self.shape = list(shape)
        self._elem = elem
        self.dtype = dtype
        self._init = init
        self.base = base        # (base_array, index_map) for views
        self.inv = None         # for views: base index -> (inside: Bool, view index)
        self.tag = tag
        self.flat_of = None     # for 1-D results of flatten(order): list of (snapshot NDArray, order) pieces
        NDArray._count += 1
        self.oid = NDArray._count

    @property
    def ndim(self):
        return len(self.shape)

    def elem(self, idx):
        if self.base is not None:
            b, imap = self.base
            return b.elem(imap(idx))
        return self._elem(tuple(idx))

    def init(self, idx):
        if self.base is not None:
            b, imap = self.base
            return b.init(imap(idx))
        if self._init is None:
            return True
        return self._init(tuple(idx))

    def snapshot(self):
        """Return (elem, init) functions frozen at the current heap state."""
        if self.base is not None:
            b, imap = self.base
            be, bi = b.snapshot()
            return (lambda idx: be(imap(idx))), (lambda idx: bi(imap(idx)))
        e, i = self._elem, self._init
        return e, ((lambda idx: True) if i is None else i)

    def size(self):
        r = zprod(self.shape)
        if _DEFINER[0] is not None and is_z3(r) and not any(_has_mul(x) for x in self.shape):
            # (extents that are themselves products - replication factors - stay in the open: naming them hides the
            #  structure the div/mod reasoning needs)
            return _DEFINER[0](r, "size")
        return r

    def __repr__(self):
        return f"NDArray(shape={self.shape},{self.dtype})"


class SymSeq:
    """A python list (or 1-D object sequence) of SYMBOLIC length: a prefix of symbolic length n0 whose i-th value
    is get0(i), followed by a concrete list of appended values (suffix)."""

    def __init__(self, length, get, kind="list", suffix=None):
        self.n0 = length
        self.get0 = get
        self.kind = kind
        self.suffix = list(suffix or [])

    @property
    def length(self):
        if not self.suffix:
            return self.n0
        if isinstance(self.n0, int):
            return self.n0 + len(self.suffix)
        return simp(to_z3(self.n0) + len(self.suffix))

    def get(self, i, ex=None):
        if not self.suffix:
            return self.get0(i)
        d = i - self.n0
        c = as_const(d) if is_z3(d) else d
        if isinstance(c, int):
            return self.suffix[c] if c >= 0 else self.get0(i)
        vals = [self.get0(i)] + self.suffix
        if all(isinstance(v, (int, float, bool)) or is_z3(v) for v in vals):
            r = vals[-1]
            for t in range(len(self.suffix) - 2, -1, -1):
                r = zite(to_z3(i) == to_z3(self.n0) + t, self.suffix[t], r)
            return zite(to_z3(i) < to_z3(self.n0), vals[0], r)
        if ex is None:
            raise Unsupported("symbolic index into a sequence with appended structured values")
        if ex.ctx.branch(to_z3(i) < to_z3(self.n0)):
            return self.get0(i)
        for t in range(len(self.suffix)):
            if t == len(self.suffix) - 1 or ex.ctx.branch(to_z3(i) == to_z3(self.n0) + t):
                return self.suffix[t]

    def append(self, v):
        self.suffix.append(v)

    def copy(self):
        return SymSeq(self.n0, self.get0, self.kind, list(self.suffix))

    def __repr__(self):
        return f"SymSeq(len={self.length})"


class SeqIter:
    """A python iterator over a list / SymSeq: the sequence and the number of elements already consumed."""

    def __init__(self, seq, pos=0):
        self.seq, self.pos = seq, pos

    def _iterable(self, ex):
        c = as_const(self.pos) if is_z3(self.pos) else self.pos
        if c == 0:
            return ex.as_iterable(self.seq)
        raise Unsupported("iteration over a partly consumed iterator")

    def __repr__(self):
        return f"SeqIter({self.seq!r}, pos={self.pos})"


class Record:
    """An object with attributes (instance of a repo class, argparse namespace, ...)."""

    def __init__(self, cls=None, **attrs):
        object.__setattr__(self, "cls", cls)
        object.__setattr__(self, "attrs", dict(attrs))

    def __repr__(self):
        return f"Record<{self.cls}>({list(self.attrs)})"


class FuncVal:
    """A repo function (or bound method) as a first-class value."""

    def __init__(self, qualname, self_obj=None):
        self.qualname = qualname
        self.self_obj = self_obj

    def __repr__(self):
        return f"<fn {self.qualname}>"

    def __eq__(self, o):
        return isinstance(o, FuncVal) and o.qualname == self.qualname and o.self_obj is self.self_obj

    def __hash__(self):
        return hash(self.qualname)


_DEFINER = [None]      # set by Ctx.start_path: names compound stride products (keeps index arithmetic near-linear)


def flatF(idx, shape):
    """Fortran-order flat index of idx in an array of the given shape."""
    r = 0
    raw = 1
    stride = 1
    for i, n in zip(idx, shape):
        r = r + i * stride
        raw = raw * n if not (isinstance(raw, int) and raw == 1) else n
        stride = _DEFINER[0](raw, "stride") if (_DEFINER[0] is not None and is_z3(raw)) else raw
    return r


def unflatF(flat, shape):
    """Inverse of flatF: index tuple of a flat F-order position (uses div/mod)."""
    idx = []
    rem = flat
    for n in shape[:-1]:
        idx.append(rem % n)
        rem = rem / n if is_z3(rem) or is_z3(n) else rem // n
    idx.append(rem)
    return tuple(idx)


def codec_arg(args, kw, allowed=("ascii", "utf-8", "utf8", "UTF-8")):
    """the codec of an encode()/decode() call: the models cover ASCII text, for which these codecs agree"""
    enc = args[0] if len(args) > 0 else kw.get("encoding", "utf-8")
    if len(args) > 1 or "errors" in kw:
        raise Unsupported("encode/decode with an error handler")
    if not isinstance(enc, str) or enc not in allowed:
        raise Unsupported(f"codec {enc!r}")
    return enc


def program_type_error(v, msg):
    """The generic 'this value does not support that operation' of a model: for values that ARE Python values in the model
    (numbers, None, booleans, records of repository classes, symbolic numbers) it is the program's TypeError; for a value class of
    the engine or of a contract (an opaque object, a header text by contract, a file line ...) the operation is simply not
    modelled - a gap of the model, never an error of the program."""
    import z3 as _z3
    if v is None or isinstance(v, (bool, int, float, Record)) or isinstance(v, _z3.ExprRef):
        return SymRaise("TypeError", msg)
    return Unsupported(f"{msg} (operation not modelled for a {type(v).__name__})")
