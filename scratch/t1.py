import sys; sys.path.insert(0,'/verif')
import z3
from pyvc.vals import *
from pyvc.repo import Repo
from pyvc.task import Task, run_task
from pyvc.libfile import *
from pyvc.vc import veq

class T(Task):
    prop='C01'; name='single'; qual='amr_kitchen.plotfile_cooker.mp_read_box_single_field'
    def setup(self, ex):
        ctx=ex.ctx; ctx.ghost['ndims']=3
        F=z3.Int('F'); off=z3.Int('off'); k=z3.Int('k')
        path=Opaque('bf','path'); path.sym=F
        ln=Line(F,off)
        sh=[z3.Int(f'n{d}') for d in range(3)]; nc=z3.Int('nc')
        ctx.assume(f_exists(F)); ctx.assume(off>=0)
        ctx.assume(ln.ok()); 
        for d in range(3):
            ctx.assume(ln.hi(d)-ln.lo(d)+1==sh[d]); ctx.assume(sh[d]>=1)
        ctx.assume(ln.nc()==nc); ctx.assume(nc>=1)
        N=sh[0]*sh[1]*sh[2]
        ctx.assume(ln.length()>0)
        ctx.assume(off+ln.length()+8*N*nc<=f_size(F))
        ctx.assume(z3.And(k>=0,k<nc))
        return {'args':[(path,off,k)],'F':F,'off':off,'k':k,'sh':sh,'nc':nc,'ln':ln,'N':N}
    def post(self, ex, inp, out):
        ctx=ex.ctx
        ctx.oblige('raises-nothing', out.kind=='ret','P')
        if out.kind!='ret': return
        F,off,k,sh,ln,N=inp['F'],inp['off'],inp['k'],inp['sh'],inp['ln'],inp['N']
        data0=off+ln.length()
        exp=NDArray(sh, lambda idx: f_f64(F, data0+8*(flatF(idx,sh)+N*k)))
        ctx.oblige('post.value', veq(ctx,out.value,exp),'P')

r=run_task(T(),Repo())
print('paths',r.paths,'ret',r.ret_paths,'exc',r.exc_paths,'unsup',r.unsupported,'err',r.errors, 'vac', r.vacuous)
for o in r.obligs: print(o['name'],o['status'],o['solvers'],round(o['ms'],1),o['model'] if o['status']!='proved' else '')
print(r.calls, r.wall_s)
for a,b in [("order='F'","order='C'"),("args[2] * 8","args[2] * 4"),("bf.seek(args[1])","bf.seek(args[1]+1)"),("np.prod(shape[:-1]) * args[2]","np.prod(shape) * args[2]")]:
    rp=Repo(overrides={'amr_kitchen/plotfile_cooker.py': lambda s: s.replace(a,b,1)})
    r=run_task(T(),rp)
    print(a,'->',b,':',[(o['name'],o['status']) for o in r.obligs], r.unsupported, r.errors, r.paths)
    for o in r.obligs:
        if o['status']=='refuted': print('   model', {k:v for k,v in o['model'].items() if len(v)<30})
