"""C04 - taste rejects missing, truncated, shifted or inconsistent plotfile data."""
from props.taste_workers import worker_tasks
from props.taste_dispatch import dispatch_tasks
from props.C01 import ASSUMPTIONS as A01, TRUSTED as T01

ASSUMPTIONS = A01 + ["file contents are ARBITRARY (ghost functions unconstrained): the workers' postconditions are proved for "
                     "any directory; FAB header lines of another dimensionality than the plotfile's count as unparsable",
                     "the corruption classes of the statement are enumerated concretely by the bounded layer (fault "
                     "enumeration on generated plotfiles), not proved as lemmas"]
TRUSTED = T01 + ["pool.imap order and exception propagation (assumed)"]


def _tasks0(tier):
    from props.taste_parents import parent_tasks
    from props.header_tasks import _ht
    return worker_tasks("C04", ["sound"]) + dispatch_tasks("C04") + parent_tasks("C04") + _ht("C04", tier)


def canaries(tier):
    f = "amr_kitchen/taste/taste.py"
    return [("headers worker: component-count test dropped",
             [(f, "            if shape[-1] != args['nfields']:", "            if False:")], ["mp_fun_headers.sound[nd=3]"]),
            ("shape worker: box loop stops one box early",
             [(f, "for i, bid in enumerate(args['box_ids'][:-1]):", "for i, bid in enumerate(args['box_ids'][:-2]):")],
             ["mp_fun_shape.sound[nd=3]"])] + __import__("props.taste_parents", fromlist=["parent_canaries"]).parent_canaries()


SCENARIO_TIMEOUT = 600
SCENARIO_WORKERS = 3


def scenarios(tier, seed):
    if tier == "quick":
        return [{"kind": "reject", "seed": seed * 1000 + 400 + i, "ndims": 3 if i == 0 else 2, "nf": 2 + i, "nlevels": 2,
                 "nfiles": 2, "layout": "shuffled", "max_sites": 26, "pairs": 4, "n0": [16, 16, 8] if i == 0 else [32, 16]}
                for i in range(2)]
    return [{"kind": "reject", "seed": seed * 1000 + 400 + i, "ndims": 3 if i % 2 == 0 else 2, "nf": 2 + i % 3,
             "nlevels": 1 + i % 3, "nfiles": 1 + i % 3, "layout": ["shuffled", "roundrobin"][i % 2], "full": i < 2,
             "max_sites": 120, "pairs": 20, "limit": None if i % 3 else 0, "n0": [16, 16, 8] if i % 2 == 0 else [32, 16]}
            for i in range(6)]


def run_scenario(p, wd):
    from harness.rt_taste import run_reject_scenario
    return run_reject_scenario(p, wd)



def tasks(tier):
    # the FAB header parsers / formatter (real bodies on canonical header text): the obligations behind the header contracts
    from props.parsers import parser_tasks
    return _tasks0(tier) + parser_tasks("C04", nds=(2, 3))
