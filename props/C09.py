"""C09 - pestle integrates every point of the domain exactly once."""
import z3
from pyvc.vals import *  # noqa
from pyvc.task import Task
from pyvc.vc import veq
from pyvc.libnp import reduce_const
from contracts.common import sym_path, sym_fab
from props.C01 import ASSUMPTIONS as A01, TRUSTED as T01

PE = "amr_kitchen.pestle.pestle."
ASSUMPTIONS = A01 + ["floating-point sums are treated as an uninterpreted reduction SUM over (index set, values): only "
                     "congruence is used (the statement says 'to floating-point accuracy')",
                     "covering mask of a box, occupancy-map painting loop and map resolution are under contract with the map "
                     "resolution g as a skeleton parameter (quick: 2,4,8; thorough: 2,4,6,8,16,32) - box bounds, map size and "
                     "contents, number of boxes unbounded; g is assumed even (AMReX blocking factors) and to divide the box bounds "
                     "(established by the map-resolution task on a 2-level skeleton; np.gcd.reduce by its contract 'divides every "
                     "entry'); the level loop of volume_integral and the sum over boxes are covered by the bounded run-time layer"]
TRUSTED = T01 + ["numpy: boolean-mask selection a[mask] and np.sum as a reduction over the selected cells",
                 "pool.imap ordered (assumed)"]


class SumWorker(Task):
    """increment_sum(_masked): dV * SUM over the box's cells (where the mask holds) of the integrated component
    (times the volFrac component when requested), read from the FAB at the recorded offset."""
    prop = "C09"
    reach = "U"

    def __init__(self, masked, volfrac):
        self.masked, self.volfrac = masked, volfrac
        self.fn = "increment_sum_masked" if masked else "increment_sum"
        self.qual = PE + self.fn
        self.name = f"{self.fn}[volfrac={volfrac}]"

    def setup(self, ex):
        ctx = ex.ctx
        ctx.ghost["ndims"] = 3
        path, F = sym_path(ctx, "F")
        off = z3.Int("off")
        fab = sym_fab(ctx, F, off, 3, canonical=False)
        ki, kv = z3.Ints("id_int id_vol")
        ctx.assume(z3.And(ki >= 0, ki < fab.nc, kv >= 0, kv < fab.nc))
        dV = z3.Real("dV")
        args = {"file": path, "offset": off, "id_int": ki, "id_vol": kv if self.volfrac else None, "dV": dV}
        M = None
        if self.masked:
            M = z3.Function("MASK", z3.IntSort(), z3.IntSort(), z3.IntSort(), z3.BoolSort())
            args["covering_mask"] = NDArray(list(fab.shape), lambda ix: M(*[to_z3(i) for i in ix]), "bool")
        return {"args": [args], "fab": fab, "ki": ki, "kv": kv, "dV": dV, "M": M}

    def post(self, ex, inp, out):
        ctx = ex.ctx
        ctx.oblige("raises-nothing", out.kind == "ret", "P", note=str(out.exc))
        if out.kind != "ret":
            return
        fab, ki, kv, dV, M = inp["fab"], inp["ki"], inp["kv"], inp["dV"], inp["M"]
        if self.volfrac:
            elem = lambda ix: fab.value(ix, ki) * fab.value(ix, kv)
        else:
            elem = lambda ix: fab.value(ix, ki)
        cond = (lambda ix: M(*[to_z3(i) for i in ix])) if self.masked else None
        red = reduce_const(ex, "sum", list(fab.shape), elem, cond=cond)
        v = out.value
        ok = is_z3(v) or isinstance(v, (int, float))
        ctx.structure("post.is-scalar", ok)
        if ok:
            ctx.oblige("post.dV-times-sum-over-selected-cells", to_real(v) == dV * red, "P")


def _tasks0(tier):
    from props.pestle_parents import parent_tasks
    return [SumWorker(m, v) for m in (True, False) for v in (False, True)] + parent_tasks(tier)


def canaries(tier):
    from props.pestle_parents import parent_canaries
    return parent_canaries() + _worker_canaries()


def _worker_canaries():
    f = "amr_kitchen/pestle/pestle.py"
    return [("masked worker: volFrac multiplied outside the mask",
             [(f, 'return args["dV"] * np.sum(data[args["covering_mask"]] *  data_volfrag[args["covering_mask"]])',
               'return args["dV"] * np.sum(data[args["covering_mask"]]) * np.sum(data_volfrag[args["covering_mask"]])')],
             ["increment_sum_masked[volfrac=True]"]),
            ("finest worker: reads the volFrac component for the field",
             [(f, "\n       bf.seek(np.prod(box_shape)*args['id_int']*8, 1)", "\n       bf.seek(np.prod(box_shape)*(args['id_int']+1)*8, 1)")],
             ["increment_sum[volfrac=False]"])]


SCENARIO_TIMEOUT = 400
MIX = [[[[0, 0, 0], [15, 15, 15]], [[16, 0, 0], [31, 15, 15]]], [[[8, 0, 0], [31, 15, 15]], [[32, 0, 0], [47, 15, 15]]]]
MIX3 = [[[[0, 0, 0], [23, 15, 15]], [[24, 0, 0], [39, 15, 15]]],
        [[[8, 0, 0], [31, 15, 15]], [[32, 8, 0], [55, 23, 15]], [[32, 0, 16], [47, 7, 31]]],
        [[[24, 8, 8], [47, 23, 23]], [[48, 8, 8], [63, 23, 23]]]]


OFFSET16 = [[[[0, 0, 0], [15, 15, 15]], [[16, 0, 0], [31, 15, 15]], [[0, 16, 0], [15, 31, 15]], [[16, 16, 0], [31, 31, 15]]],
            [[[8, 16, 0], [23, 31, 15]], [[24, 16, 0], [39, 31, 15]], [[8, 32, 16], [23, 47, 31]]],
            [[[24, 40, 8], [39, 55, 23]], [[40, 40, 8], [55, 55, 23]]]]


def scenarios(tier, seed):
    out = [{"kind": "pestle", "seed": seed * 1000 + 703, "ndims": 3, "nf": 3, "nfiles": 2, "layout": "shuffled",
            "n0": [32, 32, 16], "levels": OFFSET16, "ncombos": 5, "box_sizes": [16, 16], "dx0": [0.25, 0.5, 0.125]},
           {"kind": "pestle", "seed": seed * 1000 + 700, "ndims": 3, "nf": 3, "nlevels": 3, "nfiles": 2, "layout": "shuffled",
            "box": 8, "n0": [16, 16, 16], "ncombos": 5, "dx0": [0.1, 0.2, 0.4],
            # ... then another plotfile (other refinement pattern) at the same path, integrated in the same process
            "then": {"kind": "pestle", "seed": seed * 1000 + 745, "ndims": 3, "nf": 3, "nlevels": 3, "nfiles": 3, "layout": "roundrobin",
                     "box": 8, "n0": [16, 16, 16], "ncombos": 5, "dx0": [0.1, 0.2, 0.4]}},
           {"kind": "pestle", "seed": seed * 1000 + 701, "ndims": 3, "nf": 3, "nfiles": 2, "layout": "shuffled",
            "n0": [32, 16, 16], "levels": MIX, "ncombos": 4, "box_sizes": [16, 24]},
           {"kind": "pestle", "seed": seed * 1000 + 702, "ndims": 3, "nf": 4, "nfiles": 3, "layout": "roundrobin",
            "n0": [40, 16, 16], "levels": MIX3, "ncombos": 5, "box_sizes": [16, 24], "dx0": [0.5, 0.25, 1.0]}]
    if tier != "quick":
        for i in range(6):
            out.append({"kind": "pestle", "seed": seed * 1000 + 710 + i, "ndims": 3, "nf": 3 + i % 2, "nlevels": 1 + i % 4,
                        "nfiles": 1 + i % 3, "layout": ["shuffled", "roundrobin"][i % 2], "box": 8, "n0": [16, 16, 16],
                        "box_sizes": [8, 16] if i % 2 else None, "ncombos": 10})
    return out


def run_scenario(p, wd):
    from harness.rt_tools import run_pestle_scenario
    return run_pestle_scenario(p, wd)



def tasks(tier):
    # the FAB header parsers / formatter (real bodies on canonical header text): the obligations behind the header contracts
    from props.parsers import parser_tasks
    return _tasks0(tier) + parser_tasks("C09", nds=(2, 3))
