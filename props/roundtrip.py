"""C14 (S layer): text round trips  parse(write(state)) == op(state)  by executing the REAL writer and then the REAL parser
on segment strings, on bounded skeletons with symbolic values."""
import z3
from pyvc.vals import *  # noqa
from pyvc.task import Task
from pyvc.vc import veq
from pyvc.libfile import TextFS
from pyvc.libos import PathVal, join2
from pyvc.strings import SStr, NameAtom
from spec.fmt import SkelPF, S
from props.header_tasks import INLINE_PCK, PCK, plt_path, install, check_reader_view

CO = "amr_kitchen.colander.colander.Colander."
CH = "amr_kitchen.chef.chef.Chef."
CB = "amr_kitchen.combine.combine."


def out_path():
    return PathVal([("dir", Opaque("OUTD", "path", absolute=True)), ("name", Opaque("out", "name"))], True, False)


class View:
    """expected reader view of a written plotfile (duck-typed like SkelPF for check_reader_view)"""

    def __init__(self, pf, keep, L, off, names=None):
        self.nd, self.nf, self.L = pf.nd, len(keep), L
        self.nboxes = pf.nboxes[: L + 1]
        self._names = names
        self.names = [pf.names[k] for k in keep] if names is None else None
        self.time, self.geo_lo, self.geo_hi = pf.time, pf.geo_lo, pf.geo_hi
        self.dx, self.n = pf.dx[: L + 1], pf.n[: L + 1]
        self.blo, self.bhi, self.ilo, self.ihi = pf.blo, pf.bhi, pf.ilo, pf.ihi
        self.off = off
        self.fileatoms, self.file_of = pf.fileatoms, pf.file_of
        self.mins = [[[pf.mins[lv][b][k] for k in keep] for b in range(pf.nboxes[lv])] for lv in range(L + 1)]
        self.maxs = [[[pf.maxs[lv][b][k] for k in keep] for b in range(pf.nboxes[lv])] for lv in range(L + 1)]

    def field_keys(self):
        if self._names is not None:
            return list(self._names)
        return [S(NameAtom(n)) for n in self.names]


class ColanderRoundTrip(Task):
    """Colander.__init__ + write_strained_global_header + update_cell_header (real bodies) then PlotfileCooker.__init__ (real
    body) on what they wrote: the reader view equals strain(PF, vars, limit) with the new offsets."""
    prop = "C14"
    reach = "S"
    qual = CO + "write_strained_global_header"
    inline = INLINE_PCK + (PCK + "__init__", CO + "__init__", CO + "update_cell_header", CO + "write_strained_global_header")

    def __init__(self, nd, nf, nboxes, keep, limit):
        self.cfg = dict(nd=nd, nf=nf, nboxes=nboxes, keep=keep, limit=limit)
        self.name = f"colander-headers-roundtrip[nd={nd},nf={nf},boxes={nboxes},keep={keep},limit={limit}]"

    def functions(self):
        return [self.qual, CO + "update_cell_header", CO + "__init__", PCK + "__init__"] + list(INLINE_PCK)

    def setup(self, ex):
        c = self.cfg
        pf = SkelPF(c["nd"], c["nf"], c["nboxes"], files_per_level=2 if max(c["nboxes"]) > 1 else 1)
        fs = TextFS()
        ex.ctx.ghost["fs"] = fs
        root = plt_path()
        install(ex, fs, root, pf)
        for a in pf.wf_assumptions():
            ex.ctx.assume(a)
        return {"pf": pf, "fs": fs, "root": root}

    def call(self, ex, inp):
        c, pf, root = self.cfg, inp["pf"], inp["root"]
        ex.call_depth += 1      # every repo function below is reached through the inline list / contracts
        try:
            variables = ["all"] if c["keep"] == "all" else [S(NameAtom(pf.names[k])) for k in c["keep"]]
            col = ex.instantiate("amr_kitchen.colander.colander.Colander", [],
                                 dict(plotfile=root, limit_level=c["limit"], output=out_path(), variables=variables))
            L = pf.L if c["limit"] is None else c["limit"]
            newoff = [[z3.Int(f"newoff{lv}_{b}") for b in range(pf.nboxes[lv])] for lv in range(L + 1)]
            for lv in range(L + 1):
                hdr_r = join2(ex, join2(ex, root, f"Level_{lv}"), "Cell_H")
                ex.call_qual(CO + "update_cell_header", [lv, hdr_r, Vec(newoff[lv])], {}, self_obj=col)
            ex.call_qual(CO + "write_strained_global_header", [], {}, self_obj=col)
            back = ex.instantiate("amr_kitchen.plotfile_cooker.PlotfileCooker", [out_path()], dict(maxmins=True))
        finally:
            ex.call_depth -= 1
        return back, newoff

    def post(self, ex, inp, out):
        ctx = ex.ctx
        ctx.oblige("raises-nothing", out.kind == "ret", "P", note=str(out.exc))
        if out.kind != "ret":
            return
        c, pf = self.cfg, inp["pf"]
        back, newoff = out.value
        keep = list(range(pf.nf)) if c["keep"] == "all" else list(c["keep"])
        L = pf.L if c["limit"] is None else c["limit"]
        view = View(pf, keep, L, newoff)
        check_reader_view(ex, back, view, None, True, False, label="roundtrip", grids=False)
        written = sorted(inp["fs"].written)
        ctx.oblige("frame.only-output-headers-written", all("/<name:out>/" in k for k in written), "P", note=str(written))


class ChefRoundTrip(Task):
    """Chef.write_global_header + Chef.update_cell_header on a parsed plotfile, read back by the real parser."""
    prop = "C14"
    reach = "S"
    qual = CH + "write_global_header"
    inline = INLINE_PCK + (PCK + "__init__", CH + "update_cell_header", CH + "write_global_header")

    def __init__(self, nf, nboxes, nkept, limit=None):
        self.cfg = dict(nf=nf, nboxes=nboxes, nkept=nkept, limit=limit)
        self.name = f"chef-headers-roundtrip[nf={nf},boxes={nboxes},kept={nkept}" + (f",limit={limit}]" if limit is not None else "]")

    def functions(self):
        return [self.qual, CH + "update_cell_header", PCK + "__init__"] + list(INLINE_PCK)

    def setup(self, ex):
        c = self.cfg
        pf = SkelPF(3, c["nf"], c["nboxes"])
        fs = TextFS()
        ex.ctx.ghost["fs"] = fs
        root = plt_path()
        install(ex, fs, root, pf)
        for a in pf.wf_assumptions():
            ex.ctx.assume(a)
        return {"pf": pf, "fs": fs, "root": root}

    def call(self, ex, inp):
        c, pf, root = self.cfg, inp["pf"], inp["root"]
        ex.call_depth += 1
        try:
            chef = Record("amr_kitchen.chef.chef.Chef")
            ex.call_qual(PCK + "__init__", [root], dict(limit_level=c["limit"]), self_obj=chef)
            kept = list(range(c["nkept"]))
            Lc = pf.L if c["limit"] is None else c["limit"]
            dn = Opaque("derived", "name", distinct_from_literals=True)
            dn.sym = z3.Int("derived")
            newname = S(NameAtom(dn))
            chef.attrs["outdir"] = out_path()
            chef.attrs["outfields"] = [S(NameAtom(pf.names[k])) for k in kept] + [newname]
            nout = len(kept) + 1
            newoff = [[z3.Int(f"newoff{lv}_{b}") for b in range(pf.nboxes[lv])] for lv in range(Lc + 1)]
            nmins = [[[z3.Real(f"nmin{lv}_{b}_{k}") for k in range(nout)] for b in range(pf.nboxes[lv])] for lv in range(Lc + 1)]
            nmaxs = [[[z3.Real(f"nmax{lv}_{b}_{k}") for k in range(nout)] for b in range(pf.nboxes[lv])] for lv in range(Lc + 1)]
            ex.call_qual(CH + "write_global_header", [], {}, self_obj=chef)
            for lv in range(Lc + 1):
                hdr_r = join2(ex, join2(ex, root, f"Level_{lv}"), "Cell_H")
                ex.call_qual(CH + "update_cell_header", [lv, hdr_r, Vec(newoff[lv]), [Vec(r) for r in nmins[lv]], [Vec(r) for r in nmaxs[lv]]],
                             {}, self_obj=chef)
            back = ex.instantiate("amr_kitchen.plotfile_cooker.PlotfileCooker", [out_path()], dict(maxmins=True))
        finally:
            ex.call_depth -= 1
        return back, newoff, nmins, nmaxs, chef.attrs["outfields"]

    def post(self, ex, inp, out):
        ctx = ex.ctx
        ctx.oblige("raises-nothing", out.kind == "ret", "P", note=str(out.exc))
        if out.kind != "ret":
            return
        pf = inp["pf"]
        back, newoff, nmins, nmaxs, names = out.value
        view = View(pf, [0] * len(names), pf.L if self.cfg["limit"] is None else self.cfg["limit"], newoff, names=names)    # mins/maxs set below
        view.mins, view.maxs = nmins, nmaxs
        check_reader_view(ex, back, view, None, True, False, label="roundtrip", grids=False)


class CombineRoundTrip(Task):
    """write_global_header_new_fields + rewrite_level_header for two parsed plotfiles on one mesh."""
    prop = "C14"
    reach = "S"
    qual = CB + "rewrite_level_header"
    inline = INLINE_PCK + (PCK + "__init__", PCK + "write_global_header_new_fields", CB + "rewrite_level_header")

    def __init__(self, nf1, nf2, nboxes, k1, k2, limit=None, nboxes2=None):
        """limit: the first plotfile is opened with limit_level=limit (an ancestor combined with a level-limited descendant whose
        own level structure is nboxes2)"""
        self.cfg = dict(nf1=nf1, nf2=nf2, nboxes=nboxes, k1=k1, k2=k2, limit=limit, nboxes2=nboxes2 or nboxes)
        self.name = f"combine-headers-roundtrip[nf={nf1}+{nf2},boxes={nboxes},sel={k1}+{k2}" + (f",limit={limit},second={nboxes2}]" if limit is not None else "]")

    def functions(self):
        return [self.qual, PCK + "write_global_header_new_fields", PCK + "__init__"] + list(INLINE_PCK)

    def setup(self, ex):
        c = self.cfg
        pf1 = SkelPF(3, c["nf1"], c["nboxes"], tag="a")
        pf2 = SkelPF(3, c["nf2"], c["nboxes2"], tag="b")
        fs = TextFS()
        ex.ctx.ghost["fs"] = fs
        r1 = plt_path()
        r2 = PathVal([("dir", Opaque("D2", "path", absolute=False)), ("name", Opaque("plt2", "name"))], False, False)
        install(ex, fs, r1, pf1)
        install(ex, fs, r2, pf2)
        for a in pf1.wf_assumptions() + pf2.wf_assumptions():
            ex.ctx.assume(a)
        return {"pf1": pf1, "pf2": pf2, "fs": fs, "r1": r1, "r2": r2}

    def call(self, ex, inp):
        c, pf1, pf2 = self.cfg, inp["pf1"], inp["pf2"]
        ex.call_depth += 1
        try:
            p1 = ex.instantiate("amr_kitchen.plotfile_cooker.PlotfileCooker", [inp["r1"]], dict(limit_level=c["limit"]))
            p2 = ex.instantiate("amr_kitchen.plotfile_cooker.PlotfileCooker", [inp["r2"]], {})
            Lc = pf1.L if c["limit"] is None else c["limit"]
            names = [S(NameAtom(pf1.names[k])) for k in c["k1"]] + [S(NameAtom(pf2.names[k])) for k in c["k2"]]
            out = PathVal([("name", Opaque("out", "name"))], False, False)     # combine anchors relative outputs at cwd
            # np.unique(field_names) only checks for duplicates: distinct opaque names
            from pyvc.exec import LIBS
            LIBS[("numpy", "unique")] = lambda ex_, a, k: list(a[0])
            ex.call_qual(PCK + "write_global_header_new_fields", [out, names], {}, self_obj=p1)
            newoff = [[z3.Int(f"newoff{lv}_{b}") for b in range(pf1.nboxes[lv])] for lv in range(Lc + 1)]
            for lv in range(Lc + 1):
                ex.call_qual(CB + "rewrite_level_header", [p1, p2, out, lv, len(names), Vec(newoff[lv]), list(c["k1"]), list(c["k2"])], {})
            from pyvc.libos import os_getcwd
            back = ex.instantiate("amr_kitchen.plotfile_cooker.PlotfileCooker", [join2(ex, os_getcwd(ex, [], {}), out)], dict(maxmins=True))
        finally:
            ex.call_depth -= 1
        return back, newoff, names

    def post(self, ex, inp, out):
        ctx = ex.ctx
        ctx.oblige("raises-nothing", out.kind == "ret", "P", note=str(out.exc))
        if out.kind != "ret":
            return
        c, pf1, pf2 = self.cfg, inp["pf1"], inp["pf2"]
        back, newoff, names = out.value
        Lc = pf1.L if c["limit"] is None else c["limit"]
        view = View(pf1, list(c["k1"]), Lc, newoff, names=names)
        view.nf = len(names)
        view.mins = [[[pf1.mins[lv][b][k] for k in c["k1"]] + [pf2.mins[lv][b][k] for k in c["k2"]] for b in range(pf1.nboxes[lv])]
                     for lv in range(Lc + 1)]
        view.maxs = [[[pf1.maxs[lv][b][k] for k in c["k1"]] + [pf2.maxs[lv][b][k] for k in c["k2"]] for b in range(pf1.nboxes[lv])]
                     for lv in range(Lc + 1)]
        check_reader_view(ex, back, view, None, True, False, label="roundtrip", grids=False)


def roundtrip_tasks(tier):
    out = [ColanderRoundTrip(3, 2, [2, 1], [1, 0], None), ColanderRoundTrip(2, 3, [1, 2], [2], 0), ColanderRoundTrip(3, 2, [1], "all", None),
           ChefRoundTrip(2, [1, 2], 1), ChefRoundTrip(2, [1], 0), CombineRoundTrip(2, 2, [1, 2], [0, 1], [1]), CombineRoundTrip(1, 1, [1], [0], [0]),
           CombineRoundTrip(2, 1, [1, 2], [1], [0], limit=0, nboxes2=[1]), ChefRoundTrip(2, [1, 1], 1, limit=0)]
    if tier == "thorough":
        out += [ColanderRoundTrip(3, 4, [2, 2, 1], [3, 1], 1), ColanderRoundTrip(2, 4, [3, 2, 2, 1], [0, 2, 3], 3),
                ChefRoundTrip(3, [2, 2, 1], 3), CombineRoundTrip(3, 2, [2, 2, 2], [2, 0], [0, 1])]
    return out


def roundtrip_canaries():
    return [("colander header: level count off by one", [("amr_kitchen/colander/colander.py", "            hfile.write(str(self.limit_level) + '\\n')\n            # Lower bounds\n            hfile.write(' '.join([str(f) for f in self.geo_low]) + '\\n')\n            # Upper bounds\n            hfile.write(' '.join([str(f) for f in self.geo_high]) + '\\n')\n            # Refinement factors\n            if self.limit_level > 0:",
                                                        "            hfile.write(str(self.limit_level + 1) + '\\n')\n            # Lower bounds\n            hfile.write(' '.join([str(f) for f in self.geo_low]) + '\\n')\n            # Upper bounds\n            hfile.write(' '.join([str(f) for f in self.geo_high]) + '\\n')\n            # Refinement factors\n            if self.limit_level > 0:")],
             ["colander-headers-roundtrip[nd=3,nf=2,boxes=[2, 1],keep=[1, 0],limit=None]"]),
            ("chef level header: min and max tables swapped",
             [("amr_kitchen/chef/chef.py", "                for min_vals in new_mins:", "                for min_vals in new_maxs:")],
             ["chef-headers-roundtrip[nf=2,boxes=[1, 2],kept=1]"])]


MM_ = "amr_kitchen.mandoline.mandoline.Mandoline."


class Slice2dHeaderRoundTrip(Task):
    """Mandoline.write_2d_slice_global_header (real body) on a reader parsed from a 3D plotfile (real parser), possibly with a
    level limit below the finest level, then the real parser (header only) on what was written: a 2D plotfile header with the
    input's time, the in-plane bounds, the in-plane cell sizes and grid sizes of levels 0..limit and nothing of the levels
    above the limit."""
    prop = "C16"
    reach = "S"
    qual = MM_ + "write_2d_slice_global_header"
    inline = INLINE_PCK + (PCK + "__init__", MM_ + "write_2d_slice_global_header")

    def __init__(self, nboxes, limit, cn):
        self.cfg = dict(nboxes=nboxes, limit=limit, cn=cn)
        self.name = f"slice-2d-header-roundtrip[boxes={nboxes},limit={limit},normal={cn}]"

    def functions(self):
        return [self.qual, PCK + "__init__"] + list(INLINE_PCK)

    def setup(self, ex):
        c = self.cfg
        pf = SkelPF(3, 2, c["nboxes"])
        fs = TextFS()
        ex.ctx.ghost["fs"] = fs
        root = plt_path()
        install(ex, fs, root, pf)
        for a in pf.wf_assumptions():
            ex.ctx.assume(a)
        return {"pf": pf, "fs": fs, "root": root}

    def call(self, ex, inp):
        c, pf, root = self.cfg, inp["pf"], inp["root"]
        cn = c["cn"]
        cx, cy = [d for d in range(3) if d != cn]
        ex.call_depth += 1
        try:
            m = Record("amr_kitchen.mandoline.mandoline.Mandoline")
            ex.call_qual(PCK + "__init__", [root], dict(limit_level=c["limit"]), self_obj=m)
            Lc = pf.L if c["limit"] is None else c["limit"]
            m.attrs.update(cx=cx, cy=cy, cn=cn, nfidxs=2, pos=z3.Real("pos"))
            names = [S(NameAtom(pf.names[0])), S(NameAtom(pf.names[1]))]
            indexes = [list(range(pf.nboxes[lv])) for lv in range(Lc + 1)]
            out = out_path()
            from pyvc.libfile import bi_open
            fobj = bi_open(ex, [join2(ex, out, "Header"), "w"], {})
            ex.call_qual(MM_ + "write_2d_slice_global_header", [fobj, names, indexes], {}, self_obj=m)
            ex.call_method(fobj, "close", [], {})
            back = ex.instantiate("amr_kitchen.plotfile_cooker.PlotfileCooker", [out], dict(header_only=True))
        finally:
            ex.call_depth -= 1
        return back, Lc, cx, cy

    def post(self, ex, inp, out):
        ctx = ex.ctx
        ctx.oblige("raises-nothing", out.kind == "ret", "P", note=str(out.exc))
        if out.kind != "ret":
            return
        pf = inp["pf"]
        back, Lc, cx, cy = out.value
        A = back.attrs
        ob = lambda name, f: ctx.oblige(f"roundtrip.{name}", f, "P")
        ob("ndims-is-2", A.get("ndims") == 2)
        ob("time", veq(ctx, A.get("time"), pf.time))
        ob("finest-level-is-the-limit", A.get("max_level") == Lc and A.get("limit_level") == Lc)
        ob("in-plane-lower-bounds", veq(ctx, A.get("geo_low"), [pf.geo_lo[cx], pf.geo_lo[cy]]))
        ob("in-plane-upper-bounds", veq(ctx, A.get("geo_high"), [pf.geo_hi[cx], pf.geo_hi[cy]]))
        dx = A.get("dx", [])
        ob("cell-sizes-of-levels-up-to-the-limit", len(dx) == Lc + 1 and veq(ctx, dx, [[pf.dx[lv][cx], pf.dx[lv][cy]] for lv in range(Lc + 1)]))
        gs = A.get("grid_sizes", [])
        ob("grid-sizes-of-levels-up-to-the-limit", len(gs) == Lc + 1 and
           veq(ctx, [list(ex.as_iterable(g)) for g in gs], [[pf.n[lv][cx], pf.n[lv][cy]] for lv in range(Lc + 1)]))
        boxes = A.get("boxes", [])
        ob("levels-exposed", len(boxes) == Lc + 1)
        for lv in range(min(len(boxes), Lc + 1)):
            exp = [[[pf.blo[lv][b][d], pf.bhi[lv][b][d]] for d in (cx, cy)] for b in range(pf.nboxes[lv])]
            ob(f"in-plane-footprints-of-the-boxes[{lv}]", veq(ctx, boxes[lv], exp))
        fields = A.get("fields", {})
        ob("fields-in-order", list(fields.values()) == [0, 1])


def slice_header_tasks(tier):
    out = [Slice2dHeaderRoundTrip([1, 2], 0, 1), Slice2dHeaderRoundTrip([1, 2], None, 0)]
    if tier == "thorough":
        out += [Slice2dHeaderRoundTrip([2, 1, 1], 1, 2), Slice2dHeaderRoundTrip([1], None, 2)]
    return out


def slice_header_canaries():
    return [("2D slice header: cell sizes of every parsed level written",
             [("amr_kitchen/mandoline/mandoline.py", "        for lv in range(self.limit_level + 1):\n            fobj.write(f\"{self.dx[lv][self.cx]} {self.dx[lv][self.cy]}\\n\")",
               "        for lv in range(len(self.dx)):\n            fobj.write(f\"{self.dx[lv][self.cx]} {self.dx[lv][self.cy]}\\n\")")],
             ["slice-2d-header-roundtrip[boxes=[1, 2],limit=0,normal=1]"])]
