"""C19: LevelDataSelector.__call__ under contract, in two mechanically extracted fragments (the statements in between - scipy's
map_coordinates and the between-boxes case - are dropped):
  PointLocal  - CASE 1 (point inside the cell-centre hull of one box): the box read is the matched box of the matched level and
                the interpolation coordinates are the point's cell index relative to THAT box's index origin;
  PointMatch  - the matching loop and the choice of the finest matching level."""
import ast
import z3
from pyvc.vals import *  # noqa
from pyvc.task import FragmentTask
from pyvc.vc import veq

PC = "amr_kitchen.plotfile_cooker."
SEL = PC + "LevelDataSelector."
I, R = z3.IntSort(), z3.RealSort()


class BoxRead:
    """value of self[level][box]: the data of that box for the selector's field selection (C01 contracts)"""

    def __init__(self, lv, b):
        self.lv, self.b = lv, b


def _src(pattern):
    return lambda s: pattern in ast.unparse(s).split("\n")[0]


class PointLocal(FragmentTask):
    """For a point that is the centre of cell c (global index at level l) and with box b of level l the single inner match:
    data_arrays == self[l][b] and point_local == c - lo(l, b), exactly (real arithmetic), wherever the domain origin is and
    whatever the cell sizes of the levels are."""
    prop = "C19"
    reach = "S"
    qual = SEL + "__call__"
    first = staticmethod(_src("match_box_id = int("))
    last = staticmethod(_src("point_local = "))

    def __init__(self, nlevels, l):
        self.nlevels, self.l = nlevels, l
        self.name = f"LevelDataSelector.__call__.single-box[levels={nlevels},match={l}]"

    def setup(self, ex):
        ctx = ex.ctx
        nl, l = self.nlevels, self.l
        NB = [z3.Int(f"nb{lv}") for lv in range(nl)]
        b = z3.Int("b")
        ctx.assume(z3.And(*[n >= 1 for n in NB], b >= 0, b < NB[l]))
        glo = [z3.Real(f"glo{d}") for d in range(3)]
        DX = [[z3.Real(f"dx{lv}_{d}") for d in range(3)] for lv in range(nl)]
        for lv in range(nl):
            for d in range(3):
                ctx.assume(DX[lv][d] > 0)
        ILO, IHI = z3.Function("ILO", I, I, I, I), z3.Function("IHI", I, I, I, I)
        BLO, BHI = z3.Function("BLO", I, I, I, R), z3.Function("BHI", I, I, I, R)
        c = [z3.Int(f"c{d}") for d in range(3)]
        point = Vec([glo[d] + (to_real(c[d]) + z3.RealVal("1/2")) * DX[l][d] for d in range(3)], "array")
        cells = [{"indexes": SymSeq(NB[lv], lambda i, lv=lv: [[ILO(lv, to_z3(i), d) for d in range(3)], [IHI(lv, to_z3(i), d) for d in range(3)]]),
                  "files": Opaque(f"files{lv}", "obj"), "offsets": Opaque(f"offsets{lv}", "obj")} for lv in range(nl)]
        boxes_of = lambda lv: SymSeq(NB[lv], lambda i: [[BLO(lv, to_z3(i), d), BHI(lv, to_z3(i), d)] for d in range(3)])
        self_ = Record(PC + "LevelDataSelector", farg=z3.Int("k"), cells=cells, limit_level=nl - 1,
                       boxes=[boxes_of(lv) for lv in range(nl)], dx=[list(DX[lv]) for lv in range(nl)], geo_low=list(glo))

        def level_view(ex_, args, kw):
            lv = args[-1]
            return SymSeq(NB[lv], lambda i: BoxRead(lv, i))
        self.contracts = {SEL + "__getitem__": level_view}
        inner = {lv: (Vec([b], "array") if lv == l else Vec([], "array")) for lv in range(nl)}
        # what the loop leaves behind in these names: the boxes / dx of the LAST level visited
        frame = {"self": self_, "point": point, "box_matches_inner": inner, "match_lv_inner": l,
                 "boxes": NDArray([NB[nl - 1], 3, 2], lambda ix: z3.If(to_z3(ix[2]) == 0, BLO(nl - 1, to_z3(ix[0]), to_z3(ix[1])),
                                                                       BHI(nl - 1, to_z3(ix[0]), to_z3(ix[1]))), "f8"),
                 "dx": list(DX[nl - 1]), "level": nl - 1}
        return {"frame": frame, "c": c, "b": b, "ILO": ILO}

    def post(self, ex, inp, out):
        ctx = ex.ctx
        ctx.oblige("raises-nothing", out.kind == "ret", "P", note=str(out.exc) if out.kind != "ret" else "")
        if out.kind != "ret":
            return
        v = out.value
        da, pl = v.get("data_arrays"), v.get("point_local")
        ctx.oblige("post.reads-the-matched-box-of-the-matched-level",
                   isinstance(da, BoxRead) and da.lv == self.l and veq(ctx, da.b, inp["b"]), "P")
        from pyvc.ops import as_ndarray
        try:
            items = [as_ndarray(pl).elem((d,)) for d in range(3)]
        except Exception:
            items = None
        ctx.structure("post.point_local-is-a-3-vector", items is not None)
        if items is None:
            return
        for d in range(3):
            ctx.oblige(f"post.local-coordinate[{d}]-is-the-cell-index-relative-to-the-box-origin",
                       to_real(items[d]) == to_real(inp["c"][d] - inp["ILO"](self.l, inp["b"], d)), "P")


def api_tasks(tier):
    out = [PointLocal(2, 0), PointLocal(2, 1), PointValue(2, 1), PointValue(2, 0), PointMatch(), PointRefusal(0, 1), PointRefusal(2, 0)]
    if tier == "thorough":
        out += [PointLocal(3, 0), PointLocal(3, 1), PointLocal(3, 2), PointLocal(1, 0)]
    return out


def api_canaries():
    f = "amr_kitchen/plotfile_cooker.py"
    return [("point query: domain origin not subtracted",
             [(f, "            point_idx = ((point - self.geo_low) / dx) - 0.5\n            # 3D data for a single box",
               "            point_idx = (point / dx) - 0.5\n            # 3D data for a single box")],
             ["LevelDataSelector.__call__.single-box[levels=2,match=1]"]),
            ("point query: cell size of the last level visited by the matching loop",
             [(f, "            dx = self.dx[match_lv_inner]\n", "")],
             ["LevelDataSelector.__call__.single-box[levels=2,match=0]"])]


def tasks(tier):
    return api_tasks(tier)


def canaries(tier):
    return api_canaries()



class PointValue(PointLocal):
    """The single-box branch down to its return, single field: for a point that is the centre of a cell of box b at least one
    cell away from its faces, the value returned is the stored value of that cell.  scipy's map_coordinates by its contract (at
    integer coordinates at least one cell inside the array it returns the element there; anything else is outside the contract)."""
    last = staticmethod(lambda s: isinstance(s, ast.If) and "self.farg" in ast.unparse(s.test))

    def __init__(self, nlevels, l):
        super().__init__(nlevels, l)
        self.name = f"LevelDataSelector.__call__.single-box-value[levels={nlevels},match={l}]"

    def setup(self, ex):
        r = super().setup(ex)
        ctx = ex.ctx
        from pyvc.exec import LIBS
        DATA = z3.Function("STORED", I, I, I, R)
        sh = [z3.Int(f"ext{d}") for d in range(3)]
        c, b, ILO = r["c"], r["b"], r["ILO"]
        for d in range(3):
            loc = c[d] - ILO(self.l, b, d)
            ctx.assume(z3.And(sh[d] >= 3, loc >= 1, loc <= sh[d] - 2))       # at least one cell away from the faces of its box

        def level_view(ex_, args, kw):
            lv = args[-1]
            return SymSeq(z3.Int(f"nb{lv}"), lambda i: NDArray(list(sh), lambda ix: DATA(*[to_z3(x) for x in ix]), "f8"))
        self.contracts = {SEL + "__getitem__": level_view}

        def map_coordinates(ex_, args, kw):
            from pyvc.ops import as_ndarray
            arr, co = as_ndarray(args[0]), as_ndarray(args[1])
            if arr.ndim != 3:
                raise Unsupported("map_coordinates: rank")
            pts = []
            for d in range(3):
                x = co.elem((d, 0))
                xr = to_real(x)
                k = ex_.ctx.fresh("coord")
                # the contract only speaks about integer coordinates at least one cell inside the array
                if not ex_.ctx.entails(z3.Exists([k], z3.And(to_real(k) == xr, k >= 1, k <= to_z3(arr.shape[d]) - 2))):
                    raise Unsupported("map_coordinates outside its contract (non-integer coordinate, or next to the edge)")
                kk = ex_.ctx.fresh("icoord")
                ex_.ctx.add_pc(to_real(kk) == xr)
                pts.append(kk)
            return Vec([arr.elem(tuple(pts))], "array")
        LIBS[("scipy.ndimage", "map_coordinates")] = map_coordinates
        r["DATA"], r["sh"] = DATA, sh
        return r

    def post(self, ex, inp, out):
        ctx = ex.ctx
        ctx.oblige("raises-nothing", out.kind == "ret", "P", note=str(out.exc) if out.kind != "ret" else "")
        if out.kind != "ret":
            return
        from pyvc.ops import as_ndarray
        val = out.value.get("__return__", None) if isinstance(out.value, dict) else None
        ctx.structure("post.the-branch-returns-a-value", val is not None)
        if val is None:
            return
        got = as_ndarray(val).elem((0,))
        c, b, ILO = inp["c"], inp["b"], inp["ILO"]
        ctx.oblige("post.returns-the-stored-value-of-the-cell", to_z3(got) == inp["DATA"](*[c[d] - ILO(self.l, b, d) for d in range(3)]), "P")

class PointMatch(FragmentTask):
    """The matching loop of __call__ and the choice of the finest matching level, on a two-level skeleton in which a fine box
    lies across the face shared by two coarse boxes (concrete index ranges; domain origin and cell sizes symbolic): for the
    centre of ANY interior cell of the fine box (at least one cell from its faces) - including the cells touching the coarse
    face - the finest level holding the point is level 1 for all three matchings, and the single inner match is the fine box:
    the query is answered from the finest level covering the point."""
    prop = "C19"
    reach = "S"
    qual = SEL + "__call__"
    first = staticmethod(_src("box_matches_exact = {}"))
    last = staticmethod(_src("match_lv_outer = "))

    def __init__(self):
        self.name = "LevelDataSelector.__call__.finest-covering-level[fine box across a coarse face]"

    def setup(self, ex):
        ctx = ex.ctx
        glo = [z3.Real(f"glo{d}") for d in range(3)]
        dx0 = [z3.Real(f"dx{d}") for d in range(3)]
        for d in range(3):
            ctx.assume(dx0[d] > 0)
        dx1 = [x / 2 for x in dx0]
        co = lambda d, i, dx: glo[d] + i * dx[d]
        # level 0: cells 0..7 and 8..15 in x, 0..7 in y, z;  level 1 (fine cells): 8..23 in x (across coarse x = 8 <=> fine 16), 4..11 in y, z
        b0 = [[[co(0, 0, dx0), co(0, 8, dx0)], [co(1, 0, dx0), co(1, 8, dx0)], [co(2, 0, dx0), co(2, 8, dx0)]],
              [[co(0, 8, dx0), co(0, 16, dx0)], [co(1, 0, dx0), co(1, 8, dx0)], [co(2, 0, dx0), co(2, 8, dx0)]]]
        b1 = [[[co(0, 8, dx1), co(0, 24, dx1)], [co(1, 4, dx1), co(1, 12, dx1)], [co(2, 4, dx1), co(2, 12, dx1)]]]
        # the point: centre of an interior fine cell (cx in 9..22, cy, cz in 5..10)
        pt = [z3.Real(f"p{d}") for d in range(3)]
        rng = [(9, 22), (5, 10), (5, 10)]
        for d in range(3):
            ctx.assume(z3.Or(*[pt[d] == glo[d] + (z3.RealVal(c) + z3.RealVal("1/2")) * dx1[d] for c in range(rng[d][0], rng[d][1] + 1)]))
        self_ = Record(PC + "LevelDataSelector", limit_level=1, boxes=[b0, b1], dx=[list(dx0), list(dx1)], geo_low=list(glo))
        return {"frame": {"self": self_, "point": Vec(pt, "array")}}

    def post(self, ex, inp, out):
        ctx = ex.ctx
        ctx.oblige("raises-nothing", out.kind == "ret", "P", note=str(out.exc) if out.kind != "ret" else "")
        if out.kind != "ret":
            return
        v = out.value
        for k in ("match_lv_exact", "match_lv_inner", "match_lv_outer"):
            ctx.oblige(f"post.{k}-is-the-fine-level", veq(ctx, v.get(k), 1), "P", note=str(v.get(k)))
        inner = v.get("box_matches_inner", {}).get(1)
        ok = inner is not None
        ctx.structure("post.inner-matches-of-the-fine-level-recorded", ok)
        if ok:
            from pyvc.ops import as_ndarray
            a = as_ndarray(inner)
            ctx.oblige("post.the-single-inner-match-is-the-fine-box", zand(to_z3(a.shape[0]) == 1, to_z3(a.elem((0,))) == 0), "P")


class PointRefusal(PointMatch):
    """Same skeleton, a point OUTSIDE the domain (beyond one face by any positive amount, however small, in-range in the other
    directions): the statements up to the choice of the exact-match level do not complete normally - the query is refused."""
    last = staticmethod(_src("match_lv_exact = "))

    def __init__(self, d, side):
        self.d, self.side = d, side
        self.name = f"LevelDataSelector.__call__.refuses-points-outside[axis={d},{'upper' if side else 'lower'} face]"

    def setup(self, ex):
        inp = PointMatch.setup(self, ex)
        ctx = ex.ctx
        # replace the point: keep the other coordinates anywhere inside the domain, move this one beyond the face
        glo = [z3.Real(f"glo{d}") for d in range(3)]
        dx0 = [z3.Real(f"dx{d}") for d in range(3)]
        n0 = [16, 8, 8]
        q = [z3.Real(f"q{d}") for d in range(3)]
        eps = z3.Real("eps")
        ctx.assume(eps > 0)
        for d in range(3):
            if d == self.d:
                ctx.assume(q[d] == (glo[d] + n0[d] * dx0[d] + eps if self.side else glo[d] - eps))
            else:
                ctx.assume(z3.And(q[d] >= glo[d], q[d] <= glo[d] + n0[d] * dx0[d]))
        inp["frame"]["point"] = Vec(q, "array")
        return inp

    def post(self, ex, inp, out):
        ex.ctx.oblige("post.query-outside-the-domain-is-refused", out.kind == "exc", "P",
                      note="the matching statements completed for a point outside the domain")


