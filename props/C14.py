"""C14 - tool outputs are valid tool inputs: pipelines equal the composed pure operations."""
import itertools
from props.C01 import ASSUMPTIONS as A01, TRUSTED as T01
from props.header_tasks import header_tasks, header_canaries

ASSUMPTIONS = A01 + ["the induction over histories is exercised by the bounded layer: all operation-kind sequences up to length 2 "
                     "(quick) and sampled sequences up to length 4 (thorough) on generated plotfiles"]
TRUSTED = T01 + ["CPython float/int text round trips: float(repr(x)) == x, float(f'{x:.16e}') == x, int(str(i)) == i",
                 "T-FS: a file written as chunks and read back has those chunks at the recorded tell() positions",
                 "field names are opaque texts without newline or blank and differ from the literals the code compares them with ('all')"]
KINDS = ["colander", "combine", "chef"]


def _tasks0(tier):
    # text side: writer/parser round trips on skeletons (S); binary side: the writers' worker contracts (U) - what a
    # worker writes is, by T-FS, an OnDisk file again (canonical header + F-order payload at the returned offsets), i.e. the
    # precondition of every reader/worker of the next operation: the one-step lemma of the history induction
    from props.C05 import StrainWorker
    from props.combine_kernels import ByBoxes, ByBinfile
    from props.chef_kernels import UserPfileKnife
    out = header_tasks("C14", tier)
    # parent side of the same lemma: the tasks handed to the workers and the scatter of their results (skeletons)
    from props.colander_parents import parent_tasks as colander_parents
    from props.combine_parents import parent_tasks as combine_parents
    from props.chef_kernels import cook_tasks, init_tasks
    for t in [StrainWorker(3), StrainWorker(2), ByBoxes(), ByBinfile(), UserPfileKnife(True)] + colander_parents(tier) + \
            combine_parents(tier) + cook_tasks(tier) + [t_ for t_ in init_tasks(tier) if type(t_).__name__ in ("KeptNames", "KeptIds")]:
        t.prop = "C14"
        out.append(t)
    return out


def canaries(tier):
    return header_canaries("C14")


SCENARIO_TIMEOUT = 900
SCENARIO_WORKERS = 4


def scenarios(tier, seed):
    import random
    seqs1 = [[k] for k in KINDS]
    seqs2 = [list(s) for s in itertools.product(KINDS, repeat=2)]
    out = []
    if tier == "quick":
        chunks = [seqs1 + seqs2[:3], seqs2[3:6], seqs2[6:]]
        for i, ch in enumerate(chunks):
            out.append({"kind": "pipeline", "seed": seed * 1000 + 1800 + i, "ndims": 3, "nf": 3, "nlevels": 2 + i % 2, "nfiles": 2 + i % 2,
                        "layout": "shuffled", "n0": [16, 16, 8], "sequences": ch, "ref_line_extra": i % 2})
        out.append({"kind": "pipeline", "seed": seed * 1000 + 1810, "ndims": 2, "nf": 3, "nlevels": 2, "nfiles": 2, "layout": "shuffled",
                    "n0": [32, 16], "sequences": [["colander"], ["colander", "colander"]]})
        return out
    rng = random.Random(seed)
    longer = [[rng.choice(KINDS) for _ in range(rng.choice([3, 4]))] for _ in range(24)]
    allseq = seqs1 + seqs2 + longer
    for i in range(8):
        out.append({"kind": "pipeline", "seed": seed * 1000 + 1800 + i, "ndims": 3, "nf": 3, "nlevels": 1 + i % 3, "nfiles": 1 + i % 3,
                    "layout": ["shuffled", "roundrobin"][i % 2], "n0": [16, 16, 8], "sequences": allseq[i::8],
                    "box_sizes": [8, 16] if i % 3 == 0 else None, "ref_line_extra": i % 2})
    return out


def run_scenario(p, wd):
    from harness.rt_pipeline import run_pipeline_scenario
    return run_pipeline_scenario(p, wd)



def tasks(tier):
    # the FAB header parsers / formatter (real bodies on canonical header text): the obligations behind the header contracts
    from props.parsers import parser_tasks
    return _tasks0(tier) + parser_tasks("C14", nds=(2, 3))
