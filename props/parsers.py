"""The FAB header parsers and the formatter of amr_kitchen/utils.py under contract: the REAL bodies on canonical header text
with symbolic index bounds and component count.  These are the obligations behind the header contracts (pyvc/headers.py) that
every file-level proof uses: hdr(lo, hi, nc) parses back to (lo, hi, nc), for 2-D and 3-D headers, for every lo <= hi
(including one-cell-thick boxes, lo == hi) and negative bounds excluded only by the format itself."""
import z3
from pyvc.vals import *  # noqa
from pyvc.task import Task
from pyvc.vc import veq
from pyvc.strings import SStr, IntAtom

UT = "amr_kitchen.utils."
CONST = "FAB ((8, (64 11 52 0 1 12 0 1023)),(8, (8 7 6 5 4 3 2 1)))"


def header_text(lo, hi, nc):
    nd = len(lo)
    segs = [CONST + "(("]
    for d in range(nd):
        segs += [IntAtom(lo[d]), "," if d < nd - 1 else ""]
    segs += [") ("]
    for d in range(nd):
        segs += [IntAtom(hi[d]), "," if d < nd - 1 else ""]
    segs += [") (" + ",".join(["0"] * nd) + ")) ", IntAtom(nc), "\n"]
    return SStr(segs)


class Parser(Task):
    reach = "U"

    def __init__(self, prop, fn, nd):
        self.prop, self.fn, self.nd = prop, fn, nd
        self.qual = UT + fn
        self.name = f"{fn}[nd={nd}]"
        self.contracts = {}          # the real bodies, not the contracts

    def setup(self, ex):
        ctx = ex.ctx
        nd = self.nd
        lo = [z3.Int(f"lo{d}") for d in range(nd)]
        hi = [z3.Int(f"hi{d}") for d in range(nd)]
        nc = z3.Int("nc")
        ctx.assume(z3.And(nc >= 1, *[z3.And(lo[d] >= 0, hi[d] >= lo[d]) for d in range(nd)]))
        h = header_text(lo, hi, nc)
        as_bytes = self.fn in ("indexes_and_shape_from_header", "shapes_from_header_vardims")
        arg = SStr(h.segs, isbytes=True) if as_bytes else h
        args = [arg, nd] if self.fn == "shapes_from_header_vardims" else [arg]
        return {"args": args, "lo": lo, "hi": hi, "nc": nc}

    def post(self, ex, inp, out):
        ctx = ex.ctx
        ctx.oblige("raises-nothing", out.kind == "ret", "P", note=str(out.exc) if out.kind != "ret" else "")
        if out.kind != "ret":
            return
        lo, hi, nc, nd = inp["lo"], inp["hi"], inp["nc"], self.nd
        shape = [hi[d] - lo[d] + 1 for d in range(nd)] + [nc]
        v = out.value
        lst = lambda x: list(ex.as_iterable(x))
        if self.fn == "shape_from_header":
            ctx.oblige("post.shape-with-component-count", veq(ctx, lst(v), shape), "P")
        elif self.fn == "indices_from_header":
            ok = isinstance(v, list) and len(v) == 2
            ctx.structure("post.returns-start-and-stop", ok)
            if ok:
                ctx.oblige("post.start-is-lo", veq(ctx, lst(v[0]), lo), "P")
                ctx.oblige("post.stop-is-hi", veq(ctx, lst(v[1]), hi), "P")
        elif self.fn == "indexes_and_shape_from_header":
            ok = isinstance(v, tuple) and len(v) == 2
            ctx.structure("post.returns-indexes-and-shape", ok)
            if ok:
                ctx.oblige("post.start-is-lo", veq(ctx, lst(v[0][0]), lo), "P")
                ctx.oblige("post.stop-is-hi", veq(ctx, lst(v[0][1]), hi), "P")
                ctx.oblige("post.shape-with-component-count", veq(ctx, lst(v[1]), shape), "P")
        else:
            ctx.oblige("post.shape-with-component-count", veq(ctx, lst(v), shape), "P")


class Formatter(Task):
    """header_from_indices(lo, hi, nc) is the canonical header text of (lo, hi, nc) (as bytes)."""
    reach = "U"
    qual = UT + "header_from_indices"

    def __init__(self, prop, nd):
        self.prop, self.nd = prop, nd
        self.name = f"header_from_indices[nd={nd}]"
        self.contracts = {}

    def setup(self, ex):
        nd = self.nd
        lo = [z3.Int(f"lo{d}") for d in range(nd)]
        hi = [z3.Int(f"hi{d}") for d in range(nd)]
        nc = z3.Int("nc")
        return {"args": [Vec(lo, "array"), Vec(hi, "array"), nc], "lo": lo, "hi": hi, "nc": nc}

    def post(self, ex, inp, out):
        ctx = ex.ctx
        ctx.oblige("raises-nothing", out.kind == "ret", "P", note=str(out.exc) if out.kind != "ret" else "")
        if out.kind != "ret":
            return
        from pyvc.strings import str_eq
        v = out.value
        exp = header_text(inp["lo"], inp["hi"], inp["nc"])
        ctx.oblige("post.result-is-bytes", isinstance(v, (SStr, bytes)) and getattr(v, "isbytes", True), "P")
        ctx.oblige("post.canonical-header-text", isinstance(v, (SStr, bytes)) and str_eq(ex, v, SStr(exp.segs, isbytes=True)), "P", note=repr(v)[:200])


def parser_tasks(prop, which=("shape_from_header", "indices_from_header", "indexes_and_shape_from_header", "shapes_from_header_vardims", "header_from_indices"),
                 nds=(3,)):
    out = []
    for fn in which:
        for nd in nds:
            if fn == "header_from_indices":
                out.append(Formatter(prop, nd))
            elif fn == "shapes_from_header_vardims" or nd == 3:
                out.append(Parser(prop, fn, nd))
    return out


def parser_canaries():
    return [("indices_from_header: one-cell-thick boxes refused as corrupted",
             [("amr_kitchen/utils.py", "    stop = np.array(stop.replace('(', '').replace(')', '').split(','), dtype=int)\n    return [start, stop]",
               "    stop = np.array(stop.replace('(', '').replace(')', '').split(','), dtype=int)\n    if np.any(stop <= start):\n        raise BadTastingBinariesError('corrupted header')\n    return [start, stop]")],
             ["indices_from_header[nd=3]"]),
            ("shape_from_header: shape without the +1",
             [("amr_kitchen/utils.py", "    shape = stop - start + 1\n    #total_shape = [shape[0], shape[1], shape[2], nfields]", "    shape = stop - start\n    #total_shape = [shape[0], shape[1], shape[2], nfields]")],
             ["shape_from_header[nd=3]"])]


def tasks(tier):
    return parser_tasks("CXX", nds=(2, 3))


def canaries(tier):
    return parser_canaries()
