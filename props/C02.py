"""C02 - opening a plotfile exposes exactly the metadata its headers state."""
from props.C01 import ASSUMPTIONS as A01, TRUSTED as T01
from props.header_tasks import header_tasks, header_canaries

ASSUMPTIONS = A01
TRUSTED = T01


def tasks(tier):
    return header_tasks("C02", tier)


def canaries(tier):
    return header_canaries("C02")


SCENARIO_TIMEOUT = 300
NAMES = [["temp", "density", "Y(H2)"], ["a", "a", "b", "a"], ["x_velocity"], ["rho", "rho_2", "rho", "T"],
         ["f1", "f2", "f3", "f4", "f5"]]


def scenarios(tier, seed):
    n = 12 if tier == "quick" else 24
    return [{"kind": "metadata", "seed": seed * 1000 + 1700 + i, "ndims": 3 if i % 2 == 0 else 2, "names": NAMES[i % 5],
             "nlevels": [2, 1, 3, 4][i % 4], "nfiles": [2, 1, 3][i % 3], "layout": ["shuffled", "roundrobin"][i % 2],
             "geo_lo": [[1.0, 2.0, 3.0], [0., 0., 0.], [-0.75, 100.125, 1e-3]][i % 3],
             "dx0": [[0.1, 0.2, 0.4], [1., 1., 1.], [0.015625, 0.5, 3.0]][i % 3], "ref_line_extra": i % 3,
             "box_sizes": [8, 16] if i % 3 == 1 else None, "time": [0.123, 0.0, 1e-9, 42.5][i % 4],
             "n0": [8, 8, 8] if i % 4 == 3 else None,
             "version": [None, "NavierStokes-V1.1", "MyCode 2.0"][i % 3],             # the version line is free text of the writing code
             "rewrite_in_place": i % 4 == 1, "large_offsets": i % 6 == 2} for i in range(n)]


def run_scenario(p, wd):
    from harness.rt_reader import run_metadata_scenario
    return run_metadata_scenario(p, wd)
