"""C06 - combine merges fields box by box, independent of either input's file layout."""
from props.C01 import ASSUMPTIONS as A01, TRUSTED as T01
from props.combine_kernels import combine_tasks, combine_canaries

ASSUMPTIONS = A01 + ["mode selection, task generators and offset re-mapping are proved on bounded skeletons (3 boxes over 2 interleaved "
                     "files, concrete names, symbolic offsets; generators run eagerly) and exercised by the bounded run-time layer; "
                     "the workers are proved unbounded under the layout preconditions the mode decision establishes"]
TRUSTED = T01 + ["T-SER; pool.map/imap ordered (assumed)"]


def _tasks0(tier):
    from props.combine_parents import parent_tasks
    return combine_tasks("C06") + parent_tasks(tier)


def canaries(tier):
    from props.combine_parents import parent_canaries
    return combine_canaries() + parent_canaries()


SCENARIO_TIMEOUT = 400
LAYOUTS = [("monotone", "monotone"), ("shuffled", "shuffled"), ("shuffled", "same-as-first"), ("roundrobin", "shuffled"),
           ("monotone", "shuffled"), ("shuffled", "monotone")]


def scenarios(tier, seed):
    n = 4 if tier == "quick" else 12
    return [{"kind": "combine", "seed": seed * 1000 + 1500 + i, "layout1": LAYOUTS[i % 6][0], "layout2": LAYOUTS[i % 6][1],
             "nfiles1": [2, 3, 1][i % 3], "nfiles2": [2, 1, 3][(i + 1) % 3], "nlevels": [2, 3, 1][i % 3], "nf1": 2 + i % 3, "nf2": 2 + i % 2,
             "n0": [16, 16, 8], "wide_floats": True, "box_sizes": [8, 16] if i % 4 == 3 else None, "ncombos": 3 if tier == "quick" else 5} for i in range(n)]


def run_scenario(p, wd):
    from harness.rt_tools import run_combine_scenario
    return run_combine_scenario(p, wd)



def tasks(tier):
    # the FAB header parsers / formatter (real bodies on canonical header text): the obligations behind the header contracts
    from props.parsers import parser_tasks
    return _tasks0(tier) + parser_tasks("C06", nds=(2, 3))
