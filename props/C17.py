"""C17 - chk2plt carries the checkpoint's interior state into a valid plotfile."""
from props.C01 import ASSUMPTIONS as A01, TRUSTED as T01

ASSUMPTIONS = A01 + ["checkpoint header text parsing is covered by the bounded run-time layer on synthetic checkpoints; the worker "
                     "(ghost stripping, flooring, subset concatenation, min/max) is under contract (U); the parent's task "
                     "construction and result scatter are proved on a bounded skeleton (3 boxes over 2 state files, concrete "
                     "file names; offsets, index ranges and returned values symbolic; np.argsort modelled as a stable rank "
                     "computation, keys assumed distinct)"]
TRUSTED = T01
from props.chk_kernels import chk_tasks, chk_canaries


def _tasks0(tier):
    from props.chk_parents import parent_tasks
    return chk_tasks("C17", tier) + parent_tasks(tier)


def canaries(tier):
    from props.chk_parents import parent_canaries
    return chk_canaries() + parent_canaries()


SCENARIO_TIMEOUT = 400


def scenarios(tier, seed):
    n = 3 if tier == "quick" else 9
    return [{"kind": "chk2plt", "seed": seed * 1000 + 1400 + i, "ghost": 1 + i % 3, "nlevels": 1 + (i + 1) % 3, "nfiles": 1 + i % 3,
             "nspecies": [3, 2, 5][i % 3], "layout": ["shuffled", "roundrobin"][i % 2], "n0": [[16, 16, 8], [8, 16, 24]][i % 2],
             "dx0": [[0.1, 0.2, 0.4], [1.0, 0.5, 0.25], [1., 1., 1.]][i % 3], "box_sizes": [8, 16] if i % 3 == 2 else None,
             "species_source": ["list", "plotfile"][i % 2], "ncombos": 3 if tier == "quick" else 8,
             # ... then a checkpoint with ANOTHER number of species converted by the same process (same paths)
             **({"then": {"kind": "chk2plt", "seed": seed * 1000 + 1450 + i, "ghost": 2, "nlevels": 2, "nfiles": 2, "nspecies": [5, 4, 2][i % 3],
                          "layout": "shuffled", "n0": [16, 16, 8], "dx0": [0.1, 0.2, 0.4], "species_source": "list",
                          "ncombos": 4, "force_floor": True}} if i < 2 else {})} for i in range(n)]


def run_scenario(p, wd):
    from harness.rt_tools import run_chk2plt_scenario
    return run_chk2plt_scenario(p, wd)



def tasks(tier):
    # the FAB header parsers / formatter (real bodies on canonical header text): the obligations behind the header contracts
    from props.parsers import parser_tasks
    return _tasks0(tier) + parser_tasks("C17", nds=(2, 3))
