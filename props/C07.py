"""C07 - mandoline 3D slices interpolate the right samples at every pixel."""
from props.C01 import ASSUMPTIONS as A01, TRUSTED as T01
from props.mandoline_kernels import kernel_tasks, kernel_canaries

ASSUMPTIONS = A01 + ["coordinates and interpolation weights are real numbers (machine arithmetic treated as mathematical); "
                     "np.isclose(a,b) is |a-b| <= 1e-8 + 1e-5|b|",
                     "box selection, per-level reduction and the interpolation formula of reducemp_data_ortho are covered by "
                     "the bounded run-time layer (np.empty poisoned with NaN in the harness) in this round"]
TRUSTED = T01 + ["numpy: linspace, where, isclose, repeat, reshape contracts"]


def tasks(tier):
    return kernel_tasks("C07", ["expand", "coords"])


def canaries(tier):
    return kernel_canaries(["expand", "coords"])


SCENARIO_TIMEOUT = 500
SCENARIO_WORKERS = 4


def scenarios(tier, seed):
    n = 4 if tier == "quick" else 12
    return [{"kind": "slice", "seed": seed * 1000 + 1000 + i, "ndims": 3, "nf": [2, 3][i % 2], "nlevels": [2, 3, 2, 1][i % 4],
             "nfiles": [2, 3][i % 2], "layout": ["shuffled", "roundrobin"][i % 2], "n0": [[16, 16, 16], [16, 8, 24]][i % 2],
             "geo_lo": [[1.0, 2.0, 3.0], [0., 0., 0.]][i % 2], "dx0": [[0.1, 0.2, 0.4], [1., 0.5, 0.25]][i % 2],
             "payload": ["affine", "random"][i % 2], "ncombos": 2 if tier == "quick" else 5,
             "npos": 9 if tier == "quick" else 30} for i in range(n)]


def run_scenario(p, wd):
    from harness.rt_mandoline import run_slice_scenario
    return run_slice_scenario(p, wd)
