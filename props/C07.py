"""C07 - mandoline 3D slices interpolate the right samples at every pixel."""
from props.C01 import ASSUMPTIONS as A01, TRUSTED as T01
from props.mandoline_kernels import kernel_tasks, kernel_canaries

ASSUMPTIONS = A01 + ["coordinates and interpolation weights are real numbers (machine arithmetic treated as mathematical); "
                     "np.isclose(a,b) is |a-b| <= 1e-8 + 1e-5|b|",
                     "reducemp_data_ortho: painting ONE worker output into the plane arrays and the interpolation statements are "
                     "under contract (fragments, np.empty as unknown values with an initialised bit); that the levels are painted "
                     "coarse to fine over all outputs (the double loop) is covered by the bounded run-time layer (np.empty poisoned "
                     "with NaN in the harness); box selection (compute_mpinput_3d) and the box worker (slice_box) are under contract",
                     "slice_box: the number of requested fields is a skeleton parameter (1, 2, 1+None); box geometry, data, "
                     "level, refinement factor and plane position are unbounded",
                     "ghost enumeration (CNT, IDX) of a filtered list: definitional facts instantiated by hand (spec/filt.py)"]
TRUSTED = T01 + ["numpy: linspace, where, isclose, repeat, reshape contracts"]


def tasks(tier):
    from props.mandoline_parents import parent_tasks
    from props.mandoline_boxes import box_tasks
    from props.mandoline_parents import kernel_tasks2
    return kernel_tasks("C07", ["expand", "coords"]) + parent_tasks("C07") + box_tasks("C07", ["slice"]) + kernel_tasks2("C07", ("ortho", "paint")) + \
        __import__("props.mandoline_parents", fromlist=["names_tasks"]).names_tasks("C07") + \
        __import__("props.mandoline_parents", fromlist=["aux_tasks"]).aux_tasks("C07") + \
        __import__("props.mandoline_parents", fromlist=["composition_tasks"]).composition_tasks("C07")


def canaries(tier):
    from props.mandoline_parents import parent_canaries
    from props.mandoline_boxes import box_canaries
    from props.mandoline_parents import kernel_canaries2
    return kernel_canaries(["expand", "coords"]) + parent_canaries() + box_canaries(["slice"]) + kernel_canaries2() + kernel_canaries2(("paint",)) + \
        __import__("props.mandoline_parents", fromlist=["names_canaries"]).names_canaries() + \
        __import__("props.mandoline_parents", fromlist=["aux_canaries"]).aux_canaries() + \
        __import__("props.mandoline_parents", fromlist=["composition_canaries"]).composition_canaries()


SCENARIO_TIMEOUT = 500
SCENARIO_WORKERS = 4


def SLAB(seed):
    """a refined SLAB: the fine level spans the whole cross-section but only part of the extent along z (and x for the second
    one): next to the slab's faces one bracketing sample is fine, the other has to come from the coarse level"""
    l0 = [[[i, j, k], [i + 7, j + 7, k + 7]] for i in (0, 8) for j in (0, 8) for k in (0, 8)]
    l1 = [[[i, j, 8], [i + 15, j + 15, 23]] for i in (0, 16) for j in (0, 16)]
    return {"kind": "slice", "seed": seed * 1000 + 1090, "ndims": 3, "nf": 2, "nfiles": 2, "layout": "shuffled", "n0": [16, 16, 16],
            "levels": [l0, l1], "geo_lo": [1.0, 2.0, 3.0], "dx0": [0.1, 0.2, 0.4], "payload": "affine", "ncombos": 3, "npos": 16,
            "normals": [2]}


def scenarios(tier, seed):
    n = 4 if tier == "quick" else 12
    return [{"kind": "slice", "seed": seed * 1000 + 1000 + i, "ndims": 3, "nf": [2, 3][i % 2], "nlevels": [2, 3, 2, 1][i % 4],
             "nfiles": [2, 3][i % 2], "layout": ["shuffled", "roundrobin"][i % 2], "n0": [[16, 16, 16], [16, 8, 24]][i % 2],
             "geo_lo": [[1.0, 2.0, 3.0], [0., 0., 0.]][i % 2], "dx0": [[0.1, 0.2, 0.4], [1., 0.5, 0.25]][i % 2],
             "payload": ["affine", "random"][i % 2], "ncombos": 2 if tier == "quick" else 5,
             "npos": 13 if tier == "quick" else 30} for i in range(n)] + [SLAB(seed)]


def run_scenario(p, wd):
    from harness.rt_mandoline import run_slice_scenario
    return run_slice_scenario(p, wd)
