"""Taster.taste_binary_headers / taste_binary_shape, the per-file worker inputs (C03, C04, C20): the workers' precondition 'the
boxes of the task are those of the file, in increasing recorded offset, each with its own index range and box number'.
Real code on a bounded skeleton: 3 boxes over 2 interleaved files, symbolic offsets and index ranges."""
import ast
import z3
from pyvc.vals import *  # noqa
from pyvc.task import FragmentTask, Task
from pyvc.vc import veq
from pyvc.loops import LoopSpec

TA = "amr_kitchen.taste.taste.Taster."
I = z3.IntSort()
FILES = ["p/Level_0/Cell_D_00001", "p/Level_0/Cell_D_00000", "p/Level_0/Cell_D_00001"]


def _src(pattern):
    return lambda s: pattern in ast.unparse(s).split("\n")[0]


class WorkerInput(FragmentTask):
    """Body of the loop over the binary files of a level in taste_binary_headers / taste_binary_shape."""
    reach = "S"
    first = staticmethod(_src("bfile_mask = "))
    last = staticmethod(_src("mp_inputs.append(mp_in)"))

    def __init__(self, prop, method, which):
        self.prop, self.method, self.which = prop, method, which
        self.qual = TA + method
        self.name = f"{method}.task-of-binary-file[{which.split('/')[-1]}]"

    def setup(self, ex):
        ctx = ex.ctx
        off = [z3.Int(f"off{i}") for i in range(3)]
        ctx.assume(z3.And(z3.Distinct(*off), *[x >= 0 for x in off]))
        ILO, IHI = z3.Function("ILO", I, I, I), z3.Function("IHI", I, I, I)
        indexes = [[[ILO(i, d) for d in range(3)], [IHI(i, d) for d in range(3)]] for i in range(3)]
        fields = {"a": 0, "b": 1}
        self_ = Record("amr_kitchen.taste.taste.Taster", cells=[{"files": list(FILES), "offsets": list(off), "indexes": indexes}], fields=fields, v=0)
        frame = {"self": self_, "lv": 0, "lv_box_ids": Vec([0, 1, 2], "array"), "mp_inputs": [], "bfile": self.which}
        return {"frame": frame, "B": [i for i in range(3) if FILES[i] == self.which], "off": off, "indexes": indexes}

    def post(self, ex, inp, out):
        ctx = ex.ctx
        ctx.oblige("raises-nothing", out.kind == "ret", "P", note=str(out.exc) if out.kind != "ret" else "")
        if out.kind != "ret":
            return
        mp = out.value.get("mp_inputs")
        ok = isinstance(mp, list) and len(mp) == 1 and isinstance(mp[0], dict)
        ctx.structure("post.one-task-appended", ok)
        if not ok:
            return
        m, B, off = mp[0], inp["B"], inp["off"]
        ids = ex.as_iterable(m.get("box_ids"))
        offs = ex.as_iterable(m.get("offsets"))
        idx = ex.as_iterable(m.get("indices"))
        okn = len(ids) == len(B) and len(offs) == len(B) and len(idx) == len(B)
        ctx.oblige("post.one-entry-per-box-of-the-file", okn, "P")
        if not okn:
            return
        ctx.oblige("post.ids-are-the-boxes-of-the-file", zand(*[zor(*[to_z3(b) == c for c in B]) for b in ids],
                                                             z3.Distinct(*[to_z3(b) for b in ids]) if len(ids) > 1 else True), "P")
        from pyvc.libnp import np_array
        for t in range(len(ids)):
            for c in B:
                hyp = to_z3(ids[t]) == c
                ctx.oblige(f"post.offset[{t}]-is-the-recorded-offset-of-box_ids[{t}]", z3.Implies(hyp, to_z3(offs[t]) == off[c]), "P")
                ctx.oblige(f"post.indices[{t}]-is-the-index-range-of-box_ids[{t}]",
                           z3.Implies(hyp, to_z3(veq(ctx, idx[t], np_array(ex, [inp["indexes"][c]], {})))), "P")
        for t in range(len(ids) - 1):
            ctx.oblige(f"post.offsets-increasing[{t}]", to_z3(offs[t]) < to_z3(offs[t + 1]), "P")
        from pyvc.ops import compare
        ctx.oblige("post.file-field-count-level", zand(compare(ex, "Eq", m.get("bfile"), self.which), veq(ctx, m.get("nfields"), 2), veq(ctx, m.get("lv"), 0)), "P")


class ResultsConsumed(Task):
    """The WHOLE method taste_binary_headers / taste_binary_shape on a skeleton (two levels; level 0: 3 boxes over 2 interleaved
    files, level 1: one box), the two workers replaced by their interface 'returns None or a message' (each outcome a path):
    for every verbosity, every level <= limit and every distinct binary file exactly one worker call is made with that file's
    task, and a message returned by ANY of them reaches raise_error (isgood cleared; raised iff failing mode) - a worker
    verdict is never dropped; without a message the method returns normally and isgood is untouched."""
    reach = "S"
    inline = (TA + "raise_error",)

    def __init__(self, prop, method, limit):
        self.prop, self.method, self.limit = prop, method, limit
        self.qual = TA + method
        self.name = f"{method}.every-worker-verdict-consumed[limit={limit}]"

    def functions(self):
        return [self.qual, TA + "raise_error"]

    def setup(self, ex):
        ctx = ex.ctx
        gh = {"calls": [], "bad": False}
        off = [z3.Int(f"off{i}") for i in range(3)]
        ctx.assume(z3.And(z3.Distinct(*off), *[x >= 0 for x in off]))
        ILO, IHI = z3.Function("ILO", I, I, I), z3.Function("IHI", I, I, I)
        indexes = [[[ILO(i, d) for d in range(3)], [IHI(i, d) for d in range(3)]] for i in range(3)]
        lv1 = {"files": ["p/Level_1/Cell_D_00000"], "offsets": [z3.Int("off_l1")], "indexes": [[[ILO(9, d) for d in range(3)], [IHI(9, d) for d in range(3)]]]}
        v = z3.Int("verbosity")
        fob = z3.Bool("fail_on_bad")
        worker = "mp_fun_headers" if self.method == "taste_binary_headers" else "mp_fun_shape"

        def wk(ex_, args, kw):
            m = args[0]
            gh["calls"].append((str(m.get("bfile")), m.get("lv")))
            if ex_.ctx.choose(2) == 0:
                return None
            gh["bad"] = True
            return "message of the worker"
        self.contracts = {"amr_kitchen.taste.taste." + worker: wk}
        pool = Record("Pool")
        pool.held = True
        from pyvc.exec import LIBS
        LIBS[("os.path", "getsize")] = lambda ex_, a, k: (a[0], ex_.ctx.fresh("size_of_a_binary_file"))[1]      # any size
        self_ = Record("amr_kitchen.taste.taste.Taster", cells=[{"files": list(FILES), "offsets": list(off), "indexes": indexes}, lv1],
                       fields={"a": 0, "b": 1}, v=v, limit_level=self.limit, isgood=True, fail_on_bad=fob, pool=pool, ndims=3,
                       # the options as the constructor records them (any combination)
                       check_binary_headers=z3.Bool("opt_headers"), check_binary_shape=z3.Bool("opt_shape"),
                       check_binary_data=z3.Bool("opt_data"), check_boxes_coordinates=z3.Bool("opt_coordinates"))
        return {"self": self_, "args": [], "gh": gh, "fob": fob}

    def post(self, ex, inp, out):
        ctx = ex.ctx
        gh, self_ = inp["gh"], inp["self"]
        want = sorted([(f, 0) for f in set(FILES)] + ([("p/Level_1/Cell_D_00000", 1)] if self.limit >= 1 else []))
        if out.kind == "ret":
            got = sorted((f, lv if isinstance(lv, int) else -1) for f, lv in gh["calls"])
            ctx.oblige("post.one-worker-call-per-binary-file-of-every-validated-level", got == want, "P", note=f"{got} vs {want}")
        if gh["bad"]:
            ctx.oblige("sound.a-worker-message-clears-isgood", self_.attrs.get("isgood") is False, "P")
            if out.kind == "exc":
                ctx.oblige("sound.raises-only-in-failing-mode", zand(inp["fob"], out.exc.etype == "TastesBadError"), "P", note=str(out.exc))
            else:
                ctx.oblige("sound.returns-only-in-non-failing-mode", z3.Not(inp["fob"]), "P")
        else:
            ctx.oblige("complete.no-message-returns-normally", out.kind == "ret", "P", note=str(out.exc) if out.kind != "ret" else "")
            ctx.oblige("complete.no-message-leaves-isgood", self_.attrs.get("isgood") is True, "P")


class Structure(Task):
    """The whole method taste_plotfile_structure on a skeleton (level 0: 3 boxes over 2 files; level 1: one file), the directory
    listing of every level a free choice (each named file present or absent, plus a stray file): a binary file named by the
    level header of a VALIDATED level that the level directory does not list clears isgood (raises exactly in failing mode);
    with every named file of the validated levels present the method returns with isgood untouched - whatever is or is not in
    the levels above the limit."""
    reach = "S"
    inline = (TA + "raise_error",)

    def __init__(self, prop, limit):
        self.prop, self.limit = prop, limit
        self.qual = TA + "taste_plotfile_structure"
        self.name = f"taste_plotfile_structure[limit={limit}]"

    def functions(self):
        return [self.qual, TA + "raise_error"]

    def setup(self, ex):
        from pyvc.exec import LIBS
        named = {0: ["Cell_D_00000", "Cell_D_00001"], 1: ["Cell_D_00000"]}
        present = {}

        def listdir(ex_, args, kw):
            d = str(args[0])
            lv = 0 if "Level_0" in d else 1
            out = ["Cell_H", "stray_file"]
            for f in named[lv]:
                if (lv, f) not in present:
                    present[(lv, f)] = ex_.ctx.choose(2) == 0
                if present[(lv, f)]:
                    out.append(f)
            return out
        LIBS[("os", "listdir")] = listdir
        fob = z3.Bool("fail_on_bad")
        cells = [{"files": list(FILES)}, {"files": ["p/Level_1/Cell_D_00000"]}]
        self_ = Record("amr_kitchen.taste.taste.Taster", cells=cells, pfile="p", cell_paths=["Level_0", "Level_1"], limit_level=self.limit,
                       isgood=True, fail_on_bad=fob, v=0)
        return {"self": self_, "args": [], "present": present, "named": named, "fob": fob}

    def post(self, ex, inp, out):
        ctx = ex.ctx
        self_, present = inp["self"], inp["present"]
        missing = [k for k, v in present.items() if not v and k[0] <= self.limit]
        asked_above = [k for k in present if k[0] > self.limit]
        ctx.oblige("frame.no-level-above-the-limit-is-listed", not asked_above, "P", note=str(asked_above))
        if out.kind == "ret":
            ctx.oblige("post.every-named-file-of-a-validated-level-was-looked-for",
                       all((lv, f) in present for lv in range(self.limit + 1) for f in inp["named"][lv]), "P")
        if missing:
            ctx.oblige("sound.a-missing-binary-file-clears-isgood", self_.attrs.get("isgood") is False, "P", note=str(missing))
            if out.kind == "exc":
                ctx.oblige("sound.raises-only-in-failing-mode", zand(inp["fob"], out.exc.etype == "TastesBadError"), "P", note=str(out.exc))
            else:
                ctx.oblige("sound.returns-only-in-non-failing-mode", z3.Not(inp["fob"]), "P")
        else:
            ctx.oblige("complete.all-present-returns-normally", out.kind == "ret", "P", note=str(out.exc) if out.kind != "ret" else "")
            ctx.oblige("complete.all-present-leaves-isgood", self_.attrs.get("isgood") is True, "P")


class ConsumeU(FragmentTask):
    """The loop of taste_binary_headers / taste_binary_shape that consumes the workers' verdicts, for ANY number of binary files
    (unbounded: loop invariant).  Verdict j is a message exactly when BAD(j).  Invariant after k verdicts: isgood holds exactly
    when none of the first k verdicts was a message - and in failing mode none was (the first one raised).  Hence: a message
    from any worker clears isgood, and leaves the method by an exception exactly in failing mode."""
    reach = "U"
    inline = (TA + "raise_error",)

    def __init__(self, prop, method):
        self.prop, self.method = prop, method
        self.qual = TA + method
        self.worker = "mp_fun_headers" if method == "taste_binary_headers" else "mp_fun_shape"
        self.name = f"{method}.every-worker-verdict-consumed[any number of files]"
        self.first = self.last = lambda s_: isinstance(s_, ast.For) and "imap(" + self.worker in ast.unparse(s_.iter)

    def functions(self):
        return [self.qual, TA + "raise_error"]

    def setup(self, ex):
        ctx = ex.ctx
        B = z3.BoolSort()
        n = z3.Int("ntasks")
        ctx.assume(n >= 0)
        BAD, ANY = z3.Function("BAD", I, B), z3.Function("ANYBAD", I, B)
        q = z3.Int("q")
        ctx.assume(z3.Not(ANY(0)))
        ctx.assume(z3.ForAll([q], z3.Implies(q >= 0, ANY(q + 1) == z3.Or(ANY(q), BAD(q))), patterns=[ANY(q + 1)]))
        fob = z3.Bool("fail_on_bad")

        def wk(ex_, args, kw):
            j = args[0]
            return "message of the worker" if ex_.ctx.branch(BAD(to_z3(j))) else None
        self.contracts = {"amr_kitchen.taste.taste." + self.worker: wk}
        pool = Record("Pool")
        pool.held = True
        self_ = Record("amr_kitchen.taste.taste.Taster", isgood=True, fail_on_bad=fob, pool=pool, v=z3.Int("verbosity"))
        tasks = SymSeq(n, lambda j, ex_=None: to_z3(j), "list")

        def template(ex_, fr, k, entry):
            seen_none = z3.Implies(fob, z3.Not(ANY(to_z3(k))))       # part of the invariant: assumed when applied, PROVED when established
            return {"self.isgood": z3.Not(ANY(to_z3(k))), "__assume__": [seen_none], "__assert__": [("in-failing-mode-no-report-so-far", seen_none)]}
        from pyvc.exec import loop_nodes
        fdef = ex.repo.func(self.qual)[0]
        ordn = [i_ for i_, node in enumerate(loop_nodes(fdef)) if self.first(node)]
        if len(ordn) != 1:
            raise Unsupported("the loop consuming the workers' verdicts is not in this method (restructured code)")
        self.loopspecs = {(self.qual, ordn[0]): LoopSpec(template)}
        return {"frame": {"self": self_, "mp_inputs": tasks, "lv": z3.Int("lv")}, "n": n, "ANY": ANY, "fob": fob}

    def post(self, ex, inp, out):
        ctx = ex.ctx
        n, ANY, fob = inp["n"], inp["ANY"], inp["fob"]
        if out.kind == "ret":
            good = inp["frame"]["self"].attrs.get("isgood")
            ctx.oblige("post.after-the-loop-isgood-iff-no-worker-reported", to_z3(good) == z3.Not(ANY(n)), "P")
            ctx.oblige("post.in-failing-mode-the-loop-only-ends-normally-without-a-report", z3.Implies(fob, z3.Not(ANY(n))), "P")
        else:
            ctx.oblige("post.leaves-by-an-exception-only-in-failing-mode-with-isgood-cleared",
                       zand(fob, out.exc.etype == "TastesBadError", inp["frame"]["self"].attrs.get("isgood") is False), "P", note=str(out.exc))


def parent_tasks(prop):
    return [WorkerInput(prop, meth, f) for meth in ("taste_binary_headers", "taste_binary_shape") for f in (FILES[0], FILES[1])] + \
        [ResultsConsumed(prop, meth, lim) for meth in ("taste_binary_headers", "taste_binary_shape") for lim in (0, 1)] + \
        [Structure(prop, 0), Structure(prop, 1)] + [ConsumeU(prop, meth) for meth in ("taste_binary_headers", "taste_binary_shape")]


def parent_canaries():
    f = "amr_kitchen/taste/taste.py"
    return [("taste_binary_shape: index ranges taken in box order, ids in offset order",
             [(f, "                bfile_indices = np.array(self.cells[lv]['indexes'])[box_ids]", "                bfile_indices = np.array(self.cells[lv]['indexes'])[bfile_mask]")],
             ["taste_binary_shape.task-of-binary-file[Cell_D_00001]"]),
            ("taste_binary_headers: offsets left unsorted",
             [(f, "                box_ids = box_ids[np.argsort(offsets)]\n                offsets = np.sort(offsets)\n                mp_in = {'bfile':bfile,\n                         'offsets':offsets,",
               "                box_ids = box_ids[np.argsort(offsets)]\n                mp_in = {'bfile':bfile,\n                         'offsets':offsets,")],
             ["taste_binary_headers.task-of-binary-file[Cell_D_00001]"]),
            ("taste_binary_shape: a worker's message is only passed on in verbose mode",
             [(f, "            for mp_out in self.pool.imap(mp_fun_shape, mp_inputs):\n                if mp_out is not None:",
               "            for mp_out in self.pool.imap(mp_fun_shape, mp_inputs):\n                if mp_out is not None and self.v > 0:")],
             ["taste_binary_shape.every-worker-verdict-consumed[limit=0]"]),
            ("taste_plotfile_structure: the finest validated level is not looked at",
             [(f, "        for lv in range(self.limit_level + 1):\n            lv_files = os.listdir(", "        for lv in range(self.limit_level):\n            lv_files = os.listdir(")],
             ["taste_plotfile_structure[limit=1]"])]


def tasks(tier):
    return parent_tasks("CXX")


def canaries(tier):
    return parent_canaries()
