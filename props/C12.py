"""C12 - results do not depend on worker count, task order or serial/parallel mode."""
from props.pool_sites import pool_tasks, pool_canaries

ASSUMPTIONS = ["the OS scheduler and multiprocessing internals are not modelled: the pool contract (ordered map/imap return "
               "[f(x) for x in xs]; imap_unordered a permutation) is assumed; the bounded layer executes every pool-using tool under "
               "a controllable in-process pool (submission, reversed, shuffled execution/completion orders) and the real pool "
               "with 1/2/16 workers and compares files byte for byte and returned values bit for bit",
               "pathos caches one pool per process: for chef only the controllable pool is varied",
               "pool lifetime (assumed contract of CPython's multiprocessing.pool, observed on 3.12.1): a pool only its imap iterator "
               "references can block the iteration for ever under some completion orders; the syntactic side condition "
               "'lifetime' forbids that shape at every lazy pool site (temporary Pool().imap, iterator leaving the function "
               "of a plain local pool); it can only confirm shapes it knows"]
TRUSTED = ["multiprocessing.Pool / pathos ProcessingPool (assumed contract)"]


def tasks(tier):
    # the pool hands the SAME argument objects to several tasks (chunking, in-process pools): the box readers must leave their
    # argument unchanged (frame obligation of the reader contracts)
    from props.C01 import Reader
    rd = [Reader("mp_read_box_index_field", 3, "list2"), Reader("mp_read_box_index_field", 2, "list3"), Reader("mp_read_box_slice_field", 3, "slice:a:b:s"),
          Reader("mp_read_box_single_field", 3, "int")]
    for t in rd:
        t.prop = "C12"
    return pool_tasks("C12") + rd


def canaries(tier):
    return pool_canaries()


SCENARIO_TIMEOUT = 900
SCENARIO_WORKERS = 3


def scenarios(tier, seed):
    if tier == "quick":
        return [{"kind": "schedules", "seed": seed * 1000 + 1900, "nlevels": 2, "nfiles": 4, "layout": "shuffled", "n0": [16, 16, 8],
                 "nshuffles": 2, "workers": [1, 2]},
                {"kind": "schedules", "seed": seed * 1000 + 1901, "nlevels": 3, "nfiles": 3, "layout": "roundrobin", "n0": [16, 16, 8],
                 "nshuffles": 3, "workers": []},
                # boxes of different sizes in one level (larger boxes listed after smaller ones): an ordering of the tasks by size
                # is not the identity
                {"kind": "schedules", "seed": seed * 1000 + 1902, "nfiles": 2, "layout": "shuffled", "n0": [32, 16, 16],
                 "levels": [[[[0, 0, 0], [7, 15, 15]], [[8, 0, 0], [23, 15, 15]], [[24, 0, 0], [31, 15, 15]]],
                            [[[0, 0, 0], [15, 15, 31]], [[16, 0, 0], [47, 31, 31]], [[0, 16, 0], [15, 31, 31]]]],
                 "nshuffles": 2, "workers": []}]
    return [{"kind": "schedules", "seed": seed * 1000 + 1900 + i, "nlevels": 1 + i % 3, "nfiles": 2 + i % 3, "layout": ["shuffled", "roundrobin"][i % 2],
             "n0": [16, 16, 8] if i % 2 == 0 else [32, 16, 16], "box_sizes": None if i % 2 == 0 else [8, 16],
             "nshuffles": 6, "workers": [1, 2, 16] if i < 2 else []} for i in range(5)]


def run_scenario(p, wd):
    from harness.rt_pipeline import run_schedule_scenario
    return run_schedule_scenario(p, wd)
