"""chef workers under contract (C11)."""
import z3
from pyvc.vals import *  # noqa
from pyvc.task import Task, FragmentTask
from pyvc.vc import veq
from pyvc.loops import LoopSpec
from pyvc.libfile import RFile, WFile, hdrlen
from pyvc.libnp import reduce_const
from contracts.common import sym_path, size_of
from contracts.ondisk import DiskFile
from props.combine_kernels import selection

CF = "amr_kitchen.chef.chef."

CH = "amr_kitchen.chef.chef."
I = z3.IntSort()
R_ = z3.RealSort()


class UserPfileKnife(Task):
    """chefs_knife_user_pfile: for every FAB of an OnDisk file, in disk order: hdrline(range, nkept+ncomps) followed by the F
    order bytes of [kept components (bit-identical), recipe(field_indexes, box)] ; returned offsets are the header
    positions and mins/maxs are MIN/MAX over exactly the array that is written.  The recipe is an uninterpreted
    deterministic function of the box data."""
    prop = "C11"
    reach = "U"
    qual = CH + "chefs_knife_user_pfile"

    def __init__(self, multi):
        self.multi = multi
        self.name = f"chefs_knife_user_pfile[{'n components' if multi else '1 component'}]"

    def setup(self, ex):
        ctx = ex.ctx
        ctx.ghost["ndims"] = 3
        disk = DiskFile(ctx, "Fr", 3, canonical=True)
        pw, Fw = sym_path(ctx, "Fw", exists=False)
        ctx.assume(Fw != disk.F)
        nk, K, keep = selection(ctx, "keep", disk.nc)
        ncomp = z3.Int("ncomp") if self.multi else 1
        if self.multi:
            ctx.assume(ncomp >= 1)
        RF = z3.Function("RECIPE", I, I, I, I, I, R_)     # (box data position, i, j, k, component)
        OUT = z3.Function("OUTPOS", I, I)
        ctx.assume(OUT(0) == 0)
        fields = {"a": 0}
        calls = []

        def recipe(ex_, args, kw):
            fi, arr = args[0], args[1]
            calls.append((fi is fields, arr))
            # the data handed to the recipe is the box at hand: its identity is the FAB's data position
            pos = getattr(arr, "fab_data0", None)
            if pos is None:
                src = getattr(arr, "reshaped_from", None)
                pos = src[0].from_file[1] if src and getattr(src[0], "from_file", None) else None
            if pos is None:
                raise Unsupported("recipe called on something else than the box array read from the file")
            shape3 = list(arr.shape[:3])
            if self.multi:
                return NDArray(shape3 + [ncomp], lambda ix: RF(to_z3(pos), *[to_z3(i) for i in ix]))
            return NDArray(shape3, lambda ix: RF(to_z3(pos), *[to_z3(i) for i in ix], z3.IntVal(0)))
        recipe._pyvc_builtin = True

        def alldata(j):
            fb = disk.fab(j)
            return NDArray(list(fb.shape) + [nk + ncomp],
                           lambda ix: zite(to_z3(ix[-1]) < nk, fb.value(ix[:-1], K(to_z3(ix[-1]))),
                                           RF(to_z3(fb.data0), *[to_z3(i) for i in ix[:-1]], to_z3(ix[-1]) - nk)))

        def facts(j):
            j = to_z3(j)
            fb = disk.fab(j)
            return z3.And(disk.facts(j), z3.Implies(z3.And(j >= 0, j < disk.m),
                          OUT(j + 1) == OUT(j) + hdrlen(fb.lo, fb.hi, nk + ncomp) + 8 * size_of(ctx, list(fb.shape) + [nk + ncomp])))

        def rec(j):
            fb = disk.fab(j)
            return [("hdr", (tuple(fb.lo), tuple(fb.hi), nk + ncomp), None), ("ser", alldata(j), "F")]

        def red(kind):
            def row(j):
                ad = alldata(j)
                fb = disk.fab(j)
                cache = {}

                def el(ix):
                    key = str(ix[0])
                    if key not in cache:
                        cache[key] = reduce_const(ex, kind, list(fb.shape), lambda r, c=ix[0]: ad.elem(tuple(r) + (c,)))
                    return cache[key]
                return NDArray([nk + ncomp], el)
            return row

        def wtemplate(k):
            wf = WFile(pw, Fw)
            wf.nrec, wf.rec, wf.recstart, wf.rec_size = k, rec, (lambda j: OUT(to_z3(j))), 2
            wf.pos = OUT(to_z3(k))
            return wf

        def template(ex_, fr, k, entry):
            k3 = to_z3(k)
            br = RFile(disk.path, disk.F)
            br.pos = disk.P(k3)
            return {"offsets": SymSeq(k, lambda j: OUT(to_z3(j))), "mins": SymSeq(k, red("min")), "maxs": SymSeq(k, red("max")),
                    "bfr": br, "bfw": wtemplate(k),
                    "__assume__": [z3.And(k3 >= 0, k3 <= disk.m), facts(k3)], "__assert__": [("in-range", k3 <= disk.m)]}
        self.loopspecs = {(self.qual, 0): LoopSpec(template)}
        args = {"recipe": recipe, "bfpath": disk.path, "newbfpath": pw, "field_indexes": fields, "ids_keep": keep,
                "sp_indexes": [], "rx_indexes": [], "sp_start": None, "sp_end": None, "id_temp": None, "idx_O2": None}
        return {"args": [args], "m": disk.m, "OUT": OUT, "wtemplate": wtemplate, "Fw": Fw, "red": red, "calls": calls,
                "nk": nk, "ncomp": ncomp}

    def post(self, ex, inp, out):
        ctx = ex.ctx
        ctx.oblige("raises-nothing", out.kind == "ret", "P", note=str(out.exc) if out.kind != "ret" else "")
        if out.kind != "ret":
            return
        m, OUT = inp["m"], inp["OUT"]
        v = out.value
        ok = isinstance(v, tuple) and len(v) == 3
        ctx.oblige("post.returns-triple", ok, "P")
        if not ok:
            return
        ctx.oblige("post.offsets", veq(ctx, v[0], SymSeq(m, lambda j: OUT(to_z3(j)))), "P")
        for which, val in (("min", v[1]), ("max", v[2])):
            row = inp["red"](which)
            exp = NDArray([m, inp["nk"] + inp["ncomp"]], lambda ix: row(ix[0]).elem((ix[1],)))
            okv = isinstance(val, NDArray) and val.ndim == 2
            ctx.oblige(f"post.{which}s-are-extrema-of-the-written-array", veq(ctx, val, exp) if okv else False, "P")
        wfs = ctx.ghost.get("wfiles", [])
        ctx.oblige("frame.writes-only-output", len(wfs) == 1 and wfs[0].F is inp["Fw"], "P")
        if len(wfs) == 1:
            exp = inp["wtemplate"](m)
            exp.closed = True
            ctx.oblige("post.output-file-content", veq(ctx, wfs[0], exp), "P")
        ctx.oblige("post.recipe-gets-field-indexes", all(c[0] for c in inp["calls"]), "P")


def chef_tasks(prop, tier="quick"):
    out = [UserPfileKnife(False), UserPfileKnife(True)] + init_tasks(tier)
    for t in out:
        t.prop = prop
    return out


def chef_canaries():
    f = "amr_kitchen/chef/chef.py"
    return [("user knife: minima taken on the new data only",
             [(f, "                min_values = np.min(alldata, axis=(0, 1, 2))\n                max_values = np.max(alldata, axis=(0, 1, 2))\n                mins.append(min_values)\n                maxs.append(max_values)\n                bfw.write(alldata.flatten(order=\"F\").tobytes())\n\n    return offsets, np.array(mins), np.array(maxs)\n\nclass Chef",
               "                min_values = np.min(newdata, axis=(0, 1, 2))\n                max_values = np.max(alldata, axis=(0, 1, 2))\n                mins.append(min_values)\n                maxs.append(max_values)\n                bfw.write(alldata.flatten(order=\"F\").tobytes())\n\n    return offsets, np.array(mins), np.array(maxs)\n\nclass Chef")],
             ["chefs_knife_user_pfile[n components]"])] + init_canaries()


# ---------------------------------------------------------------------------------------------------------------------
# Chef.__init__: the names written in the headers are in the order the workers write the components


class KeptNames(FragmentTask):
    """The statements of Chef.__init__ that prepend the kept fields' names to the recipe's output names: with ids_keep the
    component indices the workers copy first (in that order, repetitions included), outfields[t] is the name of input
    component ids_keep[t] for every t, followed by the recipe's names unchanged - 'every component is stored under its own
    name'.  (Real code on bounded skeletons: field count and the kept list are concrete.)"""
    prop = "C11"
    reach = "S"
    qual = CF + "Chef.__init__"
    first = staticmethod(FragmentTask.assigns("kept_names"))
    last = staticmethod(FragmentTask.assigns("outfields"))
    unordered = True

    def __init__(self, nf, ids_keep, nnew):
        self.nf, self.ids, self.nnew = nf, list(ids_keep), nnew
        self.name = f"Chef.__init__.kept-names[nf={nf},keep={self.ids},new={nnew}]"

    def setup(self, ex):
        names = [f"field{k}" for k in range(self.nf)]
        new = [f"derived{k}" for k in range(self.nnew)]
        self_ = Record(CF + "Chef", fields={n: k for k, n in enumerate(names)}, ids_keep=list(self.ids), outfields=list(new))
        return {"frame": {"self": self_}, "self_": self_, "names": names, "new": new}

    def post(self, ex, inp, out):
        ctx = ex.ctx
        ctx.oblige("raises-nothing", out.kind == "ret", "P", note=str(out.exc) if out.kind != "ret" else "")
        if out.kind != "ret":
            return
        of = inp["self_"].attrs.get("outfields")
        exp = [inp["names"][k] for k in self.ids] + inp["new"]
        ctx.oblige("post.names-follow-the-order-the-components-are-written", isinstance(of, list) and list(of) == exp, "P",
                   note=f"{of} vs {exp}")
        ctx.oblige("frame.ids_keep-unchanged", inp["self_"].attrs.get("ids_keep") == self.ids, "P")


def init_tasks(tier):
    out = [KeptNames(3, [2, 0], 1), KeptNames(3, [1, 1], 2), KeptNames(2, [], 1), KeptNames(4, [3, 1, 2], 1)]
    return out


def init_canaries():
    f = "amr_kitchen/chef/chef.py"
    return [("Chef.__init__: kept names listed in plotfile order",
             [(f, "        kept_names = [list(self.fields.keys())[fid] for fid in self.ids_keep]",
               "        kept_names = [name for name, fid in self.fields.items() if fid in self.ids_keep]")],
             ["Chef.__init__.kept-names[nf=3,keep=[2, 0],new=1]"])]
