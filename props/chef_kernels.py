"""chef workers under contract (C11)."""
import z3
from pyvc.vals import *  # noqa
from pyvc.task import Task, FragmentTask
from pyvc.vc import veq
from pyvc.loops import LoopSpec
from pyvc.libfile import RFile, WFile, hdrlen
from pyvc.libnp import reduce_const
from contracts.common import sym_path, size_of
from contracts.ondisk import DiskFile
from props.combine_kernels import selection

CF = "amr_kitchen.chef.chef."

CH = "amr_kitchen.chef.chef."
I = z3.IntSort()
R_ = z3.RealSort()


class UserPfileKnife(Task):
    """chefs_knife_user_pfile: for every FAB of an OnDisk file, in disk order: hdrline(range, nkept+ncomps) followed by the F
    order bytes of [kept components (bit-identical), recipe(field_indexes, box)] ; returned offsets are the header
    positions and mins/maxs are MIN/MAX over exactly the array that is written.  The recipe is an uninterpreted
    deterministic function of the box data."""
    prop = "C11"
    reach = "U"
    qual = CH + "chefs_knife_user_pfile"

    def __init__(self, multi):
        self.multi = multi
        self.name = f"chefs_knife_user_pfile[{'n components' if multi else '1 component'}]"

    def setup(self, ex):
        ctx = ex.ctx
        ctx.ghost["ndims"] = 3
        disk = DiskFile(ctx, "Fr", 3, canonical=True)
        pw, Fw = sym_path(ctx, "Fw", exists=False)
        ctx.assume(Fw != disk.F)
        nk, K, keep = selection(ctx, "keep", disk.nc)
        ncomp = z3.Int("ncomp") if self.multi else 1
        if self.multi:
            ctx.assume(ncomp >= 1)
        RF = z3.Function("RECIPE", I, I, I, I, I, R_)     # (box data position, i, j, k, component)
        OUT = z3.Function("OUTPOS", I, I)
        ctx.assume(OUT(0) == 0)
        fields = {"a": 0}
        calls = []

        def recipe(ex_, args, kw):
            fi, arr = args[0], args[1]
            calls.append((fi is fields, arr))
            # the data handed to the recipe is the box at hand: its identity is the FAB's data position
            pos = getattr(arr, "fab_data0", None)
            if pos is None:
                src = getattr(arr, "reshaped_from", None)
                pos = src[0].from_file[1] if src and getattr(src[0], "from_file", None) else None
            if pos is None:
                raise Unsupported("recipe called on something else than the box array read from the file")
            shape3 = list(arr.shape[:3])
            if self.multi:
                return NDArray(shape3 + [ncomp], lambda ix: RF(to_z3(pos), *[to_z3(i) for i in ix]))
            return NDArray(shape3, lambda ix: RF(to_z3(pos), *[to_z3(i) for i in ix], z3.IntVal(0)))
        recipe._pyvc_builtin = True

        def alldata(j):
            fb = disk.fab(j)
            return NDArray(list(fb.shape) + [nk + ncomp],
                           lambda ix: zite(to_z3(ix[-1]) < nk, fb.value(ix[:-1], K(to_z3(ix[-1]))),
                                           RF(to_z3(fb.data0), *[to_z3(i) for i in ix[:-1]], to_z3(ix[-1]) - nk)))

        def facts(j):
            j = to_z3(j)
            fb = disk.fab(j)
            return z3.And(disk.facts(j), z3.Implies(z3.And(j >= 0, j < disk.m),
                          OUT(j + 1) == OUT(j) + hdrlen(fb.lo, fb.hi, nk + ncomp) + 8 * size_of(ctx, list(fb.shape) + [nk + ncomp])))

        def rec(j):
            fb = disk.fab(j)
            return [("hdr", (tuple(fb.lo), tuple(fb.hi), nk + ncomp), None), ("ser", alldata(j), "F")]

        def red(kind):
            def row(j):
                ad = alldata(j)
                fb = disk.fab(j)
                cache = {}

                def el(ix):
                    key = str(ix[0])
                    if key not in cache:
                        cache[key] = reduce_const(ex, kind, list(fb.shape), lambda r, c=ix[0]: ad.elem(tuple(r) + (c,)))
                    return cache[key]
                return NDArray([nk + ncomp], el)
            return row

        def wtemplate(k):
            wf = WFile(pw, Fw)
            wf.nrec, wf.rec, wf.recstart, wf.rec_size = k, rec, (lambda j: OUT(to_z3(j))), 2
            wf.pos = OUT(to_z3(k))
            return wf

        def template(ex_, fr, k, entry):
            k3 = to_z3(k)
            br = RFile(disk.path, disk.F)
            br.pos = disk.P(k3)
            return {"offsets": SymSeq(k, lambda j: OUT(to_z3(j))), "mins": SymSeq(k, red("min")), "maxs": SymSeq(k, red("max")),
                    "bfr": br, "bfw": wtemplate(k),
                    "__assume__": [z3.And(k3 >= 0, k3 <= disk.m), facts(k3)], "__assert__": [("in-range", k3 <= disk.m)]}
        self.loopspecs = {(self.qual, 0): LoopSpec(template)}
        args = {"recipe": recipe, "bfpath": disk.path, "newbfpath": pw, "field_indexes": fields, "ids_keep": keep,
                "sp_indexes": [], "rx_indexes": [], "sp_start": None, "sp_end": None, "id_temp": None, "idx_O2": None}
        return {"args": [args], "m": disk.m, "OUT": OUT, "wtemplate": wtemplate, "Fw": Fw, "red": red, "calls": calls,
                "nk": nk, "ncomp": ncomp}

    def post(self, ex, inp, out):
        ctx = ex.ctx
        ctx.oblige("raises-nothing", out.kind == "ret", "P", note=str(out.exc) if out.kind != "ret" else "")
        if out.kind != "ret":
            return
        m, OUT = inp["m"], inp["OUT"]
        v = out.value
        ok = isinstance(v, tuple) and len(v) == 3
        ctx.structure("post.returns-triple", ok)
        if not ok:
            return
        ctx.oblige("post.offsets", veq(ctx, v[0], SymSeq(m, lambda j: OUT(to_z3(j)))), "P")
        for which, val in (("min", v[1]), ("max", v[2])):
            row = inp["red"](which)
            exp = NDArray([m, inp["nk"] + inp["ncomp"]], lambda ix: row(ix[0]).elem((ix[1],)))
            okv = isinstance(val, NDArray) and val.ndim == 2
            ctx.oblige(f"post.{which}s-are-extrema-of-the-written-array", veq(ctx, val, exp) if okv else False, "P")
        wfs = ctx.ghost.get("wfiles", [])
        ctx.oblige("frame.writes-only-output", len(wfs) == 1 and wfs[0].F is inp["Fw"], "P")
        if len(wfs) == 1:
            exp = inp["wtemplate"](m)
            exp.closed = True
            ctx.oblige("post.output-file-content", veq(ctx, wfs[0], exp), "P")
        ctx.oblige("post.recipe-gets-field-indexes", all(c[0] for c in inp["calls"]), "P")


class Table:
    """module-level table indexed by the box shape (SARRAYS / PRESSURES): entry = an object that knows its shape"""

    def __init__(self, cls):
        self.cls = cls

    def getitem(self, ex, key):
        return Record(self.cls, shape=[to_z3(k) for k in ex.as_iterable(key)])


class CanteraKnife(Task):
    """The four workers that go through a Cantera SolutionArray (single field, by species, by reaction, user recipe with a
    solution array).  Contract of the Cantera side (ASSUMED, opaque): after `s.TPY = T, P, Y` an attribute of s is a
    deterministic array of the box (uninterpreted THERMO(box, i, j, k, column)); obligations AT that read: s and P are the
    table entries of the box's own shape, T is the box's temperature with |T| <= 1e-8 replaced by 1, Y the box's mass
    fractions with Y(O2) = 1 where they sum to ~0 -- copies, the box array itself untouched.  Output as for the user
    recipe worker: hdrline(range, nkept + nnew) then the F-order bytes of [kept (bit-identical), new columns]."""
    prop = "C11"
    reach = "U"

    def __init__(self, kind):
        self.kind = kind
        fn = {"single": "chefs_knife_single_field", "byspecies": "chefs_knife_byspecies_field",
              "byreaction": "chefs_knife_byreaction_field", "user1": "chefs_knife_user_sarray", "usern": "chefs_knife_user_sarray"}[kind]
        self.qual = CH + fn
        self.name = fn + {"user1": "[1 component]", "usern": "[n components]"}.get(kind, "")

    def setup(self, ex):
        ctx = ex.ctx
        kind = self.kind
        ctx.ghost["ndims"] = 3
        disk = DiskFile(ctx, "Fr", 3, canonical=True)
        pw, Fw = sym_path(ctx, "Fw", exists=False)
        ctx.assume(Fw != disk.F)
        nk, K, keep = selection(ctx, "keep", disk.nc)
        # where the thermodynamic state sits in a box (established by Chef.__init__)
        s0, s1, it, io2 = z3.Int("sp_start"), z3.Int("sp_end"), z3.Int("id_temp"), z3.Int("idx_O2")
        ctx.assume(z3.And(s0 >= 0, s0 < s1, s1 <= disk.nc, it >= 0, it < disk.nc, io2 >= 0, io2 < s1 - s0))
        NCOL = z3.Int("ncols")        # columns of the Cantera attribute (species / reactions of the mechanism)
        ctx.assume(NCOL >= 1)
        nsel, SEL, sel = selection(ctx, "cols", NCOL)
        if kind in ("byspecies", "byreaction"):
            ctx.assume(nsel >= 1)
        ncomp = {"single": 1, "byspecies": nsel, "byreaction": nsel, "user1": 1, "usern": z3.Int("ncomp")}[kind]
        if kind == "usern":
            ctx.assume(ncomp >= 1)
        RF = z3.Function("THERMO", I, I, I, I, I, R_)     # (box data position, i, j, k, column)
        OUT = z3.Function("OUTPOS", I, I)
        ctx.assume(OUT(0) == 0)
        fields = {"a": 0}
        calls = []
        cur = {}
        ex.globals_model[(CH[:-1], "SARRAYS")] = Table("SolutionArray")
        ex.globals_model[(CH[:-1], "PRESSURES")] = Table("Pressure")

        def col(c):
            c = to_z3(c)
            return {"single": z3.IntVal(0), "byspecies": SEL(c), "byreaction": SEL(c)}.get(kind, c)

        def close0(x):
            x = to_real(x)
            return z3.If(x >= 0, x, -x) <= to_real(1e-8)      # the double nearest to 1e-8, as numpy compares

        def state_checks(sarray):
            """the obligations at the point where Cantera is asked for the new data"""
            k = cur["k"]
            fb = disk.fab(k)
            tpy = sarray.attrs.get("TPY")
            ok = isinstance(tpy, tuple) and len(tpy) == 3
            ctx.oblige("call.state-set-before-read", ok, "P")
            if not ok:
                return
            T, P, Y = tpy
            shp = list(fb.shape)
            ctx.oblige("call.solution-array-of-the-box-shape", veq(ctx, list(sarray.attrs.get("shape", [])), shp), "P")
            ctx.oblige("call.pressure-of-the-box-shape",
                       veq(ctx, list(P.attrs.get("shape", [])), shp) if isinstance(P, Record) and P.cls == "Pressure" else False, "P")
            expT = NDArray(shp, lambda ix: z3.If(close0(fb.value(ix, it)), z3.RealVal(1), to_real(fb.value(ix, it))))
            ctx.oblige("call.T-is-the-box-temperature-cleaned", veq(ctx, T, expT) if isinstance(T, NDArray) else False, "P")
            nsp = s1 - s0
            sums = {}

            def ysum(ix3):
                key = tuple(str(i) for i in ix3)
                if key not in sums:
                    sums[key] = reduce_const(ex, "sum", [nsp], lambda r, ix3=ix3: fb.value(ix3, s0 + to_z3(r[0])))
                return sums[key]
            expY = NDArray(shp + [nsp], lambda ix: z3.If(z3.And(to_z3(ix[3]) == io2, close0(ysum(tuple(ix[:3])))), z3.RealVal(1),
                                                          to_real(fb.value(ix[:3], s0 + to_z3(ix[3])))))
            ctx.oblige("call.Y-are-the-box-mass-fractions-cleaned", veq(ctx, Y, expY) if isinstance(Y, NDArray) else False, "P")

        def thermo_attr(ex_, self_, args, kw):
            name = args[0]
            calls.append(("attr", name))
            state_checks(self_)
            fb = disk.fab(cur["k"])
            shp = list(fb.shape)
            if kind == "single":
                return NDArray(shp, lambda ix: RF(to_z3(fb.data0), *[to_z3(i) for i in ix], z3.IntVal(0)))
            return NDArray(shp + [NCOL], lambda ix: RF(to_z3(fb.data0), *[to_z3(i) for i in ix]))
        from pyvc.exec import METHODS
        METHODS[("Record:SolutionArray", "__getattribute__")] = thermo_attr

        def recipe(ex_, args, kw):
            fi, arr = args[0], args[1]
            calls.append(("user", fi is fields, len(args)))
            if len(args) != 3 or not isinstance(args[2], Record):
                raise SymRaise("TypeError", "recipe() takes 3 positional arguments")
            state_checks(args[2])
            fb = disk.fab(cur["k"])
            ctx.oblige("call.recipe-gets-the-box-array", veq(ctx, arr, NDArray(list(fb.shape) + [disk.nc], lambda ix: fb.value(ix[:3], ix[3])))
                       if isinstance(arr, NDArray) else False, "P")
            shp = list(fb.shape)
            if kind == "usern":
                return NDArray(shp + [ncomp], lambda ix: RF(to_z3(fb.data0), *[to_z3(i) for i in ix]))
            return NDArray(shp, lambda ix: RF(to_z3(fb.data0), *[to_z3(i) for i in ix], z3.IntVal(0)))
        recipe._pyvc_builtin = True

        def alldata(j):
            fb = disk.fab(j)
            return NDArray(list(fb.shape) + [nk + ncomp],
                           lambda ix: zite(to_z3(ix[-1]) < nk, fb.value(ix[:-1], K(to_z3(ix[-1]))),
                                           RF(to_z3(fb.data0), *[to_z3(i) for i in ix[:-1]], col(to_z3(ix[-1]) - nk))))

        def facts(j):
            j = to_z3(j)
            fb = disk.fab(j)
            return z3.And(disk.facts(j), z3.Implies(z3.And(j >= 0, j < disk.m),
                          OUT(j + 1) == OUT(j) + hdrlen(fb.lo, fb.hi, nk + ncomp) + 8 * size_of(ctx, list(fb.shape) + [nk + ncomp])))

        def rec(j):
            fb = disk.fab(j)
            return [("hdr", (tuple(fb.lo), tuple(fb.hi), nk + ncomp), None), ("ser", alldata(j), "F")]

        def red(which):
            def row(j):
                ad = alldata(j)
                fb = disk.fab(j)
                cache = {}

                def el(ix):
                    key = str(ix[0])
                    if key not in cache:
                        cache[key] = reduce_const(ex, which, list(fb.shape), lambda r, c=ix[0]: ad.elem(tuple(r) + (c,)))
                    return cache[key]
                return NDArray([nk + ncomp], el)
            return row

        def wtemplate(k):
            wf = WFile(pw, Fw)
            wf.nrec, wf.rec, wf.recstart, wf.rec_size = k, rec, (lambda j: OUT(to_z3(j))), 2
            wf.pos = OUT(to_z3(k))
            return wf

        def template(ex_, fr, k, entry):
            k3 = to_z3(k)
            cur["k"] = k3
            br = RFile(disk.path, disk.F)
            br.pos = disk.P(k3)
            return {"offsets": SymSeq(k, lambda j: OUT(to_z3(j))), "mins": SymSeq(k, red("min")), "maxs": SymSeq(k, red("max")),
                    "bfr": br, "bfw": wtemplate(k),
                    "__assume__": [z3.And(k3 >= 0, k3 <= disk.m), facts(k3)], "__assert__": [("in-range", k3 <= disk.m)]}
        self.loopspecs = {(self.qual, 0): LoopSpec(template)}
        args = {"recipe": recipe if kind.startswith("user") else "some_thermo_attribute", "bfpath": disk.path, "newbfpath": pw,
                "field_indexes": fields, "ids_keep": keep,
                "sp_indexes": sel if kind == "byspecies" else [], "rx_indexes": sel if kind == "byreaction" else [],
                "sp_start": s0, "sp_end": s1, "id_temp": it, "idx_O2": io2}
        return {"args": [args], "m": disk.m, "OUT": OUT, "wtemplate": wtemplate, "Fw": Fw, "red": red, "calls": calls,
                "nk": nk, "ncomp": ncomp}

    def post(self, ex, inp, out):
        ctx = ex.ctx
        ctx.oblige("raises-nothing", out.kind == "ret", "P", note=str(out.exc) if out.kind != "ret" else "")
        if out.kind != "ret":
            return
        m, OUT = inp["m"], inp["OUT"]
        v = out.value
        ok = isinstance(v, tuple) and len(v) == 3
        ctx.structure("post.returns-triple", ok)
        if not ok:
            return
        ctx.oblige("post.offsets", veq(ctx, v[0], SymSeq(m, lambda j: OUT(to_z3(j)))), "P")
        for which, val in (("min", v[1]), ("max", v[2])):
            row = inp["red"](which)
            if self.kind == "byspecies":
                # (this worker hands its rows back inside one more pair of brackets; Chef.cook indexes it away)
                exp = NDArray([1, m, inp["nk"] + inp["ncomp"]], lambda ix: row(ix[1]).elem((ix[2],)))
            else:
                exp = NDArray([m, inp["nk"] + inp["ncomp"]], lambda ix: row(ix[0]).elem((ix[1],)))
            okv = isinstance(val, NDArray) and val.ndim == exp.ndim
            ctx.oblige(f"post.{which}s-are-extrema-of-the-written-array", veq(ctx, val, exp) if okv else False, "P")
        wfs = ctx.ghost.get("wfiles", [])
        ctx.oblige("frame.writes-only-output", len(wfs) == 1 and wfs[0].F is inp["Fw"], "P")
        if len(wfs) == 1:
            exp = inp["wtemplate"](m)
            exp.closed = True
            ctx.oblige("post.output-file-content", veq(ctx, wfs[0], exp), "P")
        if self.kind.startswith("user"):
            ctx.oblige("post.recipe-gets-field-indexes", all(c[1] for c in inp["calls"] if c[0] == "user"), "P")


def chef_tasks(prop, tier="quick"):
    out = [UserPfileKnife(False), UserPfileKnife(True)] + [CanteraKnife(k) for k in ("single", "byspecies", "byreaction", "user1", "usern")] + \
        init_tasks(tier) + cook_tasks(tier)
    for t in out:
        t.prop = prop
    return out


def chef_canaries():
    f = "amr_kitchen/chef/chef.py"
    return [("user knife: minima taken on the new data only",
             [(f, "                min_values = np.min(alldata, axis=(0, 1, 2))\n                max_values = np.max(alldata, axis=(0, 1, 2))\n                mins.append(min_values)\n                maxs.append(max_values)\n                bfw.write(alldata.flatten(order=\"F\").tobytes())\n\n    return offsets, np.array(mins), np.array(maxs)\n\nclass Chef",
               "                min_values = np.min(newdata, axis=(0, 1, 2))\n                max_values = np.max(alldata, axis=(0, 1, 2))\n                mins.append(min_values)\n                maxs.append(max_values)\n                bfw.write(alldata.flatten(order=\"F\").tobytes())\n\n    return offsets, np.array(mins), np.array(maxs)\n\nclass Chef")],
             ["chefs_knife_user_pfile[n components]"]),
            ("thermo knives: the state is cleaned in the box array itself (no copy)",
             [(f, "T = arr[:, :, :, args['id_temp']].copy()", "T = arr[:, :, :, args['id_temp']]")],
             ["chefs_knife_single_field"]),
            ("by-species knife: columns picked with the kept-field indices",
             [(f, "newdata = newdata[:, :, :, args['sp_indexes']]", "newdata = newdata[:, :, :, args['ids_keep']]")],
             ["chefs_knife_byspecies_field"]),
            ("thermo knives: empty mass fractions are not repaired",
             [(f, "Y[np.isclose(np.sum(Y, axis=3), 0), args['idx_O2']] = 1.0", "Y[np.isclose(np.sum(Y, axis=3), 1), args['idx_O2']] = 1.0")],
             ["chefs_knife_single_field"])] + init_canaries() + cook_canaries()


# ---------------------------------------------------------------------------------------------------------------------
# Chef.__init__: the names written in the headers are in the order the workers write the components


class KeptNames(FragmentTask):
    """The statements of Chef.__init__ that prepend the kept fields' names to the recipe's output names: with ids_keep the
    component indices the workers copy first (in that order, repetitions included), outfields[t] is the name of input
    component ids_keep[t] for every t, followed by the recipe's names unchanged - 'every component is stored under its own
    name'.  (Real code on bounded skeletons: field count and the kept list are concrete.)"""
    prop = "C11"
    reach = "S"
    qual = CF + "Chef.__init__"
    first = staticmethod(FragmentTask.assigns("kept_names"))
    last = staticmethod(FragmentTask.assigns("outfields"))
    unordered = True

    def __init__(self, nf, ids_keep, nnew):
        self.nf, self.ids, self.nnew = nf, list(ids_keep), nnew
        self.name = f"Chef.__init__.kept-names[nf={nf},keep={self.ids},new={nnew}]"

    def setup(self, ex):
        names = [f"field{k}" for k in range(self.nf)]
        new = [f"derived{k}" for k in range(self.nnew)]
        self_ = Record(CF + "Chef", fields={n: k for k, n in enumerate(names)}, ids_keep=list(self.ids), outfields=list(new))
        return {"frame": {"self": self_}, "self_": self_, "names": names, "new": new}

    def post(self, ex, inp, out):
        ctx = ex.ctx
        ctx.oblige("raises-nothing", out.kind == "ret", "P", note=str(out.exc) if out.kind != "ret" else "")
        if out.kind != "ret":
            return
        of = inp["self_"].attrs.get("outfields")
        exp = [inp["names"][k] for k in self.ids] + inp["new"]
        ctx.oblige("post.names-follow-the-order-the-components-are-written", isinstance(of, list) and list(of) == exp, "P",
                   note=f"{of} vs {exp}")
        ctx.oblige("frame.ids_keep-unchanged", inp["self_"].attrs.get("ids_keep") == self.ids, "P")


class KeptIds(FragmentTask):
    """The statements of Chef.__init__ that turn the kept_fields string into component indices (real code, bounded
    skeletons): ids_keep lists the index of every requested name that is a field of the plotfile, in the requested order -
    component 0 included, unknown names skipped, None keeps nothing."""
    prop = "C11"
    reach = "S"
    qual = CF + "Chef.__init__"
    first = staticmethod(FragmentTask.assigns("ids_keep"))

    @staticmethod
    def last(s):
        import ast
        return isinstance(s, ast.If) and "kept_fields" in ast.unparse(s.test)

    def __init__(self, names, kept):
        self.names, self.kept = list(names), kept
        self.name = f"Chef.__init__.kept-ids[fields={','.join(names)};kept={kept!r}]"

    def setup(self, ex):
        self_ = Record(CF + "Chef", fields={n: k for k, n in enumerate(self.names)})
        return {"frame": {"self": self_, "kept_fields": self.kept}, "self_": self_}

    def post(self, ex, inp, out):
        ctx = ex.ctx
        ctx.oblige("raises-nothing", out.kind == "ret", "P", note=str(out.exc) if out.kind != "ret" else "")
        if out.kind != "ret":
            return
        exp = [self.names.index(n) for n in (self.kept.split() if self.kept is not None else []) if n in self.names]
        got = inp["self_"].attrs.get("ids_keep")
        ctx.oblige("post.indices-of-the-requested-fields-in-requested-order", isinstance(got, list) and list(got) == exp, "P",
                   note=f"{got} vs {exp}")


class SarrayInput(Task):
    """Chef.sarray_input (real code, bounded skeletons: concrete field names and mechanism species): accepted only when temp
    and every Y(species) are fields and the species sit contiguously in mechanism order; then [species_start, species_end)
    is exactly that run (the workers' precondition 0 <= sp_start < sp_end <= ncomp) and the pressure is pressure*one_atm.
    Cantera's Solution is a stub holding the species names."""
    prop = "C11"
    reach = "S"
    qual = CF + "Chef.sarray_input"

    def __init__(self, fields, species, pressure=2.0):
        self.fields, self.species, self.pressure = list(fields), list(species), pressure
        self.name = f"Chef.sarray_input[fields={','.join(fields)};species={','.join(species)};P={pressure}]"

    def setup(self, ex):
        from pyvc.exec import LIBS, METHODS, Const
        species = [Record("Species", name=n) for n in self.species]
        gas = Record("Gas", species_list=species)
        LIBS[("cantera", "Solution")] = lambda ex_, a, k: (a[0], gas)[1]            # whatever the mechanism file: the stub gas
        LIBS[("cantera", "one_atm")] = Const(101325.0)
        METHODS[("Record:Gas", "species")] = lambda ex_, self_, a, k: list(self_.attrs["species_list"])
        self_ = Record(CF + "Chef", fields={n: k for k, n in enumerate(self.fields)})
        return {"self": self_, "args": ["mech.yaml", self.pressure], "gas": gas}

    def post(self, ex, inp, out):
        ctx = ex.ctx
        f, sp = self.fields, self.species
        want = [f"Y({n})" for n in sp]
        start = f.index(want[0]) if want and want[0] in f else None
        honourable = "temp" in f and self.pressure is not None and start is not None and f[start:start + len(sp)] == want
        if not honourable:
            ctx.oblige("post.refused", out.kind == "exc", "P", note="a plotfile without the contiguous mechanism species / temp / pressure is accepted")
            return
        ctx.oblige("raises-nothing", out.kind == "ret", "P", note=str(out.exc) if out.kind != "ret" else "")
        if out.kind != "ret":
            return
        v = out.value
        ok = isinstance(v, tuple) and len(v) == 4
        ctx.structure("post.returns-gas-pressure-start-end", ok)
        if not ok:
            return
        ctx.oblige("post.gas", v[0] is inp["gas"], "P")
        ctx.oblige("post.pressure-in-pascal", veq(ctx, v[1], self.pressure * 101325.0), "P")
        ctx.oblige("post.species-run", veq(ctx, v[2], start) and veq(ctx, v[3], start + len(sp)), "P", note=f"{v[2]}, {v[3]}")
        ctx.oblige("post.worker-precondition", 0 <= start < start + len(sp) <= len(f), "P")


class ThermoIndices(FragmentTask):
    """The `if self.requires_sol:` block closing Chef.__init__ (real code, bounded skeletons): the worker arguments it
    prepares - id_temp is the temperature component, idx_O2 the mechanism index of O2 (inside the species run handed back
    by sarray_input), sp_indexes the mechanism indices of the requested species in the requested order (the order of the
    output names), and the per-shape tables are built once.  sarray_input / set_global_sarrays by contract."""
    prop = "C11"
    reach = "S"
    qual = CF + "Chef.__init__"
    unordered = True

    @staticmethod
    def _anchor(s):
        import ast
        return isinstance(s, ast.If) and any(FragmentTask.assigns("idx_O2")(x) for x in ast.walk(s))
    first = _anchor
    last = _anchor

    def __init__(self, fields, mech_species, recipe, species):
        self.fields, self.msp, self.recipe, self.species = list(fields), list(mech_species), recipe, species
        self.name = f"Chef.__init__.thermo-indices[{','.join(fields)};mech={','.join(mech_species)};{recipe};species={species}]"

    def setup(self, ex):
        from pyvc.exec import METHODS
        msp = self.msp
        gas = Record("Gas")

        def species_index(ex_, self_, a, k):
            if a[0] not in msp:
                raise SymRaise("ValueError", f"No such species {a[0]}")
            return msp.index(a[0])
        METHODS[("Record:Gas", "species_index")] = species_index
        calls = []
        s0 = self.fields.index(f"Y({msp[0]})")

        def sarray_input(ex_, args, kw):
            calls.append(("sarray_input", list(args)))
            return (gas, 101325.0, s0, s0 + len(msp))

        def set_tables(ex_, args, kw):
            calls.append(("set_global_sarrays", list(args)))
            return None
        self.contracts = {CF + "Chef.sarray_input": sarray_input, CF + "Chef.set_global_sarrays": set_tables}
        self_ = Record(CF + "Chef", requires_sol=True, fields={n: k for k, n in enumerate(self.fields)}, sp_indexes=[], rx_indexes=[])
        return {"frame": {"self": self_, "mech": "mech.yaml", "pressure": 1.0, "recipe": self.recipe,
                          "species": None if self.species is None else list(self.species)},
                "self_": self_, "calls": calls, "gas": gas, "s0": s0}

    def post(self, ex, inp, out):
        ctx = ex.ctx
        msp = self.msp
        honourable = "O2" in msp and (self.species is None or self.recipe == "user" or all(sp in msp for sp in self.species))
        if not honourable:
            ctx.oblige("post.refused", out.kind == "exc", "P")
            return
        ctx.oblige("raises-nothing", out.kind == "ret", "P", note=str(out.exc) if out.kind != "ret" else "")
        if out.kind != "ret":
            return
        a = inp["self_"].attrs
        ctx.oblige("post.state-tables-built-once-after-the-solution", [c[0] for c in inp["calls"]] == ["sarray_input", "set_global_sarrays"], "P")
        ctx.oblige("post.sarray_input-gets-mechanism-and-pressure", inp["calls"] and inp["calls"][0][1][-2:] == ["mech.yaml", 1.0], "P")
        ctx.oblige("post.species-run", a.get("sp_start") == inp["s0"] and a.get("sp_end") == inp["s0"] + len(msp) and a.get("gas") is inp["gas"], "P")
        ctx.oblige("post.id_temp-is-the-temperature-component", a.get("id_temp") == self.fields.index("temp"), "P")
        ctx.oblige("post.idx_O2-inside-the-species-run", a.get("idx_O2") == msp.index("O2") and 0 <= msp.index("O2") < len(msp), "P")
        exp = [msp.index(sp) for sp in self.species] if (self.species is not None and self.recipe != "user") else []
        ctx.oblige("post.species-columns-in-requested-order", list(a.get("sp_indexes")) == exp, "P", note=f"{a.get('sp_indexes')} vs {exp}")


class RecipeDispatch(FragmentTask):
    """The recipe dispatch of Chef.__init__ (the if/elif chain on `recipe`; real code, bounded skeletons): the Cantera
    attribute, the worker and the NEW field names that go together - by species: one name PREFIX(sp) per requested species
    in the requested order (the order ThermoIndices gives the columns); by reaction: PREFIXi per requested reaction, the
    reaction indices handed to the worker unchanged; otherwise the single name; unknown recipes are refused."""
    prop = "C11"
    reach = "S"
    qual = CF + "Chef.__init__"
    unordered = True

    @staticmethod
    def _anchor(s):
        import ast
        return isinstance(s, ast.If) and any(FragmentTask.assigns("knife")(x) for x in ast.walk(s))
    first = _anchor
    last = _anchor

    def __init__(self, recipe, species=None, reactions=None):
        self.recipe, self.species, self.reactions = recipe, species, reactions
        self.name = f"Chef.__init__.recipe-dispatch[{recipe};species={species};reactions={reactions}]"

    def setup(self, ex):
        self_ = Record(CF + "Chef", requires_sol=True, sp_indexes=[], rx_indexes=[])
        return {"frame": {"self": self_, "recipe": self.recipe, "species": None if self.species is None else list(self.species),
                          "reactions": None if self.reactions is None else list(self.reactions)}, "self_": self_}

    def post(self, ex, inp, out):
        ctx = ex.ctx
        book = {'HRR': ("heat_release_rate", "HeatRelease"), 'ENT': ("enthalpy_mass", "Enthalpy"), 'SRi': ("net_production_rates", "IRm"),
                'SDi': ("mix_diff_coeffs_mass", "DI"), 'RRi': ("net_rates_of_progress", "R")}
        if self.recipe not in book:
            ctx.oblige("post.unknown-recipe-refused", out.kind == "exc", "P")
            return
        ctx.oblige("raises-nothing", out.kind == "ret", "P", note=str(out.exc) if out.kind != "ret" else "")
        if out.kind != "ret":
            return
        a = inp["self_"].attrs
        attr, prefix = book[self.recipe]
        ctx.oblige("post.cantera-attribute-of-the-recipe", a.get("recipe") == attr, "P", note=str(a.get("recipe")))
        if self.species is not None:
            fn, names = "chefs_knife_byspecies_field", [f"{prefix}({sp})" for sp in self.species]
        elif self.reactions is not None:
            fn, names = "chefs_knife_byreaction_field", [f"{prefix}{i}" for i in self.reactions]
            ctx.oblige("post.reaction-columns-in-requested-order", list(a.get("rx_indexes")) == list(self.reactions), "P")
        else:
            fn, names = "chefs_knife_single_field", [prefix]
        k = a.get("knife")
        ctx.oblige("post.worker-of-the-mode", isinstance(k, FuncVal) and k.qualname == CF + fn, "P", note=str(k))
        ctx.oblige("post.new-names-in-column-order", list(a.get("outfields", [])) == names, "P", note=f"{a.get('outfields')} vs {names}")
        ctx.oblige("post.needs-a-solution", a.get("requires_sol") is True, "P")


class StateTables(Task):
    """Chef.set_global_sarrays with PlotfileCooker.unique_box_shapes inlined (real code, bounded skeletons: concrete box
    lists): after the call the module tables SARRAYS / PRESSURES have an entry for the shape of EVERY box up to the level
    limit - the workers' table look-ups cannot miss - each a SolutionArray of that gas and shape / the pressure on that
    shape."""
    prop = "C11"
    reach = "S"
    qual = CF + "Chef.set_global_sarrays"
    inline = ("amr_kitchen.plotfile_cooker.PlotfileCooker.unique_box_shapes",)

    def __init__(self, boxes, limit, stale=False):
        """stale: the module tables still hold what an EARLIER Chef of this process left there (another gas, another pressure,
        for one of this plotfile's box shapes and for a foreign shape): the tables a cook uses depend on its own arguments only"""
        self.boxes, self.limit, self.stale = boxes, limit, stale
        self.name = f"Chef.set_global_sarrays[{boxes};limit={limit}" + (";tables left by an earlier Chef]" if stale else "]")

    def setup(self, ex):
        from pyvc.exec import LIBS
        made = []

        def sol_array(ex_, a, k):
            r = Record("SolutionArray", gas=a[0], shape=a[1])
            made.append(r)
            return r
        LIBS[("cantera", "SolutionArray")] = sol_array
        gas = Record("Gas")
        cells = [{"indexes": [[Vec(list(lo), "array"), Vec(list(hi), "array")] for lo, hi in lv]} for lv in self.boxes]
        P = z3.Real("P")
        self_ = Record(CF + "Chef", cells=cells, limit_level=self.limit, gas=gas, P=P)
        if self.stale:
            lo, hi = self.boxes[0][0]
            shp = tuple(h - l + 1 for l, h in zip(lo, hi))
            old_gas, old_p = Record("Gas"), z3.Real("P_of_the_earlier_Chef")
            ex.globals_model[(CF[:-1], "SARRAYS")] = {shp: Record("SolutionArray", gas=old_gas, shape=shp),
                                                       (99, 1, 1): Record("SolutionArray", gas=old_gas, shape=(99, 1, 1))}
            ex.globals_model[(CF[:-1], "PRESSURES")] = {shp: NDArray(list(shp), lambda ix: old_p, "f8"),
                                                        (99, 1, 1): NDArray([99, 1, 1], lambda ix: old_p, "f8")}
        return {"self": self_, "args": [], "gas": gas, "P": P}

    def post(self, ex, inp, out):
        ctx = ex.ctx
        ctx.oblige("raises-nothing", out.kind == "ret", "P", note=str(out.exc) if out.kind != "ret" else "")
        if out.kind != "ret":
            return
        sa = ex.globals_model.get((CF[:-1], "SARRAYS"))
        pr = ex.globals_model.get((CF[:-1], "PRESSURES"))
        ok = isinstance(sa, dict) and isinstance(pr, dict)
        ctx.structure("post.module-tables-set", ok)
        if not ok:
            return
        shapes = {tuple(h - l + 1 for l, h in zip(lo, hi)) for lv in self.boxes[:self.limit + 1] for lo, hi in lv}
        keys_s = {tuple(as_const(x) if is_z3(x) else x for x in k) for k in sa.keys()}
        keys_p = {tuple(as_const(x) if is_z3(x) else x for x in k) for k in pr.keys()}
        ctx.oblige("post.an-entry-for-every-box-shape", shapes <= keys_s and shapes <= keys_p, "P", note=f"{shapes} vs {keys_s}")
        good = True
        for k, v in sa.items():
            kk = tuple(as_const(x) if is_z3(x) else x for x in k)
            if kk not in shapes:
                continue        # (an entry for a shape no box of this plotfile has is never looked up)
            good = good and isinstance(v, Record) and v.cls == "SolutionArray" and v.attrs["gas"] is inp["gas"] and \
                tuple(as_const(x) if is_z3(x) else x for x in ex.as_iterable(v.attrs["shape"])) == kk
        ctx.oblige("post.solution-array-of-its-own-shape", good, "P")
        for k, v in pr.items():
            kk = tuple(as_const(x) if is_z3(x) else x for x in k)
            if kk not in shapes:
                continue
            okp = isinstance(v, NDArray) and [as_const(x) if is_z3(x) else x for x in v.shape] == list(kk)
            ctx.oblige(f"post.pressure-table{list(kk)}", veq(ctx, v, NDArray(list(kk), lambda ix: inp["P"])) if okp else False, "P")


def init_tasks(tier):
    out = [KeptNames(3, [2, 0], 1), KeptNames(3, [1, 1], 2), KeptNames(2, [], 1), KeptNames(4, [3, 1, 2], 1)]
    out += [KeptIds(["a", "b", "c"], "c a"), KeptIds(["a", "b", "c"], "a"), KeptIds(["a", "b", "c"], "zz b"), KeptIds(["a", "b"], None),
            KeptIds(["temp", "rho"], "rho  temp rho"), KeptIds(["a"], "")]
    out += [SarrayInput(["density", "temp", "Y(H2)", "Y(O2)", "Y(N2)", "p"], ["H2", "O2", "N2"]),
            SarrayInput(["Y(A)", "Y(B)", "temp"], ["A", "B"], 1.0),
            SarrayInput(["temp", "Y(A)"], ["A"], 0.5),
            SarrayInput(["Y(A)", "Y(B)", "rho"], ["A", "B"]),                   # no temperature
            SarrayInput(["temp", "Y(A)", "x", "Y(B)"], ["A", "B"]),            # species not contiguous
            SarrayInput(["temp", "Y(B)", "Y(A)"], ["A", "B"]),                 # species in another order
            SarrayInput(["temp", "Y(A)"], ["A", "B"]),                         # a species is missing
            SarrayInput(["temp", "Y(A)", "Y(B)"], ["A", "B"], None)]           # no pressure
    out += [RecipeDispatch("HRR"), RecipeDispatch("ENT"), RecipeDispatch("SRi", species=["N2", "H2"]), RecipeDispatch("SDi", species=["O2"]),
            RecipeDispatch("RRi", reactions=[7, 2, 11]), RecipeDispatch("SRi", species=["H2"], reactions=[3]), RecipeDispatch("XYZ")]
    out += [StateTables([[((0, 0, 0), (7, 7, 7)), ((8, 0, 0), (15, 7, 3))], [((0, 0, 0), (15, 15, 15)), ((16, 0, 0), (23, 7, 7))]], 1),
            StateTables([[((0, 0, 0), (7, 7, 7))], [((4, 4, 4), (11, 7, 5))]], 0),
            StateTables([[((0, 0, 0), (7, 7, 7)), ((8, 0, 0), (15, 7, 3))], [((0, 0, 0), (15, 15, 15))]], 1, stale=True),
            StateTables([[((0, 0, 0), (3, 7, 7)), ((4, 0, 0), (7, 7, 7)), ((8, 0, 0), (10, 7, 7))]], 0)]
    F = ["rho", "Y(H2)", "Y(O2)", "Y(N2)", "temp"]
    out += [ThermoIndices(F, ["H2", "O2", "N2"], "SRi", ["N2", "H2"]), ThermoIndices(F, ["H2", "O2", "N2"], "SDi", ["O2"]),
            ThermoIndices(F, ["H2", "O2", "N2"], "HRR", None), ThermoIndices(F, ["H2", "O2", "N2"], "user", ["H2"]),
            ThermoIndices(["temp", "Y(O2)"], ["O2"], "ENT", None),
            ThermoIndices(F, ["H2", "O2", "N2"], "SRi", ["N2", "AR"]),        # a species the mechanism does not have
            ThermoIndices(["temp", "Y(H2)", "Y(N2)"], ["H2", "N2"], "ENT", None)]    # no O2 in the mechanism
    return out


def init_canaries():
    f = "amr_kitchen/chef/chef.py"
    return [("Chef.__init__: kept names listed in plotfile order",
             [(f, "        kept_names = [list(self.fields.keys())[fid] for fid in self.ids_keep]",
               "        kept_names = [name for name, fid in self.fields.items() if fid in self.ids_keep]")],
             ["Chef.__init__.kept-names[nf=3,keep=[2, 0],new=1]"]),
            ("Chef.__init__: species columns sorted, names in requested order",
             [(f, "self.sp_indexes = [self.gas.species_index(sp) for sp in species]",
               "self.sp_indexes = sorted(self.gas.species_index(sp) for sp in species)")],
             ["Chef.__init__.thermo-indices[rho,Y(H2),Y(O2),Y(N2),temp;mech=H2,O2,N2;SRi;species=['N2', 'H2']]"]),
            ("Chef.sarray_input: species run one field short",
             [(f, "species_end = species_start + len(gas.species())", "species_end = species_start + len(gas.species()) - 1")],
             ["Chef.sarray_input[fields=density,temp,Y(H2),Y(O2),Y(N2),p;species=H2,O2,N2;P=2.0]"]),
            ("unique_box_shapes: shapes of level 0 only",
             [("amr_kitchen/plotfile_cooker.py", "        shapes = []\n        for lv in range(self.limit_level + 1):\n            for idx in self.cells[lv]['indexes']:\n                shape = idx[1] - idx[0] + 1",
               "        shapes = []\n        for lv in range(1):\n            for idx in self.cells[lv]['indexes']:\n                shape = idx[1] - idx[0] + 1")],
             ["Chef.set_global_sarrays[[[((0, 0, 0), (7, 7, 7)), ((8, 0, 0), (15, 7, 3))], [((0, 0, 0), (15, 15, 15)), ((16, 0, 0), (23, 7, 7))]];limit=1]"])]


# ---------------------------------------------------------------------------------------------------------------------
# Chef.cook: per-file task and the scatter of what the knives return


def _src(pattern):
    import ast
    return lambda s: pattern in ast.unparse(s).split("\n")[0]


CFILES = ["plt/Level_0/Cell_D_00001", "plt/Level_0/Cell_D_00000", "plt/Level_0/Cell_D_00001"]


class CookTask(FragmentTask):
    """Body of the loop of Chef.cook over the binary files of a level.  The knives read a binary file front to back and return
    offsets / minima / maxima in that (disk) order, so for the boxes B of the current file the ids recorded in box_index_map
    must be B in increasing READ offset; the task names the file itself and the same base name under the output level
    directory, and carries the cook's recipe, kept ids and field table.  Skeleton: 3 boxes over 2 interleaved files."""
    prop = "C11"
    reach = "S"
    qual = CF + "Chef.cook"
    first = staticmethod(_src("bf_mask = level_files == bfpath"))
    last = staticmethod(_src("mp_calls.append(call)"))

    def __init__(self, which):
        self.which = which
        self.name = f"cook.task-of-binary-file[{which.split('/')[-1]}]"

    def setup(self, ex):
        ctx = ex.ctx
        off = [z3.Int(f"off{i}") for i in range(3)]
        ctx.assume(z3.And(z3.Distinct(*off), *[x >= 0 for x in off]))
        keep, fields, recipe = Opaque("ids_keep", "obj"), Opaque("fields", "obj"), Opaque("recipe", "obj")
        self_ = Record(CF + "Chef", outdir="out", cell_paths=["Level_0"], recipe=recipe, sp_indexes=[], rx_indexes=[], sp_start=None,
                       sp_end=None, fields=fields, id_temp=None, ids_keep=keep, idx_O2=None)
        frame = {"self": self_, "lv": 0, "level_files": Vec(list(CFILES), "array"), "level_offsets": Vec(off, "array"), "ncells": 3,
                 "box_indexes": Vec([0, 1, 2], "array"), "box_index_map": [], "mp_calls": [], "bfpath": self.which}
        return {"frame": frame, "B": [i for i in range(3) if CFILES[i] == self.which], "off": off, "keep": keep, "fields": fields,
                "recipe": recipe}

    def post(self, ex, inp, out):
        ctx = ex.ctx
        ctx.oblige("raises-nothing", out.kind == "ret", "P", note=str(out.exc) if out.kind != "ret" else "")
        if out.kind != "ret":
            return
        v, B, off = out.value, inp["B"], inp["off"]
        calls, bmap = v.get("mp_calls"), v.get("box_index_map")
        ok = isinstance(calls, list) and len(calls) == 1 and isinstance(calls[0], dict) and isinstance(bmap, list) and len(bmap) == 1
        ctx.structure("post.one-task-and-one-id-list-appended", ok)
        if not ok:
            return
        ids = ex.as_iterable(bmap[0])
        ctx.oblige("post.as-many-ids-as-boxes-in-the-file", len(ids) == len(B), "P")
        if len(ids) != len(B):
            return
        pick = lambda k: z3.Sum([z3.If(to_z3(k) == c, off[c], 0) for c in range(3)])
        ctx.oblige("post.ids-are-the-boxes-of-the-file", zand(*[zor(*[to_z3(b) == c for c in B]) for b in ids],
                                                             z3.Distinct(*[to_z3(b) for b in ids]) if len(ids) > 1 else True), "P")
        for t in range(len(ids) - 1):
            ctx.oblige(f"post.ids-in-the-order-the-knife-reads-the-file[{t}]", pick(ids[t]) < pick(ids[t + 1]), "P")
        from pyvc.ops import compare
        call = calls[0]
        ctx.oblige("post.reads-the-level-binary-file", compare(ex, "Eq", call.get("bfpath"), self.which), "P", note=str(call.get("bfpath")))
        ctx.oblige("post.writes-the-same-name-under-the-output-level-directory",
                   compare(ex, "Eq", call.get("newbfpath"), "out/Level_0/" + self.which.split("/")[-1]), "P", note=str(call.get("newbfpath")))
        ctx.oblige("post.recipe-kept-ids-and-field-table-passed-through",
                   call.get("recipe") is inp["recipe"] and call.get("ids_keep") is inp["keep"] and call.get("field_indexes") is inp["fields"], "P")


class CookTaskList(FragmentTask):
    """The statements of Chef.cook that build the task list of ONE level (from the empty list to the end of the loop over the
    level's binary files; real code, skeleton: 3 boxes over 2 interleaved files): one task per distinct binary file, each
    naming ITS file and ITS output path - tasks are separate objects, a later file does not rewrite an earlier task."""
    prop = "C11"
    reach = "S"
    qual = CF + "Chef.cook"
    first = staticmethod(FragmentTask.assigns("mp_calls"))

    @staticmethod
    def last(s):
        import ast
        return isinstance(s, ast.For) and "np.unique(level_files)" in ast.unparse(s.iter)

    def __init__(self):
        self.name = "cook.task-list-of-a-level"

    def setup(self, ex):
        inp = CookTask.setup(self, ex)
        inp["frame"].pop("bfpath", None)
        inp["frame"].pop("mp_calls", None)
        return inp

    which = None

    def post(self, ex, inp, out):
        ctx = ex.ctx
        ctx.oblige("raises-nothing", out.kind == "ret", "P", note=str(out.exc) if out.kind != "ret" else "")
        if out.kind != "ret":
            return
        calls = out.value.get("mp_calls")
        files = sorted(set(CFILES))
        ok = isinstance(calls, list) and len(calls) == len(files) and all(isinstance(c, dict) for c in calls)
        ctx.structure("post.one-task-per-binary-file-of-the-level", ok, note=f"{len(calls) if isinstance(calls, list) else calls}")
        from pyvc.ops import compare
        for k, f in enumerate(files):
            ctx.oblige(f"post.task-{k}-reads-its-own-file", compare(ex, "Eq", calls[k].get("bfpath"), f), "P", note=str(calls[k].get("bfpath")))
            ctx.oblige(f"post.task-{k}-writes-its-own-file",
                       compare(ex, "Eq", calls[k].get("newbfpath"), "out/Level_0/" + f.split("/")[-1]), "P", note=str(calls[k].get("newbfpath")))


class CookLevel(FragmentTask):
    """The body of the level loop of Chef.cook as a whole, from its first statement to the loop that stores the knives' results
    (real code; skeleton: 3 boxes over 2 interleaved files, symbolic distinct read offsets; serial and pool mode).  The knife is
    its contract: it reads ITS binary file front to back and returns one offset / minima row / maxima row per FAB in DISK order.
    Whatever bookkeeping lies in between, afterwards box b holds the results of the FAB at b's rank (by read offset) among
    the boxes of b's file - the level header then lists every box with the offset and extrema of its own data."""
    prop = "C11"
    reach = "S"
    qual = CF + "Chef.cook"
    first = staticmethod(FragmentTask.assigns("level_files"))
    last = staticmethod(_src("for file_idxs, bfile_result in zip(box_index_map, output)"))
    inline = ("amr_kitchen.plotfile_cooker.PlotfileCooker.map_bfile_offsets",)

    def __init__(self, serial, short=False):
        """short: the knife of a file with several boxes returns one result FEWER than the file has boxes (an input binary file that
        ends early): the level body must not return normally"""
        self.serial, self.short = serial, short
        self.name = f"cook.level-body[{'serial' if serial else 'pool'}" + (", a knife comes back with fewer results than boxes]" if short else "]")

    def setup(self, ex):
        ctx = ex.ctx
        I, R = z3.IntSort(), z3.RealSort()
        off = [z3.Int(f"off{i}") for i in range(3)]
        ctx.assume(z3.And(z3.Distinct(*off), *[x >= 0 for x in off]))
        from pyvc.task import require_return_arity
        require_return_arity(ex, [CF + k for k in ("chefs_knife_single_field", "chefs_knife_byspecies_field", "chefs_knife_byreaction_field", "chefs_knife_user_sarray", "chefs_knife_user_pfile")], 3)
        NEWOFF = z3.Function("NEWOFF", I, I, I)
        MN, MX = z3.Function("KMIN", I, I, I, R), z3.Function("KMAX", I, I, I, R)
        files = sorted(set(CFILES))
        nper = {f: sum(1 for x in CFILES if x == f) for f in files}
        called = []

        def knife(ex_, args, kw):
            call = args[0]
            f = str(call.get("bfpath"))
            fi = files.index(f)
            called.append(f)
            n = nper[f]
            if self.short and n >= 2:
                n = n - 1
            return (Vec([NEWOFF(fi, t) for t in range(n)], "array"),
                    NDArray([n, 2], lambda ix, fi=fi: MN(fi, to_z3(ix[0]), to_z3(ix[1])), "f8"),
                    NDArray([n, 2], lambda ix, fi=fi: MX(fi, to_z3(ix[0]), to_z3(ix[1])), "f8"))
        knife._pyvc_builtin = True
        self_ = Record(CF + "Chef", outdir="out", cell_paths=["Level_0"], recipe=Opaque("recipe", "obj"), sp_indexes=[], rx_indexes=[],
                       sp_start=None, sp_end=None, fields=Opaque("fields", "obj"), id_temp=None, ids_keep=Opaque("ids_keep", "obj"), idx_O2=None,
                       cells=[{"files": list(CFILES), "offsets": list(off)}], boxes=[[None, None, None]], outfields=["kept", "new"],
                       serial=self.serial, knife=knife, limit_level=0)
        return {"frame": {"self": self_, "lv": 0}, "off": off, "NEWOFF": NEWOFF, "MN": MN, "MX": MX, "files": files, "called": called}

    def post(self, ex, inp, out):
        ctx = ex.ctx
        if self.short:
            ctx.oblige("fault.a-short-worker-result-does-not-pass-for-a-level", out.kind == "exc", "P")
            return
        ctx.oblige("raises-nothing", out.kind == "ret", "P", note=str(out.exc) if out.kind != "ret" else "")
        if out.kind != "ret":
            return
        from pyvc.ops import as_ndarray
        v, off, files = out.value, inp["off"], inp["files"]
        ctx.oblige("post.every-binary-file-cooked-exactly-once", sorted(inp["called"]) == files, "P", note=str(inp["called"]))
        ao, am, ax = as_ndarray(v["mapped_offsets"]), as_ndarray(v["mapped_mins"]), as_ndarray(v["mapped_maxs"])
        for b in range(3):
            fi = files.index(CFILES[b])
            rank = z3.Sum([z3.If(off[c] < off[b], 1, 0) for c in range(3) if c != b and CFILES[c] == CFILES[b]] + [z3.IntVal(0)])
            ctx.oblige(f"post.box-{b}-gets-the-offset-of-its-own-fab", to_z3(ao.elem((b,))) == inp["NEWOFF"](fi, rank), "P")
            for k in range(2):
                ctx.oblige(f"post.box-{b}-gets-the-minima-of-its-own-fab", to_z3(am.elem((b, k))) == inp["MN"](fi, rank, k), "P")
                ctx.oblige(f"post.box-{b}-gets-the-maxima-of-its-own-fab", to_z3(ax.elem((b, k))) == inp["MX"](fi, rank, k), "P")


class CookScatter(FragmentTask):
    """The loop of Chef.cook storing what the knives returned: the t-th offset / minima / maxima of the task of file f go to box
    box_index_map[f][t]."""
    prop = "C11"
    reach = "S"
    qual = CF + "Chef.cook"
    # from the statement that runs the knives (serially or through the pool) to the loop that stores their results: the knife
    # is its interface (task f returns the f-th result), the collection order is Python's / the pool's contract
    first = staticmethod(_src("if self.serial"))
    last = staticmethod(_src("for file_idxs, bfile_result in zip(box_index_map, output)"))

    def __init__(self, serial=False):
        self.serial = serial
        self.name = "cook.results-stored-per-box" + ("[serial]" if serial else "")

    def setup(self, ex):
        ctx = ex.ctx
        I, R = z3.IntSort(), z3.RealSort()
        a, b = z3.Ints("id_a id_b")
        ctx.assume(z3.Or(z3.And(a == 0, b == 2), z3.And(a == 2, b == 0)))
        offs = [[z3.Int("off_f0_0"), z3.Int("off_f0_1")], [z3.Int("off_f1_0")]]
        mins = [[[z3.Real(f"min_f{f}_{t}_{c}") for c in range(2)] for t in range(n)] for f, n in ((0, 2), (1, 1))]
        maxs = [[[z3.Real(f"max_f{f}_{t}_{c}") for c in range(2)] for t in range(n)] for f, n in ((0, 2), (1, 1))]

        def arr2(rows):
            def el(ix):
                r, c = to_z3(ix[0]), to_z3(ix[1])
                e = None
                for i in range(len(rows) - 1, -1, -1):
                    for j in range(1, -1, -1):
                        e = rows[i][j] if e is None else z3.If(z3.And(r == i, c == j), rows[i][j], e)
                return e
            return NDArray([len(rows), 2], el, "f8")
        output = [(Vec(offs[f], "array"), arr2(mins[f]), arr2(maxs[f])) for f in range(2)]
        from pyvc.task import require_return_arity
        require_return_arity(ex, [CF + k for k in ("chefs_knife_single_field", "chefs_knife_byspecies_field", "chefs_knife_byreaction_field", "chefs_knife_user_sarray", "chefs_knife_user_pfile")], 3)

        def knife(ex_, args, kw):
            return output[args[0]]
        knife._pyvc_builtin = True
        self_ = Record(CF + "Chef", knife=knife, serial=self.serial, boxes=[[None, None, None]], outfields=["kept", "new"])
        frame = {"mp_calls": [0, 1], "self": self_, "lv": 0, "box_index_map": [Vec([a, b], "array"), Vec([1], "array")]}
        return {"frame": frame, "ids": [[a, b], [1]], "offs": offs, "mins": mins, "maxs": maxs}

    def post(self, ex, inp, out):
        ctx = ex.ctx
        ctx.oblige("raises-nothing", out.kind == "ret", "P", note=str(out.exc) if out.kind != "ret" else "")
        if out.kind != "ret":
            return
        from pyvc.ops import as_ndarray
        v = out.value
        ao, am, ax = as_ndarray(v["mapped_offsets"]), as_ndarray(v["mapped_mins"]), as_ndarray(v["mapped_maxs"])
        for f, ids in enumerate(inp["ids"]):
            for t, bid in enumerate(ids):
                for c in range(3):
                    hyp = to_z3(bid) == c if is_z3(bid) else (bid == c)
                    if hyp is False:
                        continue
                    ctx.oblige(f"post.offset-of-task{f}[{t}]-stored-for-its-box", z3.Implies(hyp, to_z3(ao.elem((c,))) == inp["offs"][f][t]), "P")
                    for k in range(2):
                        ctx.oblige(f"post.minima-of-task{f}[{t}]-stored-for-its-box", z3.Implies(hyp, to_z3(am.elem((c, k))) == inp["mins"][f][t][k]), "P")
                        ctx.oblige(f"post.maxima-of-task{f}[{t}]-stored-for-its-box", z3.Implies(hyp, to_z3(ax.elem((c, k))) == inp["maxs"][f][t][k]), "P")


def cook_tasks(tier):
    return [CookTask(CFILES[0]), CookTask(CFILES[1]), CookTaskList(), CookScatter(), CookScatter(serial=True), CookLevel(True), CookLevel(False), CookLevel(True, short=True), __import__("props.scatter_u", fromlist=["cook_scatter"]).cook_scatter()]


def cook_canaries():
    f = "amr_kitchen/chef/chef.py"
    return [("cook: ids of a file stored in box order, not in read order",
             [(f, "                box_index_map.append(bf_indexes[np.argsort(bf_offsets_r)])", "                box_index_map.append(bf_indexes)")],
             ["cook.task-of-binary-file[Cell_D_00001]"]),
            ("cook: maxima stored from the minima",
             [(f, "                mapped_maxs[file_idxs, :] = bfile_result[2]", "                mapped_maxs[file_idxs, :] = bfile_result[1]")],
             ["cook.results-stored-per-box"])]
