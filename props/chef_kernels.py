def chef_tasks(prop):
    return []
def chef_canaries():
    return []
