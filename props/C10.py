"""C10 - whip's uniform grid is the covering grid of the chosen field."""
import z3
from pyvc.vals import *  # noqa
from pyvc.task import Task
from pyvc.vc import veq
from pyvc.loops import LoopSpec
from pyvc.libfile import RFile
from contracts.ondisk import DiskFile
from props.C01 import ASSUMPTIONS as A01, TRUSTED as T01

ASSUMPTIONS = A01 + ["OnDisk file model as in C15; N_FIELDS equals the component count of every FAB (well-formed input)",
                     "main(): painting one returned box (refinement factor a skeleton parameter) and 'every file read once' "
                     "(4 boxes over 3 files, symbolic sizes) are under contract as fragments; the level loop (coarse to fine) and "
                     "completion-order independence are covered by the bounded run-time layer (controllable pool: permuted "
                     "completion orders); disjointness of same-level boxes makes the painting order within a level irrelevant "
                     "(well-formed input)"]
TRUSTED = T01 + ["numpy: np.repeat(a, f, axis)[.., x, ..] == a[.., x // f, ..]", "pool.imap_unordered = some permutation (assumed)"]


class WhipScan(Task):
    """readfieldfrombinfile: every FAB of an OnDisk file is emitted once, in disk order, as (index range, component
    FIELD_INDEX in F order); the scan stops exactly at end of file."""
    prop = "C10"
    reach = "U"
    qual = "amr_kitchen.whip.cli.readfieldfrombinfile"

    def __init__(self):
        self.name = "readfieldfrombinfile"

    def setup(self, ex):
        ctx = ex.ctx
        ctx.ghost["ndims"] = 3
        disk = DiskFile(ctx, "F", 3, canonical=False)
        k_ = z3.Int("FIELD_INDEX")
        ctx.assume(z3.And(k_ >= 0, k_ < disk.nc))
        inp = {"args": [{"N_FIELDS": disk.nc, "FIELD_INDEX": k_, "fname": disk.path}], "disk": disk, "k": k_}

        def idx(j):
            fb = disk.fab(j)
            return [Vec(fb.lo), Vec(fb.hi)]

        def arr(j):
            fb = disk.fab(j)
            return NDArray(list(fb.shape), lambda ix: fb.value(ix, k_))
        inp["idx"], inp["arr"] = idx, arr

        def template(ex_, fr, k, entry):
            k3 = to_z3(k)
            bf = RFile(disk.path, disk.F)
            bf.pos = disk.P(k3)
            return {"indexes": SymSeq(k, idx), "arrays": SymSeq(k, arr), "bfile": bf,
                    "__assume__": [z3.And(k3 >= 0, k3 <= disk.m), disk.facts(k3)],
                    "__assert__": [("in-range", k3 <= disk.m)]}
        self.loopspecs = {(self.qual, 0): LoopSpec(template)}
        return inp

    def post(self, ex, inp, out):
        ctx = ex.ctx
        ctx.oblige("raises-nothing", out.kind == "ret", "P", note=str(out.exc))
        if out.kind != "ret":
            return
        disk = inp["disk"]
        v = out.value
        ok = isinstance(v, tuple) and len(v) == 2
        ctx.structure("post.returns-pair", ok)
        if ok:
            ctx.oblige("post.every-fab-index-range-in-disk-order", veq(ctx, v[0], SymSeq(disk.m, inp["idx"])), "P")
            ctx.oblige("post.every-fab-component-in-disk-order", veq(ctx, v[1], SymSeq(disk.m, inp["arr"])), "P")


class Expand3d(Task):
    """expand_array3d(arr, f)[x,y,z] == arr[x//f, y//f, z//f] with shape (a*f, b*f, c*f)."""
    prop = "C10"
    reach = "U"
    qual = "amr_kitchen.utils.expand_array3d"

    def __init__(self):
        self.name = "expand_array3d"

    def setup(self, ex):
        ctx = ex.ctx
        sh = [z3.Int(f"a{d}") for d in range(3)]
        f = z3.Int("f")
        ctx.assume(f >= 1)
        for s in sh:
            ctx.assume(s >= 0)
        A = z3.Function("A", z3.IntSort(), z3.IntSort(), z3.IntSort(), z3.RealSort())
        arr = NDArray(sh, lambda ix: A(*[to_z3(i) for i in ix]))
        return {"args": [arr, f], "sh": sh, "f": f, "A": A}

    def post(self, ex, inp, out):
        ctx = ex.ctx
        ctx.oblige("raises-nothing", out.kind == "ret", "P", note=str(out.exc))
        if out.kind != "ret":
            return
        sh, f, A = inp["sh"], inp["f"], inp["A"]
        exp = NDArray([s * f for s in sh], lambda ix: A(*[to_z3(i) / f for i in ix]))
        ctx.oblige("post.replication", veq(ctx, out.value, exp), "P")


def _tasks0(tier):
    from props.whip_parents import parent_tasks
    return [WhipScan(), Expand3d()] + parent_tasks(tier)


def canaries(tier):
    f = "amr_kitchen/whip/cli.py"
    return [("whip scan: remainder forgets the selected component",
             [(f, "remainder = np.prod(tshape)*8 - np.prod(shape)*FIELD_INDEX*8 - np.prod(shape)*8",
               "remainder = np.prod(tshape)*8 - np.prod(shape)*FIELD_INDEX*8")], ["readfieldfrombinfile"]),
            ("expand3d: one axis repeated twice", [("amr_kitchen/utils.py", "factor, axis=1),\n                     factor, axis=2)",
                                                   "factor, axis=1),\n                     factor, axis=1)")], ["expand_array3d"])] + __import__("props.whip_parents", fromlist=["parent_canaries"]).parent_canaries() + \
        __import__("props.parsers", fromlist=["parser_canaries"]).parser_canaries()


SCENARIO_TIMEOUT = 400


def scenarios(tier, seed):
    n = 4 if tier == "quick" else 8
    return [{"kind": "whip", "seed": seed * 1000 + 600 + i, "ndims": 3, "nf": [3, 2, 4][i % 3], "nlevels": [2, 3, 1][i % 3],
             "nfiles": [3, 2, 4][i % 3], "layout": ["shuffled", "roundrobin"][i % 2], "box_sizes": [8, 16] if i % 2 else None,
             "n0": [16, 8, 24] if i % 2 == 0 else [16, 16, 16], "ncombos": 3 if tier == "quick" else 8,
             "orders": ["real", "shuffle", "reversed"] if tier == "quick" else ["real", "shuffle", "reversed", "shuffle", "submission"]}
            for i in range(n)] + \
        [{"kind": "whip", "seed": seed * 1000 + 650, "ndims": 3, "nf": 2, "nlevels": 2, "nfiles": 2, "layout": "shuffled", "n0": [9, 8, 8],
          "ncombos": 3, "orders": ["real", "reversed"]}]        # one-cell-thick boxes (a domain that the box size does not divide)


def run_scenario(p, wd):
    from harness.rt_tools import run_whip_scenario
    return run_whip_scenario(p, wd)



def tasks(tier):
    # the FAB header parsers / formatter (real bodies on canonical header text): the obligations behind the header contracts
    from props.parsers import parser_tasks
    return _tasks0(tier) + parser_tasks("C10", nds=(2, 3))
