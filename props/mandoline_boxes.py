from pyvc.task import Task
class PlateBox(Task):
    pass
