"""The box workers of mandoline under contract (C07, C08, C16): blades.slice_box and blades.plate_box.

Unbounded in the box geometry (index range, position in the file, level, refinement factor, physical bounds, plane
position) and in the stored data; the NUMBER of requested fields is a skeleton parameter (the field loop is unrolled)."""
import z3
from pyvc.vals import *  # noqa
from pyvc.task import Task
from pyvc.vc import veq
from pyvc.ops import pow2
from contracts.common import sym_path, sym_fab

BL = "amr_kitchen.mandoline.blades."
MU = "amr_kitchen.mandoline.utils."
I, R = z3.IntSort(), z3.RealSort()


def expand_contract(ex, args, kw):
    """contract of utils.expand_array (proved by the task 'expand_array'): out[X, Y] = arr[X // f, Y // f]"""
    arr, f = args
    from pyvc.ops import as_ndarray
    a = as_ndarray(arr)
    e, _ = a.snapshot()
    f3 = to_z3(f)
    ex.ctx.check_or_raise(len(a.shape) == 2, "PreconditionOfExpandArray", "expand_array takes a 2-D array")
    sh = [ex.ctx.define(to_z3(a.shape[0]) * f3, "ext"), ex.ctx.define(to_z3(a.shape[1]) * f3, "ext")]
    return NDArray(sh, lambda ix: e((ex.ctx.quot(to_z3(ix[0]), f3)[0], ex.ctx.quot(to_z3(ix[1]), f3)[0])), a.dtype)


def close(x, y):
    d = x - y
    ad = z3.If(d >= 0, d, -d)
    ay = z3.If(y >= 0, y, -y)
    return ad <= to_real(1e-8) + to_real(1e-5) * ay      # the float64 constants numpy uses, as exact rationals


class BoxWorker(Task):
    reach = "U"

    def common(self, ex, nd):
        ctx = ex.ctx
        ctx.ghost["ndims"] = nd
        path, F = sym_path(ctx, "F")
        off = z3.Int("off")
        fab = sym_fab(ctx, F, off, nd, canonical=False)
        L, lv = z3.Ints("L lv")
        ctx.assume(z3.And(lv >= 0, lv <= L))
        DX = z3.Function("DX", I, I, R)
        dx = SymSeq(L + 1, lambda l: [DX(to_z3(l), d) for d in range(nd)])
        box = [[z3.Real(f"blo{d}"), z3.Real(f"bhi{d}")] for d in range(nd)]
        # the requested component indices (Mandoline.fidxs): in range of the FAB; optionally a trailing None (grid_level)
        ks = []
        for t in range(self.nk):
            k = z3.Int(f"K{t}")
            ctx.assume(z3.And(k >= 0, k < fab.nc))
            ks.append(k)
        fidxs = list(ks) + ([None] if self.with_none else [])
        self.contracts = {MU + "expand_array": expand_contract}
        return dict(path=path, F=F, off=off, fab=fab, L=L, lv=lv, DX=DX, dx=dx, box=box, ks=ks, fidxs=fidxs)

    def expected_plane(self, ctx, g, cx, cy, cn, il, k):
        """the expanded plane of component k at local normal index il (None: 2-D box)"""
        fab, f = g["fab"], pow2(g["L"] - g["lv"])
        sh = [ctx.define(to_z3(fab.shape[cx]) * f, "ext"), ctx.define(to_z3(fab.shape[cy]) * f, "ext")]

        def elem(ix):
            X, Y = ctx.quot(to_z3(ix[0]), f)[0], ctx.quot(to_z3(ix[1]), f)[0]
            idx = [None] * fab.nd
            idx[cx], idx[cy] = X, Y
            if cn is not None:
                idx[cn] = il
            return fab.value(idx, k)
        return NDArray(sh, elem)

    def check_footprint(self, ctx, g, d, cx, cy, label):
        fab, f = g["fab"], pow2(g["L"] - g["lv"])
        ctx.oblige(f"{label}.sx", veq(ctx, d["sx"], [fab.lo[cx] * f, (fab.hi[cx] + 1) * f]), "P")
        ctx.oblige(f"{label}.sy", veq(ctx, d["sy"], [fab.lo[cy] * f, (fab.hi[cy] + 1) * f]), "P")
        ctx.oblige(f"{label}.level", veq(ctx, d["level"], g["lv"]), "P")


class PlateBox(BoxWorker):
    """plate_box (2-D plotfiles): for every requested field the whole stored box, F order, replicated by the refinement
    factor to the finest selected level, with its footprint in finest-level cells; a trailing None in the field list
    (grid_level) adds no array and is not an error."""
    qual = BL + "plate_box"

    def __init__(self, prop, nk, with_none=False):
        self.prop, self.nk, self.with_none = prop, nk, with_none
        self.name = f"plate_box[fields={nk}{'+None' if with_none else ''}]"

    def setup(self, ex):
        g = self.common(ex, 2)
        args = {"Lv": g["lv"], "fidxs": g["fidxs"], "limit_level": g["L"], "indexes": [list(g["fab"].lo), list(g["fab"].hi)],
                "cfile": g["path"], "offset": g["off"], "box": g["box"], "cx": 0, "cy": 1, "dx": g["dx"]}
        g["args"] = [args]
        return g

    def post(self, ex, g, out):
        ctx = ex.ctx
        if self.nk == 0 and not self.with_none:
            return
        ctx.oblige("raises-nothing", out.kind == "ret", "P", note=str(out.exc) if out.kind != "ret" else "")
        if out.kind != "ret":
            return
        d = out.value
        ok = isinstance(d, dict) and all(k in d for k in ("sx", "sy", "data", "level"))
        ctx.structure("post.result-structure", ok and isinstance(d["data"], list) and len(d["data"]) == self.nk)
        if not ok or not isinstance(d["data"], list) or len(d["data"]) != self.nk:
            return
        self.check_footprint(ctx, g, d, 0, 1, "post")
        ctx.oblige("post.header-line", "header" in d and veq(ctx, d["header"], g["fab"].line), "P")
        for t, k in enumerate(g["ks"]):
            ctx.oblige(f"post.data[{t}]-is-the-stored-box-replicated", veq(ctx, d["data"][t], self.expected_plane(ctx, g, 0, 1, None, None, k)), "P")
        reads = {str(e[1]) for e in ctx.events if e[0] == "open-r"}
        ctx.oblige("frame.reads-only-the-box-file", reads <= {"<path:F>"} and not ctx.ghost.get("wfiles"), "P", note=str(reads))


class SliceBox(BoxWorker):
    """slice_box: with g(i) = box_lo + (i + 1/2) dx the cell-centre planes of the box along the normal (n of them),
       pos > g(n-1)            -> left  = plane n-1, no right plane   (the right one belongs to the next box)
       pos < g(0)              -> right = plane 0,   no left plane
       otherwise               -> left = plane il, right = plane ir with either il == ir and pos ~ g(il) (np.isclose), or
                                  ir == il + 1 and g(il) < pos < g(ir)
    each plane being, per requested field, the stored samples at that normal index replicated to the finest selected
    level, with its normal coordinate g(i), footprint and level; plus the FAB header line and the box number."""
    qual = BL + "slice_box"

    def __init__(self, prop, cn, nk, with_none=False):
        self.prop, self.cn, self.nk, self.with_none = prop, cn, nk, with_none
        self.name = f"slice_box[normal={cn},fields={nk}{'+None' if with_none else ''}]"

    def setup(self, ex):
        ctx = ex.ctx
        g = self.common(ex, 3)
        cn = self.cn
        cx, cy = [d for d in range(3) if d != cn]
        fab, lv, DX, box = g["fab"], g["lv"], g["DX"], g["box"]
        pos = z3.Real("pos")
        n = to_z3(fab.shape[cn])
        d = DX(lv, cn)
        # preconditions (from the reader's invariants and compute_mpinput_3d's contract):
        #   positive cell size; the physical bounds of the box span its n cells; the plane is within half a cell of the box
        ctx.assume(d > 0)
        ctx.assume(box[cn][1] - box[cn][0] == to_real(n) * d)
        ctx.assume(z3.And(box[cn][0] - d / 2 <= pos, pos <= box[cn][1] + d / 2))
        ctx.ghost["linstep_hints"] = [d]
        bidx = z3.Int("bidx")
        args = {"Lv": lv, "pos": pos, "fidxs": g["fidxs"], "limit_level": g["L"], "indexes": [list(fab.lo), list(fab.hi)],
                "cfile": g["path"], "offset": g["off"], "box": box, "cx": cx, "cy": cy, "cn": cn, "dx": g["dx"], "bidx": bidx}
        g.update(args=[args], pos=pos, n=n, d=d, cx=cx, cy=cy, bidx=bidx)
        return g

    def post(self, ex, g, out):
        ctx = ex.ctx
        ctx.oblige("raises-nothing", out.kind == "ret", "P", note=str(out.exc) if out.kind != "ret" else "")
        if out.kind != "ret":
            return
        v = out.value
        ok = isinstance(v, list) and len(v) == 4
        ctx.structure("post.result-structure", ok)
        if not ok:
            return
        left, right = v[0], v[1]
        pos, n, d, box, cn, cx, cy = g["pos"], g["n"], g["d"], g["box"], self.cn, g["cx"], g["cy"]
        gc = lambda i: box[cn][0] + d / 2 + to_real(i) * d
        # which planes: the code's choice il / ir is read back from the normal coordinate through ghost indices
        il, ir = ctx.fresh("il"), ctx.fresh("ir")
        for side, dct, idx in (("left", left, il), ("right", right, ir)):
            if dct is None:
                continue
            okd = isinstance(dct, dict) and all(k in dct for k in ("sx", "sy", "data", "normal", "level")) and \
                isinstance(dct["data"], list) and len(dct["data"]) == self.nk
            ctx.oblige(f"post.{side}.structure", okd, "P")
            if not okd:
                return
        above, below = pos > gc(n - 1), pos < gc(0)
        ctx.oblige("post.no-left-plane-only-below-the-first-centre", z3.Implies(left is None, below), "P")
        ctx.oblige("post.no-right-plane-only-above-the-last-centre", z3.Implies(right is None, above), "P")
        ctx.oblige("post.left-plane-present-when-needed", z3.Implies(z3.Not(below), left is not None), "P")
        ctx.oblige("post.right-plane-present-when-needed", z3.Implies(z3.Not(above), right is not None), "P")
        # the plane indices: existentially, through the normal coordinate the plane carries
        wl = self.plane_index(ctx, g, left, "left") if left is not None else None
        wr = self.plane_index(ctx, g, right, "right") if right is not None else None
        if left is not None and wl is None or right is not None and wr is None:
            return
        if left is not None and right is None:
            ctx.oblige("post.left-only.is-the-last-plane", wl == n - 1, "P")
        if right is not None and left is None:
            ctx.oblige("post.right-only.is-the-first-plane", wr == 0, "P")
        if left is not None and right is not None:
            ctx.oblige("post.bracketing", z3.Or(z3.And(wl == wr, close(pos, gc(wl))),
                                                z3.And(wr == wl + 1, gc(wl) < pos, pos < gc(wr))), "P")
        ctx.oblige("post.header-line", veq(ctx, v[2], g["fab"].line), "P")
        ctx.oblige("post.box-number", veq(ctx, v[3], g["bidx"]), "P")
        reads = {str(e[1]) for e in ctx.events if e[0] == "open-r"}
        ctx.oblige("frame.reads-only-the-box-file", reads <= {"<path:F>"} and not ctx.ghost.get("wfiles"), "P", note=str(reads))

    def plane_index(self, ctx, g, dct, side):
        """the plane handed back on this side: its normal index w is recovered from the witness the executor recorded for the
        integer index used in arr[...] (data) -- here: w is the index such that normal == g(w); the data must be plane w"""
        n, d, box, cn, cx, cy = g["n"], g["d"], g["box"], self.cn, g["cx"], g["cy"]
        gc = lambda i: box[cn][0] + d / 2 + to_real(i) * d
        w = getattr(dct["normal"], "index_witness", None) if not is_z3(dct["normal"]) else None
        w = ctx.ghost.get("last_linspace_index", {}).get(id(dct), None) if w is None else w
        # recover w from the normal value: normal = a + w*step with step == d  =>  search the witness among the executor's
        # recorded element reads of the linspace array
        cands = ctx.ghost.get("linspace_reads", [])
        wit = None
        for (val, idx) in cands:
            if val is dct["normal"] or (is_z3(val) and is_z3(dct["normal"]) and val.eq(dct["normal"])):
                wit = idx
        if wit is None:
            ctx.oblige(f"post.{side}.normal-is-a-cell-centre-of-the-box", False, "P", note="normal coordinate is not an element of the grid")
            return None
        w = to_z3(wit)
        ctx.oblige(f"post.{side}.plane-index-in-range", z3.And(w >= 0, w < n), "P")
        ctx.oblige(f"post.{side}.normal-is-the-cell-centre", to_z3(dct["normal"]) == gc(w), "P")
        self.check_footprint(ctx, g, dct, cx, cy, f"post.{side}")
        for t, k in enumerate(g["ks"]):
            ctx.oblige(f"post.{side}.data[{t}]-is-that-plane-replicated",
                       veq(ctx, dct["data"][t], self.expected_plane(ctx, g, cx, cy, cn, w, k)), "P")
        return w


def box_tasks(prop, which):
    out = []
    if "plate" in which:
        out += [PlateBox(prop, 1), PlateBox(prop, 2, True), PlateBox(prop, 0, True)]
    if "slice" in which:
        out += [SliceBox(prop, 0, 1), SliceBox(prop, 1, 2), SliceBox(prop, 2, 1, True)]
    return out


def tasks(tier):        # for scratch runs
    return box_tasks("CXX", ["plate", "slice"])


def box_canaries(which):
    f = "amr_kitchen/mandoline/blades.py"
    cs = []
    if "slice" in which:
        # (a wrong plane choice under np.where leaves z3 at "unknown" - quantified context, no model -; such changes
        # are refuted by the run-time layer; the canary below is one the proof layer refutes)
        cs += [("slice_box: field skipped by cells instead of bytes",
                [(f, "                f.seek(byte_size*8*fidx, 1)\n                # Could be optimized by reading contiguous fields\n                # At once especially if all the data is requested\n                # Read the data\n                arr = np.fromfile(f, \"float64\", byte_size)\n                # Fortran order perhaps a legacy of the early AMReX\n                # versions\n                arr = arr.reshape(shape, order=\"F\")\n                data_arrays.append(arr)\n            # If fidx is None (for grid_level) we catch it \n            except TypeError:\n                # level is always added to the output\n                pass\n\n    # Slice indexes",
                  "                f.seek(byte_size*fidx, 1)\n                # Could be optimized by reading contiguous fields\n                # At once especially if all the data is requested\n                # Read the data\n                arr = np.fromfile(f, \"float64\", byte_size)\n                # Fortran order perhaps a legacy of the early AMReX\n                # versions\n                arr = arr.reshape(shape, order=\"F\")\n                data_arrays.append(arr)\n            # If fidx is None (for grid_level) we catch it \n            except TypeError:\n                # level is always added to the output\n                pass\n\n    # Slice indexes")],
                ["slice_box[normal=0,fields=1]"])]
    if "plate" in which:
        cs += [("plate_box: footprint one finest cell short in y",
                [(f, "    y_stop = (indexes[1][cy] + 1) * factor\n    shape = (indexes[1][0] - indexes[0][0] + 1,\n             indexes[1][1] - indexes[0][1] + 1,)",
                  "    y_stop = (indexes[1][cy] + 1) * factor - 1\n    shape = (indexes[1][0] - indexes[0][0] + 1,\n             indexes[1][1] - indexes[0][1] + 1,)")],
                ["plate_box[fields=1]"])]
    return cs


def canaries(tier):
    return box_canaries(["slice", "plate"])
