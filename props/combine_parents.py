"""combine, parent bookkeeping (C06): the mode decision, the per-file tasks and the index map the returned offsets are stored
by.  Real code on bounded skeletons: 3 boxes over 2 interleaved files, concrete names, symbolic offsets."""
import ast
import z3
from pyvc.vals import *  # noqa
from pyvc.task import Task, FragmentTask
from pyvc.vc import veq

PC = "amr_kitchen.plotfile_cooker.PlotfileCooker."
CB = "amr_kitchen.combine.combine."
I = z3.IntSort()


def _src(pattern):
    return lambda s: pattern in ast.unparse(s).split("\n")[0]


FILES1 = ["plt1/Level_0/Cell_D_00001", "plt1/Level_0/Cell_D_00000", "plt1/Level_0/Cell_D_00001"]
FILES2_SAME = ["plt2/Level_0/Cell_D_00001", "plt2/Level_0/Cell_D_00000", "plt2/Level_0/Cell_D_00001"]
FILES2_OTHER = ["plt2/Level_0/Cell_D_00000", "plt2/Level_0/Cell_D_00001", "plt2/Level_0/Cell_D_00001"]


def cooker(tag, files, off):
    return Record("amr_kitchen.plotfile_cooker.PlotfileCooker", cells=[{"files": list(files), "offsets": list(off)}], limit_level=0,
                  pfile=f"plt{tag}", ndims=3)


class ModeDecision(FragmentTask):
    """validate_combine_input, the statements choosing the combination mode.  'byfile' pairs the j-th FAB of a binary file of
    the first plotfile with the j-th FAB of the same-named file of the second and gives the j-th written offset to the j-th
    box (in box order) of that file, so it may only be chosen when (a) every box lies in same-named files in both plotfiles
    and (b) within every file the boxes' offsets increase with the box number in BOTH plotfiles."""
    prop = "C06"
    reach = "S"
    qual = CB + "validate_combine_input"
    first = staticmethod(_src("output['mode'] = 'byfile'"))
    last = staticmethod(lambda s: isinstance(s, ast.For) and "limit_level" in ast.unparse(s.iter))

    def __init__(self, same_files):
        self.same = same_files
        self.name = f"validate_combine_input.mode[{'same' if same_files else 'different'} file assignment]"

    def setup(self, ex):
        ctx = ex.ctx
        o1 = [z3.Int(f"off1_{i}") for i in range(3)]
        o2 = [z3.Int(f"off2_{i}") for i in range(3)]
        ctx.assume(z3.And(*[x >= 0 for x in o1 + o2]))
        p1, p2 = cooker(1, FILES1, o1), cooker(2, FILES2_SAME if self.same else FILES2_OTHER, o2)
        return {"frame": {"args": (p1, p2), "kwargs": {}, "output": {}}, "o1": o1, "o2": o2}

    def post(self, ex, inp, out):
        ctx = ex.ctx
        ctx.oblige("raises-nothing", out.kind == "ret", "P", note=str(out.exc) if out.kind != "ret" else "")
        if out.kind != "ret":
            return
        mode = out.value["output"].get("mode")
        ctx.oblige("post.mode-is-a-known-mode", mode in ("byfile", "bybox", "byoffset"), "P", note=str(mode))
        if mode != "byfile":
            return        # the box-by-box modes read every box at its recorded place: always sound
        ctx.oblige("post.byfile-only-when-boxes-are-in-same-named-files", self.same, "P")
        o1, o2 = inp["o1"], inp["o2"]
        # boxes 0 and 2 share a file (box order 0 < 2)
        ctx.oblige("post.byfile-only-when-offsets-increase-with-the-box-number-in-the-first-plotfile", o1[0] <= o1[2], "P")
        ctx.oblige("post.byfile-only-when-offsets-increase-with-the-box-number-in-the-second-plotfile", o2[0] <= o2[2], "P")


class OffsetMap(Task):
    """map_bfile_offsets(lv): one entry per distinct binary file in np.unique order, holding the numbers of the boxes stored in
    that file in increasing order; every box in exactly one entry."""
    prop = "C06"
    reach = "S"
    qual = PC + "map_bfile_offsets"

    def __init__(self):
        self.name = "map_bfile_offsets"

    def setup(self, ex):
        off = [z3.Int(f"off{i}") for i in range(3)]
        return {"self": cooker(1, FILES1, off), "args": [0]}

    def post(self, ex, inp, out):
        ctx = ex.ctx
        ctx.oblige("raises-nothing", out.kind == "ret", "P", note=str(out.exc) if out.kind != "ret" else "")
        if out.kind != "ret":
            return
        got = [[as_const(x) if is_z3(x) else x for x in ex.as_iterable(e)] for e in ex.as_iterable(out.value)]
        ctx.oblige("post.boxes-of-each-file-in-unique-order", got == [[1], [0, 2]], "P", note=str(got))


class MatchedOffsets(Task):
    """by_matched_offsets_output: the t-th read position handed to the worker for file f is, in BOTH plotfiles, the recorded
    (file, offset) of box map[f][t] - the same box number on both sides, in the order the returned offsets are stored by."""
    prop = "C06"
    reach = "S"
    qual = PC + "by_matched_offsets_output"

    def __init__(self):
        self.name = "by_matched_offsets_output"

    def setup(self, ex):
        o1 = [z3.Int(f"off1_{i}") for i in range(3)]
        o2 = [z3.Int(f"off2_{i}") for i in range(3)]
        p1, p2 = cooker(1, FILES1, o1), cooker(2, FILES2_OTHER, o2)
        self.inline = (PC + "map_bfile_offsets",)
        return {"self": p1, "args": [p2, 0, "out"], "kwargs": {"vidxs1": Opaque("v1", "obj"), "vidxs2": Opaque("v2", "obj")}, "o1": o1, "o2": o2}

    def post(self, ex, inp, out):
        ctx = ex.ctx
        ctx.oblige("raises-nothing", out.kind == "ret", "P", note=str(out.exc) if out.kind != "ret" else "")
        if out.kind != "ret":
            return
        calls = ex.as_iterable(out.value)
        ok = isinstance(calls, list) and len(calls) == 2 and all(isinstance(c, dict) for c in calls)
        ctx.structure("post.one-task-per-distinct-file", ok)
        if not ok:
            return
        from pyvc.ops import compare
        from pyvc.libos import os_getcwd, join2
        cwd = os_getcwd(ex, [], {})
        o1, o2 = inp["o1"], inp["o2"]
        for f, (name, ids) in enumerate((("Cell_D_00000", [1]), ("Cell_D_00001", [0, 2]))):
            c = calls[f]
            ctx.oblige(f"post.task{f}.first-file", compare(ex, "Eq", c.get("bfile_r1"), join2(ex, cwd, "plt1/Level_0/" + name)), "P")
            ctx.oblige(f"post.task{f}.output-file", compare(ex, "Eq", c.get("bfile_w"), join2(ex, cwd, "out/Level_0/" + name)), "P")
            r1, r2, f2 = ex.as_iterable(c.get("offst_r1")), ex.as_iterable(c.get("offst_r2")), ex.as_iterable(c.get("bfile_r2"))
            okn = len(r1) == len(ids) and len(r2) == len(ids) and len(f2) == len(ids)
            ctx.oblige(f"post.task{f}.one-position-per-box", okn, "P")
            if not okn:
                continue
            for t, b in enumerate(ids):
                ctx.oblige(f"post.task{f}[{t}].first-offset-of-its-box", veq(ctx, r1[t], o1[b]), "P")
                ctx.oblige(f"post.task{f}[{t}].second-offset-of-its-box", veq(ctx, r2[t], o2[b]), "P")
                ctx.oblige(f"post.task{f}[{t}].second-file-of-its-box", compare(ex, "Eq", f2[t], join2(ex, cwd, FILES2_OTHER[b])), "P")


class BinfileOutput(Task):
    """by_binfile_output ('byfile' mode, i.e. under the mode decision's guarantee that every box lies in same-named files): one
    task per distinct file of the first plotfile, pairing it with the second plotfile's file of a box stored in it, writing
    the same name under the output level directory."""
    prop = "C06"
    reach = "S"
    qual = PC + "by_binfile_output"

    def __init__(self):
        self.name = "by_binfile_output"

    def setup(self, ex):
        o1 = [z3.Int(f"off1_{i}") for i in range(3)]
        o2 = [z3.Int(f"off2_{i}") for i in range(3)]
        p1, p2 = cooker(1, FILES1, o1), cooker(2, FILES2_SAME, o2)
        return {"self": p1, "args": [p2, 0, "out"], "kwargs": {"vidxs1": Opaque("v1", "obj"), "vidxs2": Opaque("v2", "obj")}}

    def post(self, ex, inp, out):
        ctx = ex.ctx
        ctx.oblige("raises-nothing", out.kind == "ret", "P", note=str(out.exc) if out.kind != "ret" else "")
        if out.kind != "ret":
            return
        calls = ex.as_iterable(out.value)
        ok = isinstance(calls, list) and len(calls) == 2 and all(isinstance(c, dict) for c in calls)
        ctx.structure("post.one-task-per-distinct-file", ok)
        if not ok:
            return
        from pyvc.ops import compare
        from pyvc.libos import os_getcwd, join2
        cwd = os_getcwd(ex, [], {})
        for f, name in enumerate(("Cell_D_00000", "Cell_D_00001")):
            c = calls[f]
            ctx.oblige(f"post.task{f}.first-file", compare(ex, "Eq", c.get("bfile_r1"), join2(ex, cwd, "plt1/Level_0/" + name)), "P")
            ctx.oblige(f"post.task{f}.second-file-is-the-same-named-file", compare(ex, "Eq", c.get("bfile_r2"), join2(ex, cwd, "plt2/Level_0/" + name)), "P")
            ctx.oblige(f"post.task{f}.output-file", compare(ex, "Eq", c.get("bfile_w"), join2(ex, cwd, "out/Level_0/" + name)), "P")
            ctx.oblige(f"post.task{f}.selections-passed-through", c.get("vidxs1") is inp["kwargs"]["vidxs1"] and c.get("vidxs2") is inp["kwargs"]["vidxs2"], "P")


class CombineScatter(FragmentTask):
    """The loop of combine() storing the offsets the workers returned: the t-th offset of the task of file f goes to box
    map_bfile_offsets(lv)[f][t] - the map the task generators build their per-box lists from."""
    prop = "C06"
    reach = "S"
    qual = CB + "combine"
    first = staticmethod(_src("for file_idxs, offsets in zip(pck1.map_bfile_offsets(lv), new_offsets)"))
    last = first
    inline = (PC + "map_bfile_offsets",)

    def __init__(self):
        self.name = "combine.offsets-stored-per-box"

    def setup(self, ex):
        off = [z3.Int(f"off{i}") for i in range(3)]
        new = [[z3.Int("new_f0_0")], [z3.Int("new_f1_0"), z3.Int("new_f1_1")]]
        frame = {"pck1": cooker(1, FILES1, off), "lv": 0, "new_offsets": [list(new[0]), list(new[1])],
                 "mapped_offsets": Vec([z3.Int("junk0"), z3.Int("junk1"), z3.Int("junk2")], "array")}
        return {"frame": frame, "new": new}

    def post(self, ex, inp, out):
        ctx = ex.ctx
        ctx.oblige("raises-nothing", out.kind == "ret", "P", note=str(out.exc) if out.kind != "ret" else "")
        if out.kind != "ret":
            return
        from pyvc.ops import as_ndarray
        mo = as_ndarray(out.value["mapped_offsets"])
        new = inp["new"]
        for box, want in ((1, new[0][0]), (0, new[1][0]), (2, new[1][1])):
            ctx.oblige(f"post.box-{box}-gets-the-offset-written-for-it", to_z3(mo.elem((box,))) == want, "P")


class CombineLevel(FragmentTask):
    """The body of the level loop of combine() as a whole in the box-by-box modes, from the mode dispatch to the loop storing the
    new offsets, with the task generator and the index map executed as part of it (real code; skeleton: 3 boxes, two files in
    each plotfile, the second plotfile assigning its boxes to files differently; symbolic distinct offsets).  The worker is its
    contract: for its t-th entry it reads the FAB at offst_r1[t] of bfile_r1 and the FAB at offst_r2[t] of bfile_r2[t] and
    returns, at position t, the offset it wrote the merged FAB at.  Afterwards every box b is served by exactly one entry - with
    b's file and offset in the FIRST plotfile and b's file and offset in the SECOND - and holds the offset returned for it."""
    prop = "C06"
    reach = "S"
    qual = CB + "combine"
    first = staticmethod(_src("if cbmode == "))
    last = staticmethod(_src("for file_idxs, offsets in zip(pck1.map_bfile_offsets(lv), new_offsets)"))
    inline = (PC + "map_bfile_offsets", PC + "by_matched_offsets_output", PC + "by_binfile_output")

    def __init__(self, mode, short=False):
        """short: the worker of a file with several boxes returns one offset FEWER than it was given boxes (what the workers do
        when an input binary file ends early): the level body must not return normally"""
        self.mode, self.short = mode, short
        self.name = f"combine.level-body[{mode}" + (", a worker comes back with fewer offsets than boxes]" if short else "]")

    def setup(self, ex):
        ctx = ex.ctx
        o1 = [z3.Int(f"off1_{i}") for i in range(3)]
        o2 = [z3.Int(f"off2_{i}") for i in range(3)]
        ctx.assume(z3.And(z3.Distinct(*o1), z3.Distinct(*o2), *[x >= 0 for x in o1 + o2]))
        files2 = FILES2_OTHER if self.mode == "bybox" else FILES2_SAME
        p1, p2 = cooker(1, FILES1, o1), cooker(2, files2, o2)
        p1.attrs["boxes"] = [[None, None, None]]
        NEW = z3.Function("NEWOFF", I, I, I)
        calls = []

        def worker(ex_, args, kw):
            call = args[0]
            k = len(calls)
            a1 = ex_.as_iterable(call.get("offst_r1"))
            a2 = ex_.as_iterable(call.get("offst_r2"))
            r2 = call.get("bfile_r2")
            r2 = list(ex_.as_iterable(r2)) if not isinstance(r2, (str,)) and not hasattr(r2, "parts") else [r2] * len(a1)
            calls.append({"r1": call.get("bfile_r1"), "r2": r2, "w": call.get("bfile_w"), "o1": list(a1), "o2": list(a2)})
            if not (len(a1) == len(a2) == len(r2)):
                raise SymRaise("ValueError", "per-box lists of different lengths")
            if self.short and len(a1) >= 2:
                return [NEW(k, t) for t in range(len(a1) - 1)]
            return [NEW(k, t) for t in range(len(a1))]
        self.contracts = {CB + "parallel_combine_by_boxes_offsets": worker, CB + "parallel_combine_by_binfile_offsets": worker}
        pool = Record("Pool")
        pool.held = True
        frame = {"pck1": p1, "pck2": p2, "lv": 0, "cbmode": self.mode, "pool": pool, "pltout": "out", "vidxs1": Opaque("v1", "obj"),
                 "vidxs2": Opaque("v2", "obj")}
        return {"frame": frame, "o1": o1, "o2": o2, "files2": files2, "NEW": NEW, "calls": calls}

    def post(self, ex, inp, out):
        ctx = ex.ctx
        if self.short:
            ctx.oblige("fault.a-short-worker-result-does-not-pass-for-a-level", out.kind == "exc", "P")
            return
        ctx.oblige("raises-nothing", out.kind == "ret", "P", note=str(out.exc) if out.kind != "ret" else "")
        if out.kind != "ret":
            return
        from pyvc.ops import as_ndarray, compare
        from pyvc.libos import os_getcwd, join2
        cwd = os_getcwd(ex, [], {})
        mo = as_ndarray(out.value["mapped_offsets"])
        calls = inp["calls"]
        ws = [str(c["w"]) for c in calls]
        ctx.oblige("post.no-output-file-written-by-two-tasks", len(set(ws)) == len(ws), "P", note=str(ws))
        for b in range(3):
            f1, f2 = join2(ex, cwd, FILES1[b]), join2(ex, cwd, inp["files2"][b])
            wfile = join2(ex, join2(ex, join2(ex, cwd, "out"), "Level_0"), FILES1[b].split("/")[-1])
            hits = []
            for k, c in enumerate(calls):
                if not (compare(ex, "Eq", c["r1"], f1) is True and compare(ex, "Eq", c["w"], wfile) is True):
                    continue
                for t in range(len(c["o1"])):
                    if compare(ex, "Eq", c["r2"][t], f2) is not True:
                        continue
                    hits.append((zand(to_z3(c["o1"][t]) == inp["o1"][b], to_z3(c["o2"][t]) == inp["o2"][b]), inp["NEW"](k, t)))
            conds = [to_z3(h) for h, _ in hits]
            ctx.oblige(f"post.box-{b}-is-served-by-exactly-one-entry-reading-its-own-fab-in-both-plotfiles",
                       z3.PbEq([(c, 1) for c in conds], 1) if conds else False, "P")
            ctx.oblige(f"post.box-{b}-gets-the-offset-written-for-it",
                       zor(*[zand(h, to_z3(mo.elem((b,))) == n) for h, n in hits]) if hits else False, "P")


class FieldIndices(FragmentTask):
    """combine(), the statements turning the selected names into component indices: vidxs1[t] is the component of vars1[t] in
    the first plotfile and vidxs2[t] that of vars2[t] in the second, in the order of the name lists - the order the output
    Header names the fields in (cbvars = vars1 + vars2) and the workers write the components in."""
    prop = "C06"
    reach = "S"
    qual = CB + "combine"
    first = staticmethod(FragmentTask.assigns("vidxs1"))
    last = staticmethod(FragmentTask.assigns("vidxs2"))
    unordered = True

    def __init__(self, v1, v2):
        self.v1, self.v2 = list(v1), list(v2)
        self.name = f"combine.field-indices[{','.join(v1)}|{','.join(v2)}]"

    def setup(self, ex):
        f1 = {"alpha": 0, "beta": 1, "gamma": 2}
        f2 = {"sigma": 0, "tau": 1}
        p1 = Record("amr_kitchen.plotfile_cooker.PlotfileCooker", fields=dict(f1))
        p2 = Record("amr_kitchen.plotfile_cooker.PlotfileCooker", fields=dict(f2))
        return {"frame": {"pck1": p1, "pck2": p2, "vars1": list(self.v1), "vars2": list(self.v2)}, "f1": f1, "f2": f2}

    def post(self, ex, inp, out):
        ctx = ex.ctx
        ctx.oblige("raises-nothing", out.kind == "ret", "P", note=str(out.exc) if out.kind != "ret" else "")
        if out.kind != "ret":
            return
        g1, g2 = out.value.get("vidxs1"), out.value.get("vidxs2")
        e1, e2 = [inp["f1"][v] for v in self.v1], [inp["f2"][v] for v in self.v2]
        ctx.oblige("post.first-indices-follow-the-requested-names", list(g1) == e1 if isinstance(g1, (list, tuple)) else False, "P", note=f"{g1} vs {e1}")
        ctx.oblige("post.second-indices-follow-the-requested-names", list(g2) == e2 if isinstance(g2, (list, tuple)) else False, "P", note=f"{g2} vs {e2}")


class SameMesh(Task):
    """PlotfileCooker.__eq__ (combine's compatibility test): True only when both readers expose the same number of levels and,
    on every level, np.allclose physical box bounds AND np.allclose index ranges - of the OTHER reader, box by box; so two
    plotfiles whose boxes differ in index range (same physical decomposition at another resolution) or in physical bounds are
    refused.  Levels a skeleton parameter (2), boxes per level symbolic; np.allclose by its elementwise contract."""
    prop = "C06"
    reach = "S"
    qual = PC + "__eq__"

    def __init__(self, la=1, lb=1):
        self.la, self.lb = la, lb
        self.name = f"PlotfileCooker.__eq__[limits={la},{lb}]"

    def setup(self, ex):
        ctx = ex.ctx
        R = z3.RealSort()
        nl = 2
        NB = [z3.Int(f"nb{lv}") for lv in range(nl)]
        for n in NB:
            ctx.assume(n >= 1)
        mk = lambda tag: dict(BX=z3.Function(f"BX{tag}", I, I, I, I, R), IX=z3.Function(f"IX{tag}", I, I, I, I, I))
        A, Bm = mk("a"), mk("b")

        def cooker(m, lim):
            boxes = [NDArray([NB[lv], 3, 2], lambda ix, lv=lv: m["BX"](lv, *[to_z3(i) for i in ix]), "f8") for lv in range(nl)]
            cells = [{"indexes": NDArray([NB[lv], 2, 3], lambda ix, lv=lv: m["IX"](lv, *[to_z3(i) for i in ix]), "int")} for lv in range(nl)]
            return Record("amr_kitchen.plotfile_cooker.PlotfileCooker", limit_level=lim, boxes=boxes, cells=cells)
        la, lb = self.la, self.lb
        return {"self": cooker(A, la), "args": [cooker(Bm, lb)], "A": A, "B": Bm, "NB": NB, "la": la, "lb": lb}

    def post(self, ex, inp, out):
        ctx = ex.ctx
        ctx.oblige("raises-nothing", out.kind == "ret", "P", note=str(out.exc) if out.kind != "ret" else "")
        if out.kind != "ret":
            return
        v = out.value
        if v is not True and not (is_z3(v) and z3.is_true(z3.simplify(v))):
            if v is False:
                return        # refusing is always safe for combine
            ctx.structure("post.returns-a-boolean", isinstance(v, bool) or is_z3(v))
            return
        A, Bm, NB, la, lb = inp["A"], inp["B"], inp["NB"], inp["la"], inp["lb"]
        ctx.oblige("post.equal-only-with-the-same-number-of-levels", la == lb, "P")
        lv, b, s_, d = ctx.fresh("lv"), ctx.fresh("b"), ctx.fresh("s"), ctx.fresh("d")
        for L in range(2):
            if la < L:
                continue
            inr = z3.And(b >= 0, b < NB[L], s_ >= 0, s_ < 2, d >= 0, d < 3)
            close = lambda x, y: z3.If(x - y >= 0, x - y, y - x) <= to_real(1e-8) + to_real(1e-5) * z3.If(y >= 0, y, -y)
            ctx.oblige(f"post.equal-only-with-close-index-ranges-of-the-other-reader[level {L}]",
                       z3.Implies(inr, close(to_real(A["IX"](L, b, s_, d)), to_real(Bm["IX"](L, b, s_, d)))), "P")
            ctx.oblige(f"post.equal-only-with-close-physical-bounds-of-the-other-reader[level {L}]",
                       z3.Implies(inr, close(A["BX"](L, b, d, s_), Bm["BX"](L, b, d, s_))), "P")


def parent_tasks(tier):
    from props.scatter_u import combine_scatter
    return [combine_scatter(), ModeDecision(True), ModeDecision(False), OffsetMap(), MatchedOffsets(), BinfileOutput(), CombineScatter(), CombineLevel("bybox"), CombineLevel("byoffset"), CombineLevel("bybox", short=True),
            SameMesh(1, 1), SameMesh(0, 0), SameMesh(1, 0), FieldIndices(["gamma", "alpha"], ["tau"]), FieldIndices(["beta"], ["tau", "sigma"]), FieldIndices(["alpha", "beta", "gamma"], ["sigma", "tau"])]


def parent_canaries():
    f = "amr_kitchen/combine/combine.py"
    g = "amr_kitchen/plotfile_cooker.py"
    return [("mode: byfile kept when both plotfiles store the boxes in the same (non increasing) order",
             [(f, "                if (np.any(np.diff(offsets_1) < 0) or\n                    np.any(np.diff(offsets_2) < 0)):",
               "                if not np.array_equal(np.argsort(offsets_1),\n                                      np.argsort(offsets_2)):")],
             ["validate_combine_input.mode[same file assignment]"]),
            ("matched offsets: second plotfile's offsets taken in file order of the second plotfile",
             [(g, "            offsets_bf2 = np.array(other.cells[lv]['offsets'])[box_indices]\n            # Path to the combined binary files (for Windows)\n            bfile_r1 = os.path.join(os.getcwd(), bf1)\n            bfile_r2 = [",
               "            offsets_bf2 = np.array(other.cells[lv]['offsets'])[box_indices[::-1]]\n            # Path to the combined binary files (for Windows)\n            bfile_r1 = os.path.join(os.getcwd(), bf1)\n            bfile_r2 = [")],
             ["by_matched_offsets_output"]),
            ("combine: component indices in plotfile order instead of the requested order",
             [(f, "    vidxs1 = [pck1.fields[v] for v in vars1]", "    vidxs1 = [idx for fld, idx in pck1.fields.items() if fld in vars1]")],
             ["combine.field-indices[gamma,alpha|tau]"]),
            ("__eq__: index ranges compared with themselves",
             [(g, "            if not np.allclose(self.cells[lv]['indexes'],\n                               other.cells[lv]['indexes']):",
               "            if not np.allclose(self.cells[lv]['indexes'],\n                               self.cells[lv]['indexes']):")],
             ["PlotfileCooker.__eq__[limits=1,1]"])]


def tasks(tier):
    return parent_tasks(tier)


def canaries(tier):
    return parent_canaries()
