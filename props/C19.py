"""C19 - point queries at interior cell centres return the stored cell value."""
from props.C01 import Reader, ASSUMPTIONS as A01, TRUSTED as T01

ASSUMPTIONS = A01 + ["the box matching loop and the finest-level choice of LevelDataSelector.__call__ are proved on one two-level skeleton "
                     "(a fine box across the face shared by two coarse boxes, concrete index ranges, symbolic origin and cell sizes, "
                     "every interior fine cell) and otherwise covered by the bounded run-time layer; the between-boxes branch is "
                     "outside the property; the proof layer covers the single-box branch (which box is read, index conversion of the point; "
                     "fragment of __call__ extracted mechanically, number of levels a skeleton parameter, reals for floats) and "
                     "the box read the query delegates to (C01 readers)",
                     "scipy.ndimage.map_coordinates at integer coordinates reproduces the sample (checked to 1e-9 relative)"]
TRUSTED = T01 + ["scipy.ndimage.map_coordinates (opaque)"]


def tasks(tier):
    out = []
    for fn, form in (("mp_read_box_single_field", "int"), ("mp_read_box_index_field", "list2"), ("mp_read_box_slice_field", "slice:::")):
        r = Reader(fn, 3, form)
        r.prop = "C19"
        out.append(r)
    from props.C19_api import api_tasks
    return out + api_tasks(tier)


def canaries(tier):
    from props.C19_api import api_canaries
    return api_canaries()


SCENARIO_TIMEOUT = 300


def scenarios(tier, seed):
    n = 6 if tier == "quick" else 10
    return [{"kind": "point", "seed": seed * 1000 + 800 + i, "nf": [3, 1, 4][i % 3], "nlevels": 1 + i % 3, "nfiles": 1 + i % 3,
             "layout": "shuffled", "geo_lo": [[1., 2., 3.], [0., 0., 0.], [-4.5, 10.25, 0.125]][i % 3],
             "dx0": [[0.1, 0.2, 0.4], [1., 1., 1.], [0.5, 0.125, 0.25]][i % 3], "npoints": 30 if tier == "quick" else 60}
            for i in range(n)] + \
        [{"kind": "point", "seed": seed * 1000 + 850, "nf": 2, "nfiles": 2, "layout": "shuffled", "n0": [16, 8, 8], "geo_lo": [-3., 1.5, 10.],
          "dx0": [0.5, 0.25, 0.125], "npoints": 8,      # a fine box lying across the face shared by two coarse boxes
          "levels": [[[[0, 0, 0], [7, 7, 7]], [[8, 0, 0], [15, 7, 7]]], [[[8, 4, 4], [23, 11, 11]]]]},
         # boxes with the SAME index bounds at two levels (index ranges are per level), one field selection kept for all queries
         {"kind": "point", "seed": seed * 1000 + 851, "nf": 1, "nfiles": 1, "layout": "monotone", "n0": [16, 16, 8], "geo_lo": [0.5, -1., 2.],
          "dx0": [0.5, 0.25, 0.125], "npoints": 60,
          "levels": [[[[0, 0, 0], [7, 7, 7]], [[8, 0, 0], [15, 7, 7]], [[0, 8, 0], [7, 15, 7]], [[8, 8, 0], [15, 15, 7]]],
                     [[[0, 0, 0], [7, 7, 7]], [[8, 0, 0], [15, 7, 7]]]]}]


def run_scenario(p, wd):
    from harness.rt_reader import run_point_scenario
    return run_point_scenario(p, wd)
