"""Taster.taste_box_coordinates under contract (C03): the physical bounds of every box agree with its index range."""
import z3
from pyvc.vals import *  # noqa
from pyvc.task import Task
from pyvc.loops import LoopSpec

TA = "amr_kitchen.taste.taste.Taster."
I, R = z3.IntSort(), z3.RealSort()


def close(x, y):
    d = x - y
    ad = z3.If(d >= 0, d, -d)
    ay = z3.If(y >= 0, y, -y)
    return ad <= to_real(1e-8) + to_real(1e-5) * ay


class BoxCoordinates(Task):
    """taste_box_coordinates on one level with any number of boxes (real arithmetic; np.isclose = |a-b| <= 1e-8 + 1e-5|b|).
    With lo*(i,d) = geo_low[d] + ilo(i,d)*dx[d] and hi*(i,d) = geo_low[d] + (ihi(i,d)+1)*dx[d] the bounds the index range
    stands for (cell sizes of THIS level and dimension, origin of the domain):
      returns normally  =>  every recorded bound of every box is np.isclose to lo* / hi*      (nothing wrong is accepted)
      reports an error  =>  some recorded bound of some box is not np.isclose to lo* / hi*    (nothing right is refused)"""
    reach = "U"
    qual = TA + "taste_box_coordinates"

    def __init__(self, prop, nd):
        self.prop, self.nd = prop, nd
        self.name = f"taste_box_coordinates[nd={nd}]"

    def setup(self, ex):
        ctx = ex.ctx
        nd = self.nd
        n = z3.Int("nboxes")
        ctx.assume(n >= 0)
        glo = [z3.Real(f"glo{d}") for d in range(nd)]
        ghi = [z3.Real(f"ghi{d}") for d in range(nd)]
        dx = [z3.Real(f"dx{d}") for d in range(nd)]
        N = [z3.Int(f"N{d}") for d in range(nd)]
        for d in range(nd):
            ctx.assume(z3.And(dx[d] > 0, N[d] >= 1, ghi[d] - glo[d] == to_real(N[d]) * dx[d]))
        ILO, IHI = z3.Function("ILO", I, I, I), z3.Function("IHI", I, I, I)
        BLO, BHI = z3.Function("BLO", I, I, R), z3.Function("BHI", I, I, R)
        t = z3.Int("t_")
        ctx.assume(z3.ForAll([t], z3.Implies(z3.And(t >= 0, t < n), z3.And(*[z3.And(ILO(t, d) >= 0, ILO(t, d) <= IHI(t, d), IHI(t, d) < N[d])
                                                                                for d in range(nd)])), patterns=[ILO(t, 0)]))
        ctx.ghost["linstep_hints"] = list(dx)
        boxes = [SymSeq(n, lambda i: [[BLO(to_z3(i), d), BHI(to_z3(i), d)] for d in range(nd)])]
        cells = [{"indexes": SymSeq(n, lambda i: [[ILO(to_z3(i), d) for d in range(nd)], [IHI(to_z3(i), d) for d in range(nd)]])}]
        self_ = Record("amr_kitchen.taste.taste.Taster", v=0, limit_level=0, ndims=nd, geo_low=list(glo), geo_high=list(ghi),
                       dx=[list(dx)], grid_sizes=[Vec(N, "array")], boxes=boxes, cells=cells)

        def raise_error(ex_, args, kw):
            raise SymRaise("TastesBadError", "reported")
        self.contracts = {TA + "raise_error": raise_error}
        want_lo = lambda i, d: glo[d] + to_real(ILO(i, d)) * dx[d]
        want_hi = lambda i, d: glo[d] + to_real(IHI(i, d) + 1) * dx[d]
        good = lambda i: z3.And(*[z3.And(close(want_lo(i, d), BLO(i, d)), close(want_hi(i, d), BHI(i, d))) for d in range(nd)])

        def template(ex_, fr, k, entry):
            k3 = to_z3(k)
            inv = z3.ForAll([t], z3.Implies(z3.And(t >= 0, t < k3), good(t)), patterns=[BLO(t, 0)])
            return {"__assume__": [z3.And(k3 >= 0, k3 <= n), inv], "__assert__": [("in-range", k3 <= n), ("boxes-so-far-agree", inv)]}
        # loops of the method: #0 levels (concrete), #1 dimensions of the grid (concrete), #2 boxes, #3 dimensions (concrete)
        self.loopspecs = {(self.qual, 2): LoopSpec(template)}
        return {"self": self_, "args": [], "n": n, "good": good}

    def post(self, ex, inp, out):
        ctx = ex.ctx
        n, good = inp["n"], inp["good"]
        i = ctx.fresh("i")
        if out.kind == "ret":
            ctx.oblige("post.accepted-means-every-box-agrees-with-its-index-range", z3.Implies(z3.And(i >= 0, i < n), good(i)), "P")
            return
        ctx.oblige("post.only-reports-coordinate-errors", out.exc.etype == "TastesBadError", "P", note=str(out.exc))
        k = [c for c in ctx.pc if False]
        # the iteration that raised is the loop counter of this path: some box disagrees
        q = z3.Int("qbox")
        ctx.oblige("post.reported-means-some-box-disagrees", z3.Exists([q], z3.And(q >= 0, q < n, z3.Not(good(q)))), "P")


def coord_tasks(prop):
    return [BoxCoordinates(prop, 3), BoxCoordinates(prop, 2)]


def coord_canaries():
    f = "amr_kitchen/taste/taste.py"
    return [("box coordinates: x cell size used in every dimension",
             [(f, "                    box_hi = grids[dim][idx[1][dim]] + self.dx[lv][dim]/2", "                    box_hi = grids[dim][idx[1][dim]] + self.dx[lv][0]/2")],
             ["taste_box_coordinates[nd=3]"]),
            ("box coordinates: upper bounds not compared",
             [(f, "                    if ~np.isclose(box_hi, box[dim][1]):", "                    if False:")],
             ["taste_box_coordinates[nd=2]"])]


def tasks(tier):
    return coord_tasks("CXX")


def canaries(tier):
    return coord_canaries()
