"""C05 - colander output holds exactly the kept fields and levels, bit for bit."""
import z3
from pyvc.vals import *  # noqa
from pyvc.task import Task
from pyvc.vc import veq
from pyvc.loops import LoopSpec, Any
from pyvc.libfile import RFile, WFile, f_size, hdrlen
from contracts.common import sym_path, Fab, fab_facts, size_of
from props.C01 import ASSUMPTIONS as A01, TRUSTED as T01

CO = "amr_kitchen.colander.colander."
I = z3.IntSort()
ASSUMPTIONS = A01 + [
    "input binary files hold a canonical FAB (hdrline text) of the level-header index range and nvars components at "
    "every recorded offset (OnDisk hypothesis); input and output paths denote different files",
    "header.replace(f'{nvars}\\n', f'{nkept}\\n') on canonical header text yields hdrline(lo,hi,nkept) "
    "(string-level lemma, see parsers obligations)",
    "Colander.strain parent: the per-file task construction and the scatter of the returned offsets are proved on a bounded "
    "skeleton (3 boxes over 2 interleaved files, concrete file names, symbolic offsets and index ranges); the level loop and "
    "header rewriting are covered by the header round-trip tasks (C14) and the run-time layer",
]
TRUSTED = T01 + ["numpy: flatten(order='F').tobytes() == F-order serialisation (T-SER)", "pool.map ordered (assumed)"]


class StrainWorker(Task):
    """parallel_strain_2d/3d: for every box of the task, in task order, the output file receives hdrline(lo,hi,nkept)
    followed by the F-order bytes of the kept components; returned offsets are the header positions."""
    prop = "C05"
    reach = "U"

    def __init__(self, nd):
        self.nd = nd
        self.fn = f"parallel_strain_{nd}d"
        self.qual = CO + self.fn
        self.name = f"{self.fn}"

    def setup(self, ex):
        ctx = ex.ctx
        nd = self.nd
        ctx.ghost["ndims"] = nd
        pr, Fr = sym_path(ctx, "Fr")
        pw, Fw = sym_path(ctx, "Fw", exists=False)
        ctx.assume(Fr != Fw)
        m, nvars, nk = z3.Ints("m nvars nk")
        OFF = z3.Function("OFF", I, I)
        K = z3.Function("K", I, I)
        OUT = z3.Function("OUTPOS", I, I)
        CELL = z3.Function("CELL", I, I)
        t = z3.Int("t_")
        ctx.assume(z3.And(m >= 0, nvars >= 1, nk >= 0))
        ctx.assume(z3.ForAll([t], z3.Implies(z3.And(t >= 0, t < nk), z3.And(K(t) >= 0, K(t) < nvars))))
        ctx.assume(OUT(0) == 0)

        def fab(j):
            return Fab(ctx, Fr, OFF(to_z3(j)), nd, nvars)

        def facts(j):
            j = to_z3(j)
            fb = fab(j)
            return z3.Implies(z3.And(j >= 0, j < m), z3.And(
                *[to_z3(f) for f in fab_facts(fb, True)],
                OUT(j + 1) == OUT(j) + hdrlen(fb.lo, fb.hi, nk) + 8 * size_of(ctx, list(fb.shape) + [nk])))
        kept = SymSeq(nk, lambda i: K(to_z3(i)), "list")
        args = {"bfile_r": pr, "bfile_w": pw, "nvars": nvars, "kept_fields": kept,
                "box_indexes": SymSeq(m, lambda j: [Vec(fab(j).lo), Vec(fab(j).hi)], "ndarray"),
                "offsets_r": SymSeq(m, lambda j: OFF(to_z3(j)), "ndarray"),
                "cell_indexes": SymSeq(m, lambda j: CELL(to_z3(j)), "ndarray"), "ncells": z3.Int("ncells")}

        def rec(j):
            fb = fab(j)
            arr = NDArray(list(fb.shape) + [nk], lambda idx: fb.value(idx[:-1], K(to_z3(idx[-1]))))
            return [("hdr", (tuple(fb.lo), tuple(fb.hi), nk), None), ("ser", arr, "F")]

        def wtemplate(k):
            wf = WFile(pw, Fw)
            wf.nrec, wf.rec, wf.recstart, wf.rec_size = k, rec, (lambda j: OUT(to_z3(j))), 2
            wf.pos = OUT(to_z3(k))
            return wf

        def anyr(c):
            r = RFile(pr, Fr)
            r.pos = c.fresh("rpos")
            c.add_pc(r.pos >= 0)
            return r

        def template(ex_, fr, k, entry):
            k3 = to_z3(k)
            return {"offsets": SymSeq(k, lambda j: OUT(to_z3(j))), "bfw": wtemplate(k), "bfr": Any(anyr),
                    "__assume__": [facts(k3)]}
        self.loopspecs = {(self.qual, 0): LoopSpec(template)}
        return {"args": [args], "m": m, "OUT": OUT, "wtemplate": wtemplate, "Fw": Fw, "Fr": Fr}

    def post(self, ex, inp, out):
        ctx = ex.ctx
        ctx.oblige("raises-nothing", out.kind == "ret", "P", note=str(out.exc) if out.kind != "ret" else "")
        if out.kind != "ret":
            return
        m, OUT = inp["m"], inp["OUT"]
        ctx.oblige("post.offsets", veq(ctx, out.value, SymSeq(m, lambda j: OUT(to_z3(j)))), "P")
        wfs = ctx.ghost.get("wfiles", [])
        ctx.oblige("frame.writes-only-output", len(wfs) == 1 and wfs[0].F is inp["Fw"], "P")
        if len(wfs) == 1:
            exp = inp["wtemplate"](m)
            exp.closed = True
            ctx.oblige("post.output-file-content", veq(ctx, wfs[0], exp), "P")
        reads = {str(e[1]) for e in ctx.events if e[0] == "open-r"}
        ctx.oblige("frame.reads-only-input", reads <= {"<path:Fr>"}, "P", note=str(reads))


def _tasks0(tier):
    from props.colander_parents import parent_tasks
    # the headers colander writes, re-read by the real parser (skeletons; kept fields reordered, level limits)
    from props.roundtrip import ColanderRoundTrip
    rt = [ColanderRoundTrip(3, 3, [2, 1], [2, 0], None), ColanderRoundTrip(2, 3, [1, 2], [1], 0), ColanderRoundTrip(3, 2, [1], "all", None)]
    for t in rt:
        t.prop = "C05"
    return [StrainWorker(3), StrainWorker(2)] + parent_tasks(tier) + rt


def canaries(tier):
    f = "amr_kitchen/colander/colander.py"
    return [("strain3d: offset recorded after header write",
             [(f, "            offsets.append(bfw.tell())\n            # Go to the data\n            bfr.seek(fst_r)\n            # Get the header\n            header = bfr.readline().decode('ascii')\n            # Replace with number of vars just to be sure\n            header_w = header.replace(f'{args[\"nvars\"]}\\n', f'{nkept}\\n')\n            # Write to binary file\n            bfw.write(header_w.encode('ascii'))\n             # Read the data\n            shape = indexes[1] - indexes[0] + 1\n            total_shape = (shape[0], shape[1], shape[2], args['nvars'])",
               "            bfr.seek(fst_r)\n            header = bfr.readline().decode('ascii')\n            header_w = header.replace(f'{args[\"nvars\"]}\\n', f'{nkept}\\n')\n            bfw.write(header_w.encode('ascii'))\n            offsets.append(bfw.tell())\n            shape = indexes[1] - indexes[0] + 1\n            total_shape = (shape[0], shape[1], shape[2], args['nvars'])")],
             ["parallel_strain_3d"]),
            ("strain2d: kept fields on wrong axis",
             [(f, "arr_out = arr[:, :, args[\"kept_fields\"]]", "arr_out = arr[:, args[\"kept_fields\"], :]")],
             ["parallel_strain_2d"])] + __import__("props.colander_parents", fromlist=["parent_canaries"]).parent_canaries()


SCENARIO_TIMEOUT = 300


def scenarios(tier, seed):
    n = 6 if tier == "quick" else 12
    return [{"kind": "colander", "seed": seed * 1000 + 100 + i, "ndims": 3 if i % 2 == 0 else 2,
             "nf": [4, 3, 12, 2, 11, 6][i % 6], "wide_floats": True, "nlevels": [2, 3, 1][i % 3], "nfiles": [2, 3, 1, 4][i % 4],
             "layout": ["shuffled", "roundrobin", "shuffled", "monotone"][i % 4],
             "box_sizes": [8, 16] if i % 3 == 1 else None, "ncombos": 3 if tier == "quick" else 6,
             "ref_line_extra": i % 2} for i in range(n)]


def run_scenario(p, wd):
    from harness.rt_tools import run_colander_scenario
    return run_colander_scenario(p, wd)



def tasks(tier):
    # the FAB header parsers / formatter (real bodies on canonical header text): the obligations behind the header contracts
    from props.parsers import parser_tasks
    return _tasks0(tier) + parser_tasks("C05", nds=(2, 3))
