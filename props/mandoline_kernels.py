"""Kernels of mandoline under contract (shared by C07, C08, C16)."""
import z3
from pyvc.vals import *  # noqa
from pyvc.task import Task
from pyvc.vc import veq

MU = "amr_kitchen.mandoline.utils."
MM = "amr_kitchen.mandoline.mandoline.Mandoline."


class Expand2d(Task):
    """expand_array(arr, f)[X, Y] == arr[X // f, Y // f], shape (a*f, b*f)."""
    reach = "U"
    qual = MU + "expand_array"

    def __init__(self, prop):
        self.prop = prop
        self.name = "expand_array"

    def setup(self, ex):
        ctx = ex.ctx
        a, b, f = z3.Ints("a b f")
        ctx.assume(z3.And(a >= 1, b >= 1, f >= 1))
        A = z3.Function("A", z3.IntSort(), z3.IntSort(), z3.RealSort())
        arr = NDArray([a, b], lambda ix: A(to_z3(ix[0]), to_z3(ix[1])))
        return {"args": [arr, f], "a": a, "b": b, "f": f, "A": A}

    def post(self, ex, inp, out):
        ctx = ex.ctx
        ctx.oblige("raises-nothing", out.kind == "ret", "P", note=str(out.exc))
        if out.kind != "ret":
            return
        a, b, f, A = inp["a"], inp["b"], inp["f"], inp["A"]
        exp = NDArray([a * f, b * f], lambda ix: A(to_z3(ix[0]) / f, to_z3(ix[1]) / f))
        ctx.oblige("post.replication", veq(ctx, out.value, exp), "P")


class SliceCoords(Task):
    """define_slicing_coordinates: default normal 0, in-plane axes the other two in order, default position the domain
    centre, positions outside [geo_low, geo_high] refused with ValueError, in-domain positions returned unchanged."""
    reach = "U"
    qual = MM + "define_slicing_coordinates"

    def __init__(self, prop, normal, given):
        self.prop, self.normal, self.given = prop, normal, given
        self.name = f"define_slicing_coordinates[normal={normal},pos={'given' if given else 'default'}]"

    def setup(self, ex):
        ctx = ex.ctx
        lo = [z3.Real(f"glo{d}") for d in range(3)]
        hi = [z3.Real(f"ghi{d}") for d in range(3)]
        for l, h in zip(lo, hi):
            ctx.assume(l < h)
        self_ = Record("amr_kitchen.mandoline.mandoline.Mandoline", ndims=3, geo_low=lo, geo_high=hi,
                       coordnames={0: "x", 1: "y", 2: "z", 3: "2D"})
        pos = z3.Real("pos") if self.given else None
        return {"self": self_, "args": [self.normal, pos], "lo": lo, "hi": hi, "pos": pos}

    def post(self, ex, inp, out):
        ctx = ex.ctx
        cn = 0 if self.normal is None else self.normal
        lo, hi, pos = inp["lo"], inp["hi"], inp["pos"]
        if pos is not None:
            inside = z3.And(pos >= lo[cn], pos <= hi[cn])
            if out.kind == "exc":
                ctx.oblige("post.refuses-only-outside-the-domain", zand(z3.Not(inside), out.exc.etype == "ValueError"), "P")
                return
            ctx.oblige("post.accepts-only-inside-the-domain", inside, "P")
        else:
            ctx.oblige("raises-nothing", out.kind == "ret", "P", note=str(out.exc))
            if out.kind != "ret":
                return
        v = out.value
        ok = isinstance(v, tuple) and len(v) == 4
        ctx.structure("post.returns-4-tuple", ok)
        if not ok:
            return
        others = [d for d in range(3) if d != cn]
        ctx.oblige("post.axes", veq(ctx, list(v[:3]), [cn] + others), "P")
        expect = pos if pos is not None else (lo[cn] + hi[cn]) / 2
        ctx.oblige("post.position", veq(ctx, v[3], expect), "P")


def kernel_tasks(prop, which):
    out = []
    if "expand" in which:
        out.append(Expand2d(prop))
    if "coords" in which:
        for normal in (None, 0, 1, 2):
            for given in (True, False):
                out.append(SliceCoords(prop, normal, given))
    if "plate" in which:
        from props.mandoline_boxes import PlateBox
        out += [PlateBox(prop, 1), PlateBox(prop, 2)]
    return out


def kernel_canaries(which):
    cs = []
    if "expand" in which:
        cs.append(("expand_array: second repeat along the wrong axis",
                   [("amr_kitchen/mandoline/utils.py", "exp = np.repeat(exp, factor, axis=0)", "exp = np.repeat(exp, factor, axis=1)")],
                   ["expand_array"]))
    if "coords" in which:
        cs.append(("slicing coordinates: upper bound check dropped",
                   [("amr_kitchen/mandoline/mandoline.py", "                if (pos < self.geo_low[cn] or\n                    pos > self.geo_high[cn]):",
                     "                if (pos < self.geo_low[cn]):")], ["define_slicing_coordinates[normal=1,pos=given]"]))
    return cs
