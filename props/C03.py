"""C03 - taste accepts every well-formed plotfile under every option combination."""
from props.taste_workers import worker_tasks
from props.taste_dispatch import dispatch_tasks
from props.C01 import ASSUMPTIONS as A01, TRUSTED as T01

ASSUMPTIONS = A01 + ["well-formed input: every binary file is the concatenation of canonical FABs at the recorded offsets "
                     "(OnDisk); boxes handed to the workers are those of the file in offset order with their own index ranges (parent "
                     "bookkeeping proved on a bounded skeleton: 3 boxes over 2 interleaved files)",
                     "sub-checks of Taster.taste() are abstracted to their outcome in the dispatch proof",
                     "taste_box_coordinates: one level, any number of boxes, reals for floats, np.linspace step = dx by "
                     "cancellation (checked by the solver at the call), np.isclose as |a-b| <= 1e-8 + 1e-5|b|"]
TRUSTED = T01 + ["pool.imap order and exception propagation (assumed)"]


def _tasks0(tier):
    from props.taste_coords import coord_tasks
    from props.taste_parents import parent_tasks
    from props.header_tasks import _ht
    return worker_tasks("C03", ["complete"]) + dispatch_tasks("C03") + coord_tasks("C03") + parent_tasks("C03") + _ht("C03", tier)


def canaries(tier):
    f = "amr_kitchen/taste/taste.py"
    return [("shape worker: last-box rule compares with the header length missing",
             [(f, "        bf.seek(nbytes, 1)\n        file_size = bf.tell()", "        bf.seek(nbytes + 1, 1)\n        file_size = bf.tell()")],
             ["mp_fun_shape.complete[nd=3]"]),
            ("dispatch: isgood not cleared on exception",
             [(f, "        except Exception as e:\n            self.isgood = False\n            if self.fail_on_bad:",
               "        except Exception as e:\n            if self.fail_on_bad:")], ["Taster.__init__[binary_data=False]"])] + \
        __import__("props.taste_coords", fromlist=["coord_canaries"]).coord_canaries()[1:]


SCENARIO_TIMEOUT = 400
SCENARIO_WORKERS = 3


def scenarios(tier, seed):
    n = 2 if tier == "quick" else 8
    return [{"kind": "accept", "seed": seed * 1000 + 300 + i, "ndims": 3 if i % 2 == 0 else 2, "nf": [3, 2, 5][i % 3],
             "nlevels": [2, 3, 1][i % 3], "nfiles": [3, 2, 1, 4][i % 4], "layout": ["shuffled", "roundrobin"][i % 2],
             "box_sizes": [8, 16] if i % 3 == 2 else None, "all_limits": tier != "quick",
             "version": [None, "NavierStokes-V1.1", "HyperCLaw-V1.1", "MyCode 2.0"][i % 4]} for i in range(n)] + \
        [{"kind": "accept", "seed": seed * 1000 + 350, "ndims": 3, "nf": 2, "nlevels": 2, "nfiles": 2, "layout": "shuffled",
          "box_sizes": [8, 16], "n0": [32, 16, 16], "all_limits": False},      # boxes of different shapes sharing a binary file
         {"kind": "accept", "seed": seed * 1000 + 351, "ndims": 3, "nf": 2, "nlevels": 2, "nfiles": 2, "layout": "shuffled",
          "n0": [16, 16, 16], "geo_lo": [-0.008, -0.008, -0.008], "dx0": [0.001, 0.001, 0.001], "all_limits": False},
         # repeated field names, and names that collide with the way the reader renames repetitions
         {"kind": "accept", "seed": seed * 1000 + 352, "ndims": 3, "nf": 4, "names": ["a", "a_2", "a", "T"], "nlevels": 2, "nfiles": 2,
          "layout": "shuffled", "all_limits": False},
         {"kind": "accept", "seed": seed * 1000 + 353, "ndims": 2, "nf": 3, "names": ["T", "T", "T_2"], "nlevels": 1, "nfiles": 1,
          "layout": "shuffled", "all_limits": False}]
        # (domain centred on the origin: box faces exactly at 0.0, cell sizes that are not binary fractions)


def run_scenario(p, wd):
    from harness.rt_taste import run_accept_scenario
    return run_accept_scenario(p, wd)



def tasks(tier):
    # the FAB header parsers / formatter (real bodies on canonical header text): the obligations behind the header contracts
    from props.parsers import parser_tasks
    return _tasks0(tier) + parser_tasks("C03", nds=(2, 3))
