"""C08 - mandoline 2D flattening equals the finest-level covering grid exactly."""
from props.C01 import ASSUMPTIONS as A01, TRUSTED as T01
from props.mandoline_kernels import kernel_tasks, kernel_canaries

ASSUMPTIONS = A01 + ["Mandoline.plate is proved as a whole (callees by contract, nested loop invariants: after the painting loops every covered "
                     "pixel holds the value of the LAST box in (level, input) order whose footprint contains it, i.e. a box of the "
                     "finest level covering it) for one requested field, serial and pool mode; the worker inputs (compute_mpinput_2d) "
                     "and the box worker (plate_box; number of requested fields a skeleton parameter: 1, 2+None, 0+None) are under "
                     "contract; np.empty is unknown values with an 'initialised' bit"]
TRUSTED = T01 + ["numpy: np.repeat / reshape contracts used by expand_array"]


def tasks(tier):
    from props.mandoline_parents import parent_tasks
    from props.mandoline_boxes import box_tasks
    from props.mandoline_parents import names_tasks
    return kernel_tasks("C08", ["expand"]) + parent_tasks("C08", 2) + box_tasks("C08", ["plate"]) + names_tasks("C08") + \
        __import__("props.mandoline_parents", fromlist=["aux_tasks"]).aux_tasks("C08") + \
        __import__("props.mandoline_parents", fromlist=["composition_tasks"]).composition_tasks("C08", 2)


def canaries(tier):
    from props.mandoline_parents import parent_canaries
    from props.mandoline_boxes import box_canaries
    from props.mandoline_parents import names_canaries
    return kernel_canaries(["expand"]) + parent_canaries(2) + box_canaries(["plate"]) + names_canaries()


SCENARIO_TIMEOUT = 300


NONSQUARE = [[[[0, 0], [11, 7]], [[12, 0], [23, 3]], [[12, 4], [23, 7]]],
             [[[4, 2], [19, 9]], [[20, 2], [27, 13]], [[4, 10], [19, 13]]],
             [[[12, 8], [35, 15]], [[36, 8], [51, 27]]]]


# a coarse box covered by finer data except for a strip ONE coarse cell wide beside the high edge of the refined patch (in x for
# the first coarse box, in y for the second): the strip's pixels can only come from the coarse box
STRIP = [[[[0, 0], [7, 7]], [[8, 0], [15, 7]], [[0, 8], [7, 15]], [[8, 8], [15, 15]]],
         [[[0, 0], [13, 15]], [[16, 0], [31, 13]]]]


def scenarios(tier, seed):
    n = 6 if tier == "quick" else 10
    return [{"kind": "plate", "seed": seed * 1000 + 951, "ndims": 2, "nf": 2, "nfiles": 2, "layout": "shuffled", "n0": [16, 16],
             "levels": STRIP, "geo_lo": [-2.0, 0.5], "dx0": [0.5, 0.125], "ncombos": 6}] + [{"kind": "plate", "seed": seed * 1000 + 950, "ndims": 2, "nf": 3, "nfiles": 2, "layout": "shuffled", "n0": [24, 8],
             "levels": NONSQUARE, "geo_lo": [1.0, -0.5], "dx0": [0.25, 0.5], "ncombos": 6}] + [{"kind": "plate", "seed": seed * 1000 + 900 + i, "ndims": 2, "nf": [3, 2, 4][i % 3], "nlevels": [3, 2, 1][i % 3],
             "nfiles": [2, 3, 1][i % 3], "layout": ["shuffled", "roundrobin"][i % 2], "n0": [[32, 16], [16, 48], [24, 8]][i % 3],
             "geo_lo": [1.0, 2.0], "dx0": [[0.1, 0.2], [0.5, 0.25], [1.0, 1.0]][i % 3], "box_sizes": [8, 16] if i % 2 else None,
             "ncombos": 4 if tier == "quick" else 10} for i in range(n)]


def run_scenario(p, wd):
    from harness.rt_mandoline import run_plate_scenario
    return run_plate_scenario(p, wd)
