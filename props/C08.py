"""C08 - mandoline 2D flattening equals the finest-level covering grid exactly."""
from props.C01 import ASSUMPTIONS as A01, TRUSTED as T01
from props.mandoline_kernels import kernel_tasks, kernel_canaries

ASSUMPTIONS = A01 + ["level loop / last-writer-wins overwrite of Mandoline.plate covered by the bounded run-time layer (R)"]
TRUSTED = T01 + ["numpy: np.repeat / reshape contracts used by expand_array"]


def tasks(tier):
    return kernel_tasks("C08", ["expand"])


def canaries(tier):
    return kernel_canaries(["expand"])


SCENARIO_TIMEOUT = 300


def scenarios(tier, seed):
    n = 3 if tier == "quick" else 10
    return [{"kind": "plate", "seed": seed * 1000 + 900 + i, "ndims": 2, "nf": [3, 2, 4][i % 3], "nlevels": [3, 2, 1][i % 3],
             "nfiles": [2, 3, 1][i % 3], "layout": ["shuffled", "roundrobin"][i % 2], "n0": [[32, 16], [16, 48], [24, 8]][i % 3],
             "geo_lo": [1.0, 2.0], "dx0": [[0.1, 0.2], [0.5, 0.25], [1.0, 1.0]][i % 3], "box_sizes": [8, 16] if i % 2 else None,
             "ncombos": 4 if tier == "quick" else 10} for i in range(n)]


def run_scenario(p, wd):
    from harness.rt_mandoline import run_plate_scenario
    return run_plate_scenario(p, wd)
