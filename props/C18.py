"""C18 - header-only tools report what the full reader holds."""
import z3
from pyvc.vals import *  # noqa
from pyvc.task import FragmentTask
from props.C01 import ASSUMPTIONS as A01, TRUSTED as T01

ME = "amr_kitchen.menu.menu.Menu."
ASSUMPTIONS = ["the regular-expression database of menu is data of the program; `re` is opaque",
               "fragment extraction: the column-padding statements of show_min_max executed in isolation",
               "listing / classification / formatting are covered by the bounded run-time layer (parsed stdout)",
               "extrema: real arithmetic without NaN; np.min / np.max are 'a bound of every element, attained somewhere' (numpy contract)"]
TRUSTED = ["python re, str.format of floats, pickle (opaque)", "PyVC executor and z3"]


class DictLen(dict):
    """a dict of symbolic size (only its length and insertions of NEW keys are modelled)"""

    def __init__(self, n):
        super().__init__()
        self.n = n

    def length_of(self, ex):
        return self.n

    def setitem(self, ex, key, v):
        self.n = self.n + 1       # the key "" is not a field name (field names are non-empty): a new entry


class TableCoverage(FragmentTask):
    """show_min_max prints, for i < middle, entries i and i+middle: every entry is printed exactly once iff the (padded)
    number of entries equals 2*middle - for any number of fields."""
    prop = "C18"
    reach = "U"
    qual = ME + "show_min_max"
    first = staticmethod(lambda s: __import__("ast").dump(s).find("min_max_data") >= 0 and s.__class__.__name__ == "If")
    last = staticmethod(FragmentTask.assigns("middle"))
    unordered = True

    def __init__(self):
        self.name = "show_min_max.two-column-coverage"

    def setup(self, ex):
        n = z3.Int("nfields")
        ex.ctx.assume(n >= 1)
        d = DictLen(n)
        return {"frame": {"min_max_data": d}, "n": n, "d": d}

    def post(self, ex, inp, out):
        ctx = ex.ctx
        ctx.oblige("raises-nothing", out.kind == "ret", "P", note=str(out.exc))
        if out.kind != "ret":
            return
        mid = out.value.get("middle")
        ctx.structure("post.fragment-defines-middle", mid is not None)
        if mid is None:
            return
        total = inp["d"].n
        ctx.oblige("post.rows-cover-every-entry", to_z3(total) == 2 * to_z3(mid), "P")
        ctx.oblige("post.at-most-one-padding-entry", zand(to_z3(total) >= inp["n"], to_z3(total) <= inp["n"] + 1), "P")


class Extrema(FragmentTask):
    """find_min_max, the statement choosing the extrema of one field: over the per-box header tables of ALL levels 0..limit
    (or of the finest level when asked) the reported minimum is a lower bound of every table entry and is one of them, and
    dually for the maximum.  Levels are a skeleton parameter; boxes per level and table values are unbounded."""
    prop = "C18"
    reach = "S"
    qual = ME + "find_min_max"
    # the statement (an if) whose branches assign `minimum`
    first = staticmethod(lambda s: s.__class__.__name__ == "If" and any(FragmentTask.assigns("minimum")(x) for x in s.body) and
                         any(FragmentTask.assigns("minimum")(x) for x in s.orelse))
    last = first

    def __init__(self, nlevels, finest, min_max=None):
        """finest: -f given; min_max: -m given (default: exactly one of the two).  With both, the finest level is asked for."""
        self.nlevels, self.finest = nlevels, finest
        self.min_max = (not finest) if min_max is None else min_max
        self.name = f"find_min_max.extrema[levels={nlevels},{'finest' if finest else 'all'}" + (",both options]" if finest and self.min_max else "]")

    def setup(self, ex):
        ctx = ex.ctx
        I, R = z3.IntSort(), z3.RealSort()
        nl = self.nlevels
        ctx.ghost["minmax_semantics"] = True
        NB = [z3.Int(f"nb{lv}") for lv in range(nl)]
        for n in NB:
            ctx.assume(n >= 1)
        MINS, MAXS = z3.Function("MINS", I, I, R), z3.Function("MAXS", I, I, R)
        field = "the_field"
        cells = [{"mins": {field: NDArray([NB[lv]], lambda ix, lv=lv: MINS(lv, to_z3(ix[0])), "f8")},
                  "maxs": {field: NDArray([NB[lv]], lambda ix, lv=lv: MAXS(lv, to_z3(ix[0])), "f8")}} for lv in range(nl)]
        self_ = Record("amr_kitchen.menu.menu.Menu", finest_lv=self.finest, min_max=self.min_max, cells=cells, limit_level=nl - 1)
        return {"frame": {"self": self_, "field": field}, "NB": NB, "MINS": MINS, "MAXS": MAXS}

    def post(self, ex, inp, out):
        ctx = ex.ctx
        ctx.oblige("raises-nothing", out.kind == "ret", "P", note=str(out.exc) if out.kind != "ret" else "")
        if out.kind != "ret":
            return
        mn, mx = out.value.get("minimum"), out.value.get("maximum")
        ok = mn is not None and mx is not None and is_z3(to_z3(mn)) and is_z3(to_z3(mx))
        ctx.structure("post.fragment-defines-minimum-and-maximum", ok)
        if not ok:
            return
        NB, MINS, MAXS = inp["NB"], inp["MINS"], inp["MAXS"]
        levels = [self.nlevels - 1] if self.finest else list(range(self.nlevels))
        b = ctx.fresh("b")
        for lv in levels:
            ctx.oblige(f"post.minimum-bounds-every-box-of-level-{lv}", z3.Implies(z3.And(b >= 0, b < NB[lv]), to_z3(mn) <= MINS(lv, b)), "P")
            ctx.oblige(f"post.maximum-bounds-every-box-of-level-{lv}", z3.Implies(z3.And(b >= 0, b < NB[lv]), to_z3(mx) >= MAXS(lv, b)), "P")
        q = z3.Int("qb")
        ctx.oblige("post.minimum-is-attained", z3.Or(*[z3.Exists([q], z3.And(q >= 0, q < NB[lv], to_z3(mn) == MINS(lv, q))) for lv in levels]), "P")
        ctx.oblige("post.maximum-is-attained", z3.Or(*[z3.Exists([q], z3.And(q >= 0, q < NB[lv], to_z3(mx) == MAXS(lv, q))) for lv in levels]), "P")


class Formatting(FragmentTask):
    """find_min_max from the choice of the extrema to the table entry of the field: the entry holds the minimum and the maximum
    rendered with three significant digits ('{:.3}'), each preceded by one blank exactly when it is not negative, and the units."""
    prop = "C18"
    reach = "S"
    qual = ME + "find_min_max"
    first = staticmethod(Extrema.first)
    last = staticmethod(lambda s: s.__class__.__name__ == "Assign" and "min_and_max[" in __import__("ast").unparse(s.targets[0]))

    def __init__(self):
        self.name = "find_min_max.three-significant-digits"

    def setup(self, ex):
        r = Extrema(2, False).setup(ex)
        r["frame"]["min_and_max"] = {}
        r["frame"]["units"] = "[K]"
        return r

    def post(self, ex, inp, out):
        from pyvc.strings import SStr, FloatAtom
        ctx = ex.ctx
        ctx.oblige("raises-nothing", out.kind == "ret", "P", note=str(out.exc) if out.kind != "ret" else "")
        if out.kind != "ret":
            return
        ent = out.value["min_and_max"].get("the_field")
        ok = isinstance(ent, tuple) and len(ent) == 3 and all(isinstance(x, SStr) for x in ent[:2])
        ctx.structure("post.entry-is-(min-text,max-text,units)", ok)
        if not ok:
            return
        ctx.oblige("post.units-kept", ent[2] == "[K]", "P")
        MINS, MAXS, NB = inp["MINS"], inp["MAXS"], inp["NB"]
        b = ctx.fresh("b")
        for label, txt, bound in (("minimum", ent[0], lambda v, lv: v <= MINS(lv, b)), ("maximum", ent[1], lambda v, lv: v >= MAXS(lv, b))):
            segs = txt.segs
            fa = segs[-1]
            good = isinstance(fa, FloatAtom) and fa.fmt == ".3" and len(segs) in (1, 2) and (len(segs) == 1 or segs[0] == " ")
            ctx.oblige(f"post.{label}-rendered-with-three-significant-digits", good, "P", note=str(segs))
            if not good:
                continue
            v = to_real(fa.term)
            ctx.oblige(f"post.{label}-has-a-leading-blank-iff-not-negative", (v >= 0) if len(segs) == 2 else (v < 0), "P")
            for lv in range(2):
                ctx.oblige(f"post.rendered-{label}-bounds-every-box-of-level-{lv}", z3.Implies(z3.And(b >= 0, b < NB[lv]), bound(v, lv)), "P")


def tasks(tier):
    out = [Formatting(), TableCoverage(), Extrema(2, False), Extrema(2, True), Extrema(2, True, True)]
    if tier == "thorough":
        out += [Extrema(1, False), Extrema(3, False), Extrema(3, True)]
    return out


def canaries(tier):
    return [("min/max table: padding test back to 'not len//2'",
             [("amr_kitchen/menu/menu.py", "if len(min_max_data) % 2:", "if not len(min_max_data)//2:")],
             ["show_min_max.two-column-coverage"]),
            ("min/max: two significant digits",
             [("amr_kitchen/menu/menu.py", 'minimum = str("{:.3}".format(minimum))', 'minimum = str("{:.2}".format(minimum))')],
             ["find_min_max.three-significant-digits"]),
            ("min/max: the finest level left out of the absolute extrema",
             [("amr_kitchen/menu/menu.py", "minimum = np.min([self.cells[lv][\"mins\"][field].min() for lv in range(self.limit_level + 1)])",
               "minimum = np.min([self.cells[lv][\"mins\"][field].min() for lv in range(self.limit_level)])")],
             ["find_min_max.extrema[levels=2,all]"])]


SCENARIO_TIMEOUT = 300
NAMESETS = [
    ["density", "temp", "Y(H2)", "Y(O2)", "x_velocity"],
    ["a", "cab", "temp"],
    ["density", "rhoh", "mag_vort", "pressure"],
    ["Y(N2)", "Y(H2O)", "y_velocity", "z_velocity", "x_velocity", "I_R(H2)", "mixture_fraction"],
    ["temp"],
    ["t.mp", "temp", "t+mp", "Y(CH4)", "my(field)", "gradpx"],
    ["soot", "soot_N", "rho", "rhoE", "phi_old", "phi", "temp"],        # user fields that are prefixes of later user fields
    # species whose names contain brackets or begin with the letters of the wrapper: Y(CH2(S)) lists CH2(S)
    ["temp", "Y(CH2(S))", "Y(C(S))", "Y(YO)", "Y(Y)", "Y(H2)", "Y((A))"],
]


def scenarios(tier, seed):
    out = []
    for i, ns in enumerate(NAMESETS):
        out.append({"kind": "menu", "seed": seed * 1000 + 1200 + i, "names": ns, "ndims": 3 if i % 2 == 0 else 2,
                    "nlevels": 1 + i % 3, "nfiles": 1 + i % 2, "layout": "shuffled", "time": [0.25, -1.5, 0.0, 3e-7, 12.0, 1.0][i % 6],
                    "n0": [16, 16, 8] if i % 2 == 0 else [32, 16]})
    # a plotfile whose binary files are larger than 2 and 4 GiB (sparse files): byte offsets that do not fit 32 bits
    out.append({"kind": "menu", "seed": seed * 1000 + 1290, "names": ["density", "temp", "Y(H2)"], "ndims": 3, "nlevels": 2, "nfiles": 1,
                "layout": "shuffled", "time": 0.5, "n0": [16, 16, 8], "large_offsets": True})
    # marinate, then the plotfile rewritten IN PLACE with other values (same file names), then the header-only tools again
    out.append({"kind": "menu", "seed": seed * 1000 + 1291, "names": ["density", "temp", "Y(H2)"], "ndims": 3, "nlevels": 2, "nfiles": 2,
                "layout": "monotone", "time": 0.5, "n0": [16, 16, 8],
                "then": {"kind": "menu", "seed": seed * 1000 + 1292, "names": ["density", "temp", "Y(H2)"], "ndims": 3, "nlevels": 2, "nfiles": 2,
                         "layout": "monotone", "time": 0.75, "n0": [16, 16, 8], "in_place": True}})
    return out


def run_scenario(p, wd):
    from harness.rt_menu import run_menu_scenario
    return run_menu_scenario(p, wd)
