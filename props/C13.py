"""C13 - tools never touch their inputs and report failures instead of returning."""
ASSUMPTIONS = ["bounded layer: frames are observed (directory snapshots, content digests) and faults injected at every "
               "individual python-level write-class call (open for write, file.write, mkdir, makedirs, rmtree) of in-process "
               "runs (controllable pool); real I/O faults below the python call boundary and interpreter exit status are assumed"]
ASSUMPTIONS += ["path texts contain no empty, '.' or '..' components ('/' separator): os.path.normpath only removes a trailing separator",
                "combine's documented default is <name1><name2> in the working directory: 'the working directory is not inside an input "
                "directory' is a precondition", "mandoline's default name is assumed to differ from the input's name (computed by string "
                "operations the path algebra does not look into); only 'beside the input' is proved for it",
                "fragment extraction: only the statements computing the output paths are executed (the rest of each function is dropped)"]
TRUSTED = ["os.path semantics as modelled by the structural path algebra (pyvc.libos)", "interpreter exit status, pool exception propagation"]
from props.paths import path_tasks, path_canaries


def tasks(tier):
    # (a worker that comes back with fewer results than boxes - an input ended early - must not pass for a finished level)
    from props.combine_parents import CombineLevel
    from props.chef_kernels import CookLevel
    ts = [CombineLevel("bybox", short=True), CookLevel(True, short=True), CookLevel(False, short=True)]
    for t in ts:
        t.prop = "C13"
    return path_tasks("C13") + ts


def canaries(tier):
    return path_canaries()


SCENARIO_TIMEOUT = 900
SCENARIO_WORKERS = 4


def scenarios(tier, seed):
    if tier == "quick":
        return [{"kind": "frames", "seed": seed * 1000 + 1300 + i, "nlevels": 2, "nfiles": 2, "layout": "shuffled",
                 "n0": [16, 16, 8], "max_invocations": 60, "max_faults": 5, "plt_name": ["plt00010", "data_a"][i % 2],
                 "chk_name": ["chk00005", "restart_5"][i % 2]} for i in range(3)]
    return [{"kind": "frames", "seed": seed * 1000 + 1300 + i, "nlevels": 1 + i % 2, "nfiles": 1 + i % 3, "layout": "shuffled",
             "n0": [16, 16, 8], "max_invocations": 60, "max_faults": None if i < 2 else 12,
             "plt_name": ["plt00010", "data_a", "plt_x"][i % 3], "chk_name": ["chk00005", "restart_5"][i % 2]} for i in range(6)]


def run_scenario(p, wd):
    from harness.rt_frames import run_frame_scenario
    return run_frame_scenario(p, wd)
