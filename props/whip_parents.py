"""whip's main, parent side (C10): every binary file of a level is read exactly once, and one returned box is painted into
the uniform grid exactly on its footprint at the finest selected level.  Fragments of whip.cli.main, mechanically extracted."""
import ast
import z3
from pyvc.vals import *  # noqa
from pyvc.task import FragmentTask
from pyvc.vc import veq

WH = "amr_kitchen.whip.cli."
I, R = z3.IntSort(), z3.RealSort()


def _src(pattern):
    return lambda s: pattern in ast.unparse(s).split("\n")[0]


def expand3_contract_const(f):
    def c(ex, args, kw):
        arr, fac = args
        from pyvc.ops import as_ndarray
        a = as_ndarray(arr)
        e, _ = a.snapshot()
        return NDArray([simp(to_z3(n) * f) for n in a.shape], lambda ix: e(tuple(to_z3(i) / f for i in ix)), a.dtype)
    return c


class PaintBox(FragmentTask):
    """The loop writing the boxes one worker returned into the uniform grid, for a result holding ONE box with index range
    [lo, hi] at a level whose cells are f = 2**(limit - lv) finest cells wide: afterwards grid cell c holds arr[(c - f*lo) // f]
    (the level cell containing c) when f*lo <= c < f*(hi+1) in every direction, and its previous value otherwise.
    f is a skeleton parameter (1, 2, 4); box, grid and contents unbounded."""
    prop = "C10"
    reach = "S"
    qual = WH + "main"
    first = staticmethod(_src("for idx, arr in zip(res[0], res[1])"))
    last = first

    def __init__(self, f):
        self.f = f
        self.name = f"whip.main.paint-one-box[factor={f}]"

    def setup(self, ex):
        ctx = ex.ctx
        f = self.f
        lo = [z3.Int(f"lo{d}") for d in range(3)]
        hi = [z3.Int(f"hi{d}") for d in range(3)]
        G = [z3.Int(f"G{d}") for d in range(3)]
        for d in range(3):
            ctx.assume(z3.And(lo[d] >= 0, hi[d] >= lo[d], f * (hi[d] + 1) <= G[d]))
        A = z3.Function("BOX", I, I, I, R)
        OLD = z3.Function("OLD", I, I, I, R)
        arr = NDArray([hi[d] - lo[d] + 1 for d in range(3)], lambda ix: A(*[to_z3(i) for i in ix]), "f8")
        data = NDArray(list(G), lambda ix: OLD(*[to_z3(i) for i in ix]), "f8")
        self.contracts = {"amr_kitchen.utils.expand_array3d": expand3_contract_const(f)}
        frame = {"res": ([[Vec(lo, "array"), Vec(hi, "array")]], [arr]), "data": data, "factor": f}
        return {"frame": frame, "lo": lo, "hi": hi, "G": G, "A": A, "OLD": OLD}

    def post(self, ex, inp, out):
        ctx = ex.ctx
        ctx.oblige("raises-nothing", out.kind == "ret", "P", note=str(out.exc) if out.kind != "ret" else "")
        if out.kind != "ret":
            return
        f, lo, hi, G, A, OLD = self.f, inp["lo"], inp["hi"], inp["G"], inp["A"], inp["OLD"]
        data = out.value["data"]
        c = [ctx.fresh(f"c{d}") for d in range(3)]
        ctx.add_pc(z3.And(*[z3.And(c[d] >= 0, c[d] < G[d]) for d in range(3)]))
        inside = z3.And(*[z3.And(f * lo[d] <= c[d], c[d] < f * (hi[d] + 1)) for d in range(3)])
        want = z3.If(inside, A(*[(c[d] - f * lo[d]) / f for d in range(3)]), OLD(*c))
        ctx.oblige("post.grid-cell-holds-its-level-cell-inside-the-footprint-and-is-untouched-outside", to_z3(data.elem(tuple(c))) == want, "P")


class ReadInputs(FragmentTask):
    """The statements building the worker inputs of one level: whatever the file sizes, every distinct binary file of the
    level is named by exactly one input (the size ordering is a permutation), each with the field count and the field index.
    Skeleton: 4 boxes over 3 files, symbolic sizes."""
    prop = "C10"
    reach = "S"
    qual = WH + "main"
    first = staticmethod(_src("binfiles = np.unique("))
    last = staticmethod(FragmentTask.assigns("mp_inputs"))

    def __init__(self):
        self.name = "whip.main.every-file-read-once"

    def setup(self, ex):
        files = ["p/Level_0/Cell_D_00002", "p/Level_0/Cell_D_00000", "p/Level_0/Cell_D_00002", "p/Level_0/Cell_D_00001"]
        sizes = {f: z3.Int(f"size_{f[-1]}") for f in set(files)}
        from pyvc.exec import LIBS
        self.saved = LIBS.get(("os.path", "getsize"))

        def getsize(ex_, args, kw):
            return sizes[str(args[0])]
        LIBS[("os.path", "getsize")] = getsize
        pck = Record("amr_kitchen.plotfile_cooker.PlotfileCooker", cells=[{"files": list(files)}], limit_level=0)
        nf, fi = z3.Int("N_FIELDS"), z3.Int("FIELD_INDEX")
        return {"frame": {"pck": pck, "lv": 0, "N_FIELDS": nf, "FIELD_INDEX": fi}, "files": sorted(set(files)), "nf": nf, "fi": fi}

    def post(self, ex, inp, out):
        from pyvc.exec import LIBS
        if self.saved is not None:
            LIBS[("os.path", "getsize")] = self.saved
        else:
            LIBS.pop(("os.path", "getsize"), None)
        ctx = ex.ctx
        ctx.oblige("raises-nothing", out.kind == "ret", "P", note=str(out.exc) if out.kind != "ret" else "")
        if out.kind != "ret":
            return
        mp = out.value.get("mp_inputs")
        ok = isinstance(mp, list) and all(isinstance(m, dict) for m in mp)
        ctx.structure("post.inputs-are-a-list-of-dicts", ok)
        if not ok:
            return
        names = sorted(str(m.get("fname")) for m in mp)
        ctx.oblige("post.every-distinct-file-named-exactly-once", names == inp["files"], "P", note=f"{names} vs {inp['files']}")
        ctx.oblige("post.field-count-and-index-passed-through", all(m.get("N_FIELDS") is inp["nf"] and m.get("FIELD_INDEX") is inp["fi"] for m in mp), "P")


class OptionWiring(FragmentTask):
    """The statements of main from the construction of the reader to the allocation of the uniform grid: the reader is built
    on the requested plotfile with exactly the requested level limit (0 included; None = every level), the field index is the
    one the reader records for the requested variable, the grid has the grid size of the reader's limit level and the requested
    data type.  The reader is its class contract (limit_level=None -> finest level, else the value given)."""
    prop = "C10"
    reach = "U"
    qual = WH + "main"
    first = staticmethod(_src("if args.plotfile is None"))      # everything after the argument parser
    last = staticmethod(_src("if args.nochecks"))
    second = staticmethod(_src("data = np.zeros("))

    def call(self, ex, inp):
        # the fragment, then the allocation statement (first statement of the 'y' branch of the confirmation) in the same frame
        fv = super().call(ex, inp)
        try:
            self.first = self.last = self.second        # instance attributes: shadow the anchors for the second selection
            return super().call(ex, dict(inp, frame=dict(fv)))
        finally:
            del self.first, self.last

    def __init__(self, limit_given):
        self.limit_given = limit_given
        self.name = f"whip.main.option-wiring[limit {'given' if limit_given else 'not given'}]"

    def setup(self, ex):
        ctx = ex.ctx
        from pyvc.exec import LIBS
        L = z3.Int("finest_level")
        lim = z3.Int("limit_option") if self.limit_given else None
        ctx.assume(L >= 0)
        if lim is not None:
            ctx.assume(z3.And(lim >= 0, lim <= L))
        G = z3.Function("GRIDSIZE", I, I, I)
        FI = z3.Int("index_of_variable")
        eff0 = L if lim is None else lim
        ctx.assume(z3.And(*[G(eff0, d) >= 1 for d in range(3)]))       # RepPC: grid sizes are positive
        built = []
        plot = Opaque("plotfile", "path")

        def mk(ex_, args, kw):
            built.append((list(args), dict(kw)))
            ll = kw.get("limit_level", args[1] if len(args) > 1 else None)
            eff = L if ll is None else ll
            gs = SymSeq(to_z3(L) + 1, lambda lv: Vec([G(to_z3(lv), d) for d in range(3)], "array"), "list")
            return Record("amr_kitchen.plotfile_cooker.PlotfileCooker", ndims=3, fields={"the_variable": FI, "other": z3.Int("other_index")},
                          limit_level=eff, max_level=L, grid_sizes=gs)
        self.contracts = {"amr_kitchen.plotfile_cooker.PlotfileCooker.__new__": mk}
        LIBS[("humanize", "naturalsize")] = lambda ex_, args, kw: (args[0], "some size")[1]      # a text for the prompt only
        args = Record("Namespace", plotfile=plot, limit_level=lim, variable="the_variable", dtype="float32", nochecks=True, outfile=None)
        return {"frame": {"args": args}, "built": built, "L": L, "lim": lim, "G": G, "FI": FI, "plot": plot}

    def post(self, ex, inp, out):
        ctx = ex.ctx
        ctx.oblige("raises-nothing", out.kind == "ret", "P", note=str(out.exc) if out.kind != "ret" else "")
        if out.kind != "ret":
            return
        built = [b for b in inp["built"] if not b[1].get("header_only")]
        ctx.structure("post.one-full-reader-built", len(built) == 1)
        if len(built) != 1:
            return
        a, kw = built[0]
        ll = kw.get("limit_level", a[1] if len(a) > 1 else None)
        ctx.oblige("post.reader-opens-the-requested-plotfile", a and a[0] is inp["plot"], "P")
        if inp["lim"] is None:
            ctx.oblige("post.no-limit-means-every-level", ll is None or bool(ctx.entails(to_z3(ll) == inp["L"])), "P")
        else:
            ctx.oblige("post.reader-gets-the-requested-limit-zero-included", ll is not None and to_z3(ll) == inp["lim"], "P")
        eff = inp["L"] if inp["lim"] is None else inp["lim"]
        data = out.value["data"]
        ctx.oblige("post.grid-has-the-size-of-the-limit-level", zand(*[to_z3(data.shape[d]) == inp["G"](eff, d) for d in range(3)]) if len(data.shape) == 3 else False, "P")
        ctx.oblige("post.grid-has-the-requested-type", str(data.dtype) in ("float32", "f4"), "P", note=str(data.dtype))
        ctx.oblige("post.field-index-is-the-readers", out.value["FIELD_INDEX"] is inp["FI"] or to_z3(out.value["FIELD_INDEX"]) == inp["FI"], "P")
        ctx.oblige("post.field-count-is-the-readers", veq(ctx, out.value["N_FIELDS"], 2), "P")


def expand3_contract_any(ex, args, kw):
    """expand_array3d by its contract (proved for the kernel in C10's U tasks): out[x,y,z] = arr[x//f, y//f, z//f], concrete f"""
    arr, fac = args
    from pyvc.ops import as_ndarray
    f = as_const(to_z3(fac)) if is_z3(fac) else fac
    if not isinstance(f, int) or f < 1:
        raise Unsupported("expand_array3d: symbolic factor")
    a = as_ndarray(arr)
    e, _ = a.snapshot()
    return NDArray([simp(to_z3(n) * f) for n in a.shape], lambda ix: e(tuple(to_z3(i) / f for i in ix)), a.dtype)


class WhipGrid(FragmentTask):
    """main from the allocation of the grid to the end of the level loop, two levels (real code; the reading worker by its
    interface: the FABs of its file, each with its own index range; expand_array3d by its contract): a coarse box covering the
    whole domain and a fine box somewhere inside, any sizes.  Whatever order the files of a level complete in, afterwards every
    cell of the uniform grid holds the fine value where the fine box covers it and the replicated coarse value elsewhere -
    finer data is painted after (over) coarser data."""
    prop = "C10"
    reach = "S"
    qual = WH + "main"
    first = staticmethod(_src("data = np.zeros("))
    # ... to the last loop / pool statement of that block (everything that fills the grid; what follows only saves it)
    last = staticmethod(lambda s: isinstance(s, (ast.For, ast.With, ast.While)))

    def __init__(self):
        self.name = "whip.main.grid-of-two-levels"

    def setup(self, ex):
        ctx = ex.ctx
        from pyvc.exec import LIBS
        from pyvc.task import require_return_arity
        require_return_arity(ex, [WH + "readfieldfrombinfile"], 2)
        n = [z3.Int(f"n{d}") for d in range(3)]
        lo1 = [z3.Int(f"flo{d}") for d in range(3)]
        hi1 = [z3.Int(f"fhi{d}") for d in range(3)]
        for d in range(3):
            ctx.assume(z3.And(n[d] >= 1, lo1[d] >= 0, hi1[d] >= lo1[d], hi1[d] < 2 * n[d]))
        A0, A1 = z3.Function("COARSE", I, I, I, R), z3.Function("FINE", I, I, I, R)
        files = [["p/Level_0/Cell_D_00000"], ["p/Level_1/Cell_D_00000"]]
        boxes = {files[0][0]: ([0, 0, 0], [n[d] - 1 for d in range(3)], A0), files[1][0]: (lo1, hi1, A1)}

        def worker(ex_, args, kw):
            a = args[0]
            lo, hi, fn = boxes[str(a.get("fname"))]
            arr = NDArray([simp(to_z3(hi[d]) - to_z3(lo[d]) + 1) for d in range(3)], lambda ix, fn=fn: fn(*[to_z3(i) for i in ix]), "f8")
            return ([[Vec(list(lo), "array"), Vec(list(hi), "array")]], [arr])
        self.contracts = {WH + "readfieldfrombinfile": worker, "amr_kitchen.utils.expand_array3d": expand3_contract_any}
        LIBS[("os.path", "getsize")] = lambda ex_, a, k: (a[0], z3.Int("some_size"))[1]
        pck = Record("amr_kitchen.plotfile_cooker.PlotfileCooker", cells=[{"files": files[0]}, {"files": files[1]}], limit_level=1,
                     grid_sizes=[Vec(list(n), "array"), Vec([2 * x for x in n], "array")])
        args = Record("Namespace", dtype="float64")
        frame = {"pck": pck, "args": args, "N_FIELDS": z3.Int("N_FIELDS"), "FIELD_INDEX": z3.Int("FIELD_INDEX")}
        return {"frame": frame, "n": n, "lo1": lo1, "hi1": hi1, "A0": A0, "A1": A1}

    def post(self, ex, inp, out):
        ctx = ex.ctx
        ctx.oblige("raises-nothing", out.kind == "ret", "P", note=str(out.exc) if out.kind != "ret" else "")
        if out.kind != "ret":
            return
        from pyvc.ops import as_ndarray
        data = as_ndarray(out.value["data"])
        n, lo1, hi1 = inp["n"], inp["lo1"], inp["hi1"]
        c = [ctx.fresh(f"c{d}") for d in range(3)]
        ctx.add_pc(z3.And(*[z3.And(c[d] >= 0, c[d] < 2 * n[d]) for d in range(3)]))
        ctx.oblige("post.grid-has-the-size-of-the-finest-selected-level", zand(*[to_z3(data.shape[d]) == 2 * n[d] for d in range(3)]) if len(data.shape) == 3 else False, "P")
        fine = z3.And(*[z3.And(c[d] >= lo1[d], c[d] <= hi1[d]) for d in range(3)])
        want = z3.If(fine, inp["A1"](*[c[d] - lo1[d] for d in range(3)]), inp["A0"](*[c[d] / 2 for d in range(3)]))
        ctx.oblige("post.every-cell-holds-the-finest-data-covering-it-coarser-cells-replicated", to_z3(data.elem(tuple(c))) == want, "P")


def parent_tasks(tier):
    return [PaintBox(f) for f in ((1, 2) if tier == "quick" else (1, 2, 4, 8))] + [ReadInputs(), OptionWiring(True), OptionWiring(False), WhipGrid()]


def parent_canaries():
    f = "amr_kitchen/whip/cli.py"
    return [("whip: upper corner of the footprint without the +1",
             [(f, "                             factor * idx[0][1]:(idx[1][1]+1) * factor,", "                             factor * idx[0][1]:idx[1][1] * factor + 1,")],
             ["whip.main.paint-one-box[factor=2]"]),
            ("whip: the largest file is left out",
             [(f, "                          'fname':binfiles[i]} for i in read_order]", "                          'fname':binfiles[i]} for i in read_order[1:]]")],
             ["whip.main.every-file-read-once"]),
            ("whip: a level limit of 0 is taken for 'no limit'",
             [(f, "pck = PlotfileCooker(args.plotfile, limit_level=args.limit_level)", "pck = PlotfileCooker(args.plotfile, limit_level=args.limit_level or None)")],
             ["whip.main.option-wiring[limit given]"]),
            ("whip: levels painted from the finest to the coarsest",
             [(f, "        for lv in range(pck.limit_level + 1):", "        for lv in range(pck.limit_level, -1, -1):")],
             ["whip.main.grid-of-two-levels"])]


def tasks(tier):
    return parent_tasks(tier)


def canaries(tier):
    return parent_canaries()
