"""whip's main, parent side (C10): every binary file of a level is read exactly once, and one returned box is painted into
the uniform grid exactly on its footprint at the finest selected level.  Fragments of whip.cli.main, mechanically extracted."""
import ast
import z3
from pyvc.vals import *  # noqa
from pyvc.task import FragmentTask
from pyvc.vc import veq

WH = "amr_kitchen.whip.cli."
I, R = z3.IntSort(), z3.RealSort()


def _src(pattern):
    return lambda s: pattern in ast.unparse(s).split("\n")[0]


def expand3_contract_const(f):
    def c(ex, args, kw):
        arr, fac = args
        from pyvc.ops import as_ndarray
        a = as_ndarray(arr)
        e, _ = a.snapshot()
        return NDArray([simp(to_z3(n) * f) for n in a.shape], lambda ix: e(tuple(to_z3(i) / f for i in ix)), a.dtype)
    return c


class PaintBox(FragmentTask):
    """The loop writing the boxes one worker returned into the uniform grid, for a result holding ONE box with index range
    [lo, hi] at a level whose cells are f = 2**(limit - lv) finest cells wide: afterwards grid cell c holds arr[(c - f*lo) // f]
    (the level cell containing c) when f*lo <= c < f*(hi+1) in every direction, and its previous value otherwise.
    f is a skeleton parameter (1, 2, 4); box, grid and contents unbounded."""
    prop = "C10"
    reach = "S"
    qual = WH + "main"
    first = staticmethod(_src("for idx, arr in zip(res[0], res[1])"))
    last = first

    def __init__(self, f):
        self.f = f
        self.name = f"whip.main.paint-one-box[factor={f}]"

    def setup(self, ex):
        ctx = ex.ctx
        f = self.f
        lo = [z3.Int(f"lo{d}") for d in range(3)]
        hi = [z3.Int(f"hi{d}") for d in range(3)]
        G = [z3.Int(f"G{d}") for d in range(3)]
        for d in range(3):
            ctx.assume(z3.And(lo[d] >= 0, hi[d] >= lo[d], f * (hi[d] + 1) <= G[d]))
        A = z3.Function("BOX", I, I, I, R)
        OLD = z3.Function("OLD", I, I, I, R)
        arr = NDArray([hi[d] - lo[d] + 1 for d in range(3)], lambda ix: A(*[to_z3(i) for i in ix]), "f8")
        data = NDArray(list(G), lambda ix: OLD(*[to_z3(i) for i in ix]), "f8")
        self.contracts = {"amr_kitchen.utils.expand_array3d": expand3_contract_const(f)}
        frame = {"res": ([[Vec(lo, "array"), Vec(hi, "array")]], [arr]), "data": data, "factor": f}
        return {"frame": frame, "lo": lo, "hi": hi, "G": G, "A": A, "OLD": OLD}

    def post(self, ex, inp, out):
        ctx = ex.ctx
        ctx.oblige("raises-nothing", out.kind == "ret", "P", note=str(out.exc) if out.kind != "ret" else "")
        if out.kind != "ret":
            return
        f, lo, hi, G, A, OLD = self.f, inp["lo"], inp["hi"], inp["G"], inp["A"], inp["OLD"]
        data = out.value["data"]
        c = [ctx.fresh(f"c{d}") for d in range(3)]
        ctx.add_pc(z3.And(*[z3.And(c[d] >= 0, c[d] < G[d]) for d in range(3)]))
        inside = z3.And(*[z3.And(f * lo[d] <= c[d], c[d] < f * (hi[d] + 1)) for d in range(3)])
        want = z3.If(inside, A(*[(c[d] - f * lo[d]) / f for d in range(3)]), OLD(*c))
        ctx.oblige("post.grid-cell-holds-its-level-cell-inside-the-footprint-and-is-untouched-outside", to_z3(data.elem(tuple(c))) == want, "P")


class ReadInputs(FragmentTask):
    """The statements building the worker inputs of one level: whatever the file sizes, every distinct binary file of the
    level is named by exactly one input (the size ordering is a permutation), each with the field count and the field index.
    Skeleton: 4 boxes over 3 files, symbolic sizes."""
    prop = "C10"
    reach = "S"
    qual = WH + "main"
    first = staticmethod(_src("binfiles = np.unique("))
    last = staticmethod(FragmentTask.assigns("mp_inputs"))

    def __init__(self):
        self.name = "whip.main.every-file-read-once"

    def setup(self, ex):
        files = ["p/Level_0/Cell_D_00002", "p/Level_0/Cell_D_00000", "p/Level_0/Cell_D_00002", "p/Level_0/Cell_D_00001"]
        sizes = {f: z3.Int(f"size_{f[-1]}") for f in set(files)}
        from pyvc.exec import LIBS
        self.saved = LIBS.get(("os.path", "getsize"))

        def getsize(ex_, args, kw):
            return sizes[str(args[0])]
        LIBS[("os.path", "getsize")] = getsize
        pck = Record("amr_kitchen.plotfile_cooker.PlotfileCooker", cells=[{"files": list(files)}], limit_level=0)
        nf, fi = z3.Int("N_FIELDS"), z3.Int("FIELD_INDEX")
        return {"frame": {"pck": pck, "lv": 0, "N_FIELDS": nf, "FIELD_INDEX": fi}, "files": sorted(set(files)), "nf": nf, "fi": fi}

    def post(self, ex, inp, out):
        from pyvc.exec import LIBS
        if self.saved is not None:
            LIBS[("os.path", "getsize")] = self.saved
        else:
            LIBS.pop(("os.path", "getsize"), None)
        ctx = ex.ctx
        ctx.oblige("raises-nothing", out.kind == "ret", "P", note=str(out.exc) if out.kind != "ret" else "")
        if out.kind != "ret":
            return
        mp = out.value.get("mp_inputs")
        ok = isinstance(mp, list) and all(isinstance(m, dict) for m in mp)
        ctx.structure("post.inputs-are-a-list-of-dicts", ok)
        if not ok:
            return
        names = sorted(str(m.get("fname")) for m in mp)
        ctx.oblige("post.every-distinct-file-named-exactly-once", names == inp["files"], "P", note=f"{names} vs {inp['files']}")
        ctx.oblige("post.field-count-and-index-passed-through", all(m.get("N_FIELDS") is inp["nf"] and m.get("FIELD_INDEX") is inp["fi"] for m in mp), "P")


def parent_tasks(tier):
    return [PaintBox(f) for f in ((1, 2) if tier == "quick" else (1, 2, 4, 8))] + [ReadInputs()]


def parent_canaries():
    f = "amr_kitchen/whip/cli.py"
    return [("whip: upper corner of the footprint without the +1",
             [(f, "                             factor * idx[0][1]:(idx[1][1]+1) * factor,", "                             factor * idx[0][1]:idx[1][1] * factor + 1,")],
             ["whip.main.paint-one-box[factor=2]"]),
            ("whip: the largest file is left out",
             [(f, "                          'fname':binfiles[i]} for i in read_order]", "                          'fname':binfiles[i]} for i in read_order[1:]]")],
             ["whip.main.every-file-read-once"])]


def tasks(tier):
    return parent_tasks(tier)


def canaries(tier):
    return parent_canaries()
