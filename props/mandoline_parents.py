"""Parent-side bookkeeping of mandoline under contract (C07, C08, C16): which boxes are handed to the workers."""
import ast
import z3
from pyvc.vals import *  # noqa
from pyvc.task import Task, FragmentTask
from pyvc.vc import veq
from pyvc.loops import LoopSpec
from spec.filt import Filt

MM = "amr_kitchen.mandoline.mandoline.Mandoline."
I, R = z3.IntSort(), z3.RealSort()


class MpInput3d(Task):
    """compute_mpinput_3d(lv): the worker inputs are, in box order, exactly one entry per box of level lv whose cell-centre
    planes are needed to bracket the plane at that level.  With h = dx[lv][cn]/2 (the cell centres of level lv are h inside
    the box faces): every box with lo - h < pos < hi + h IS handed to a worker (it holds one of the two bracketing
    planes of level lv), no box with pos < lo - h or pos > hi + h is, and each entry carries that box's own index range,
    file, offset and physical bounds together with the slice parameters."""
    reach = "U"
    qual = MM + "compute_mpinput_3d"

    def __init__(self, prop, cn):
        self.prop, self.cn = prop, cn
        self.name = f"compute_mpinput_3d[normal={cn}]"

    def setup(self, ex):
        ctx = ex.ctx
        cn = self.cn
        cx, cy = [d for d in range(3) if d != cn]
        L, lv = z3.Ints("L lv")
        ctx.assume(z3.And(L >= 0, lv >= 0, lv <= L))
        NB = z3.Function("NB", I, I)
        DX = z3.Function("DX", I, I, R)
        BLO, BHI = z3.Function("BLO", I, I, I, R), z3.Function("BHI", I, I, I, R)
        ILO, IHI = z3.Function("ILO", I, I, I, I), z3.Function("IHI", I, I, I, I)
        OFF = z3.Function("OFF", I, I, I)
        pos = z3.Real("pos")
        ctx.assume(z3.And(NB(lv) >= 0, *[DX(lv, d) > 0 for d in range(3)]))
        files = lambda l, i: Opaque(("cfile", l, i), "path")
        files = lambda l, i: z3.Function("FILE", I, I, I)(to_z3(l), to_z3(i))
        box = lambda l, i: [[BLO(to_z3(l), to_z3(i), d), BHI(to_z3(l), to_z3(i), d)] for d in range(3)]
        idx = lambda l, i: [[ILO(to_z3(l), to_z3(i), d) for d in range(3)], [IHI(to_z3(l), to_z3(i), d) for d in range(3)]]
        dx = SymSeq(L + 1, lambda l: [DX(to_z3(l), d) for d in range(3)])
        boxes = SymSeq(L + 1, lambda l: SymSeq(NB(to_z3(l)), lambda i: box(l, i)))
        cells = SymSeq(L + 1, lambda l: {"indexes": SymSeq(NB(to_z3(l)), lambda i: idx(l, i)),
                                         "files": SymSeq(NB(to_z3(l)), lambda i: files(l, i)),
                                         "offsets": SymSeq(NB(to_z3(l)), lambda i: OFF(to_z3(l), to_z3(i)))})
        fidxs = Opaque("fidxs", "obj")
        self_ = Record("amr_kitchen.mandoline.mandoline.Mandoline", ndims=3, cx=cx, cy=cy, cn=cn, dx=dx, pos=pos,
                       limit_level=L, fidxs=fidxs, boxes=boxes, cells=cells)
        h = DX(lv, cn) / 2
        SEL = z3.Function("SELECTED", I, z3.BoolSort())     # ghost array: SEL(i) := 'iteration i appended an entry'
        fl = Filt(ctx, "sel", NB(lv), lambda i: SEL(to_z3(i)))
        need = lambda i: z3.And(BLO(lv, to_z3(i), cn) - h < pos, pos < BHI(lv, to_z3(i), cn) + h)
        allowed = lambda i: z3.And(BLO(lv, to_z3(i), cn) - h <= pos, pos <= BHI(lv, to_z3(i), cn) + h)
        bound = lambda i: z3.And(z3.Implies(need(i), SEL(to_z3(i))), z3.Implies(SEL(to_z3(i)), allowed(i)))
        q = z3.Int("q_")

        def entry(i):
            return {"cx": cx, "cy": cy, "cn": cn, "dx": dx, "pos": pos, "limit_level": L, "fidxs": fidxs, "Lv": lv,
                    "bidx": to_z3(i), "indexes": idx(lv, i), "cfile": files(lv, i), "offset": OFF(lv, to_z3(i)), "box": box(lv, i)}

        def ghost(ex_, fr, k):
            cur = fr.vars.get("pool_inputs")
            grew = isinstance(cur, SymSeq) and len(cur.suffix) == 1
            same = isinstance(cur, SymSeq) and len(cur.suffix) == 0
            if grew or same:
                ex_.ctx.add_pc(SEL(to_z3(k)) == grew)

        def template(ex_, fr, k, entry_):
            k3 = to_z3(k)
            inv = z3.ForAll([q], z3.Implies(z3.And(q >= 0, q < k3), bound(q)))
            return {"pool_inputs": SymSeq(fl.cnt(k3), lambda p: entry(fl.idx(p))),
                    "__assume__": [z3.And(k3 >= 0, k3 <= NB(lv)), fl.step(k3), inv],
                    "__assert__": [("in-range", k3 <= NB(lv)), ("selection-bounds", inv)],
                    "__ghost__": [ghost]}
        self.loopspecs = {(self.qual, 0): LoopSpec(template)}
        return {"self": self_, "args": [lv], "lv": lv, "NB": NB, "fl": fl, "entry": entry, "need": need, "allowed": allowed,
                "SEL": SEL}

    def post(self, ex, inp, out):
        ctx = ex.ctx
        ctx.oblige("raises-nothing", out.kind == "ret", "P", note=str(out.exc) if out.kind != "ret" else "")
        if out.kind != "ret":
            return
        fl, lv, NB, SEL = inp["fl"], inp["lv"], inp["NB"], inp["SEL"]
        n = NB(lv)
        v = out.value
        ctx.oblige("post.entries-are-the-selected-boxes-in-order",
                   veq(ctx, v, SymSeq(fl.cnt(n), lambda p: inp["entry"](fl.idx(p)))), "P")
        i = ctx.fresh("i")
        with ctx.scoped(z3.And(i >= 0, i < n, fl.at_index(i, n))):
            # every needed box has exactly the entry of rank CNT(i); no box outside the closed half-cell neighbourhood has one
            ctx.oblige("post.every-needed-box-is-handed-to-a-worker", z3.Implies(inp["need"](i), z3.And(SEL(i), fl.cnt(i) < fl.cnt(n))), "P")
            ctx.oblige("post.no-box-away-from-the-plane-is-read", z3.Implies(SEL(i), inp["allowed"](i)), "P")
        p = ctx.fresh("p")
        ctx.add_pc(z3.And(p >= 0, p < fl.cnt(n), fl.at_rank(p, n)))
        ctx.oblige("post.each-entry-belongs-to-a-selected-box-of-the-level",
                   z3.And(fl.idx(p) >= 0, fl.idx(p) < n, SEL(fl.idx(p))), "P")


class MpInput2d(Task):
    """compute_mpinput_2d(lv): one worker input per box of the level, in box order, each with that box's own index range,
    file, offset and physical bounds (no box skipped, none twice)."""
    reach = "U"
    qual = MM + "compute_mpinput_2d"

    def __init__(self, prop):
        self.prop = prop
        self.name = "compute_mpinput_2d"

    def setup(self, ex):
        ctx = ex.ctx
        L, lv = z3.Ints("L lv")
        ctx.assume(z3.And(L >= 0, lv >= 0, lv <= L))
        NB = z3.Function("NB", I, I)
        ctx.assume(NB(lv) >= 0)
        BLO, BHI = z3.Function("BLO", I, I, I, R), z3.Function("BHI", I, I, I, R)
        ILO, IHI = z3.Function("ILO", I, I, I, I), z3.Function("IHI", I, I, I, I)
        OFF, FILE = z3.Function("OFF", I, I, I), z3.Function("FILE", I, I, I)
        DX = z3.Function("DX", I, I, R)
        box = lambda l, i: [[BLO(to_z3(l), to_z3(i), d), BHI(to_z3(l), to_z3(i), d)] for d in range(2)]
        idx = lambda l, i: [[ILO(to_z3(l), to_z3(i), d) for d in range(2)], [IHI(to_z3(l), to_z3(i), d) for d in range(2)]]
        dx = SymSeq(L + 1, lambda l: [DX(to_z3(l), d) for d in range(2)])
        boxes = SymSeq(L + 1, lambda l: SymSeq(NB(to_z3(l)), lambda i: box(l, i)))
        cells = SymSeq(L + 1, lambda l: {"indexes": SymSeq(NB(to_z3(l)), lambda i: idx(l, i)),
                                         "files": SymSeq(NB(to_z3(l)), lambda i: FILE(to_z3(l), to_z3(i))),
                                         "offsets": SymSeq(NB(to_z3(l)), lambda i: OFF(to_z3(l), to_z3(i)))})
        fidxs = Opaque("fidxs", "obj")
        self_ = Record("amr_kitchen.mandoline.mandoline.Mandoline", ndims=2, dx=dx, limit_level=L, fidxs=fidxs, boxes=boxes, cells=cells)

        def entry(i):
            return {"cx": 0, "cy": 1, "dx": dx, "limit_level": L, "fidxs": fidxs, "Lv": lv, "indexes": idx(lv, i),
                    "cfile": FILE(lv, to_z3(i)), "offset": OFF(lv, to_z3(i)), "box": box(lv, i)}

        def template(ex_, fr, k, entry_):
            k3 = to_z3(k)
            return {"pool_inputs": SymSeq(k3, lambda p: entry(p)),
                    "__assume__": [z3.And(k3 >= 0, k3 <= NB(lv))], "__assert__": [("in-range", k3 <= NB(lv))]}
        self.loopspecs = {(self.qual, 0): LoopSpec(template)}
        return {"self": self_, "args": [lv], "n": NB(lv), "entry": entry}

    def post(self, ex, inp, out):
        ctx = ex.ctx
        ctx.oblige("raises-nothing", out.kind == "ret", "P", note=str(out.exc) if out.kind != "ret" else "")
        if out.kind != "ret":
            return
        ctx.oblige("post.one-entry-per-box-in-order", veq(ctx, out.value, SymSeq(inp["n"], lambda p: inp["entry"](p))), "P")


def parent_tasks(prop, nd=3):
    if nd == 2:
        return [MpInput2d(prop)]
    return [MpInput3d(prop, cn) for cn in range(3)]


def parent_canaries(nd=3):
    if nd == 2:
        return [("compute_mpinput_2d: every entry tagged with the finest level",
                 [("amr_kitchen/mandoline/mandoline.py", "                     'Lv':lv,\n                     'indexes':indexes,",
                   "                     'Lv':self.limit_level,\n                     'indexes':indexes,")],
                 ["compute_mpinput_2d"])]
    return [("compute_mpinput_3d: half cell of the finest level used on every level",
             [("amr_kitchen/mandoline/mandoline.py", "half_dx = self.dx[lv][self.cn]/2", "half_dx = self.dx[self.limit_level][self.cn]/2")],
             ["compute_mpinput_3d[normal=1]"]),
            ("compute_mpinput_3d: entry carries the offset of the previous box",
             [("amr_kitchen/mandoline/mandoline.py", "'offset':self.cells[lv]['offsets'][idx],", "'offset':self.cells[lv]['offsets'][idx - 1],")],
             ["compute_mpinput_3d[normal=0]"])]


def tasks(tier):
    return parent_tasks("CXX") + parent_tasks("CXX", 2)


def canaries(tier):
    return parent_canaries() + parent_canaries(2)


# ---------------------------------------------------------------------------------------------------------------------
# the interpolation kernels


def _src(pattern):
    import ast
    return lambda s: pattern in ast.unparse(s).split("\n")[0]


def _close(x, y):
    d = x - y
    ad = z3.If(d >= 0, d, -d)
    ay = z3.If(y >= 0, y, -y)
    return ad <= to_real(1e-8) + to_real(1e-5) * ay


class InterpKernel(FragmentTask):
    """reducemp_data_ortho, the interpolation statements: given the left / right sample planes L_i, R_i and their normal
    coordinates NL, NR on the finest-level pixel grid, every pixel (X, Y) of every output array i is
        (L_i (NR - pos) + R_i (pos - NL)) / (NR - NL)     where NL and NR differ (not np.isclose),
        R_i                                               where they coincide,
    the array is transposed (pixel (X, Y) at [Y, X]) and no pixel is left uninitialised (np.empty is modelled as unknown
    values with an 'initialised' bit).  Pixel grid size, plane contents and position unbounded; number of fields a skeleton
    parameter."""
    reach = "U"
    qual = MM + "reducemp_data_ortho"
    first = staticmethod(_src("all_data = []"))
    last = staticmethod(lambda s: s.__class__.__name__ == "For" and "self.nfidxs" in __import__("ast").unparse(s.iter) and "term1" in __import__("ast").unparse(s))

    def __init__(self, prop, nf):
        self.prop, self.nf = prop, nf
        self.name = f"reducemp_data_ortho.interpolation[fields={nf}]"

    def setup(self, ex):
        ctx = ex.ctx
        NX, NY = z3.Ints("NX NY")
        ctx.assume(z3.And(NX >= 1, NY >= 1))
        pos = z3.Real("pos")
        F2 = lambda name: z3.Function(name, I, I, R)
        L = [F2(f"L{i}") for i in range(self.nf)]
        Rr = [F2(f"R{i}") for i in range(self.nf)]
        NL, NR = F2("NL"), F2("NR")
        arr = lambda f: NDArray([NX, NY], lambda ix, f=f: f(to_z3(ix[0]), to_z3(ix[1])), "f8")
        left = {"data": [arr(f) for f in L], "normal": arr(NL)}
        right = {"data": [arr(f) for f in Rr], "normal": arr(NR)}
        from pyvc.libnp import np_empty
        self.contracts = {MM + "limit_level_arr": lambda ex_, a, k: np_empty(ex_, [(NX, NY)], {})}
        self_ = Record("amr_kitchen.mandoline.mandoline.Mandoline", nfidxs=self.nf, pos=pos, do_grid=False)
        return {"frame": {"self": self_, "left": left, "right": right}, "NX": NX, "NY": NY, "pos": pos, "L": L, "R": Rr, "NL": NL, "NR": NR}

    def post(self, ex, inp, out):
        ctx = ex.ctx
        ctx.oblige("raises-nothing", out.kind == "ret", "P", note=str(out.exc) if out.kind != "ret" else "")
        if out.kind != "ret":
            return
        ad = out.value.get("all_data")
        ok = isinstance(ad, list) and len(ad) == self.nf and all(isinstance(a, NDArray) and a.ndim == 2 for a in ad)
        ctx.structure("post.one-array-per-field", ok)
        if not ok:
            return
        NX, NY, pos, NL, NR = inp["NX"], inp["NY"], inp["pos"], inp["NL"], inp["NR"]
        X, Y = ctx.fresh("X"), ctx.fresh("Y")
        ctx.add_pc(z3.And(X >= 0, X < NX, Y >= 0, Y < NY))
        for i, a in enumerate(ad):
            ctx.oblige(f"post.field{i}.transposed-shape", zand(to_z3(a.shape[0]) == NY, to_z3(a.shape[1]) == NX), "P")
            e, init = a.snapshot()
            nl, nr, l, r = NL(X, Y), NR(X, Y), inp["L"][i](X, Y), inp["R"][i](X, Y)
            want = z3.If(z3.Not(_close(nl, nr)), (l * (nr - pos) + r * (pos - nl)) / (nr - nl), r)
            ctx.oblige(f"post.field{i}.every-pixel-is-the-interpolation-of-its-two-samples", to_z3(e((Y, X))) == want, "P")
            ctx.oblige(f"post.field{i}.no-pixel-left-uninitialised", True if init is None else to_z3(init((Y, X))), "P")


class InterpKernelByLevel(InterpKernel):
    """interpolate_bylevel, the per-level interpolation statements (same formula, one set of planes per level, not
    transposed): every pixel of every level array is the interpolation of THAT level's two samples, none uninitialised.
    Levels are a skeleton parameter (the loop is unrolled); the NaN bookkeeping before it is covered by the run-time layer."""
    qual = MM + "interpolate_bylevel"
    last = staticmethod(lambda s: s.__class__.__name__ == "For" and "limit_level" in __import__("ast").unparse(s.iter) and "term1" in __import__("ast").unparse(s))

    def __init__(self, prop, nf, nlev):
        self.prop, self.nf, self.nlev = prop, nf, nlev
        self.name = f"interpolate_bylevel.interpolation[fields={nf},levels={nlev}]"

    def setup(self, ex):
        ctx = ex.ctx
        NX, NY = z3.Ints("NX NY")
        ctx.assume(z3.And(NX >= 1, NY >= 1))
        pos = z3.Real("pos")
        F3 = lambda name: z3.Function(name, I, I, I, R)
        L = [F3(f"L{i}") for i in range(self.nf)]
        Rr = [F3(f"R{i}") for i in range(self.nf)]
        NL, NR = F3("NL"), F3("NR")
        arr = lambda f, lv: NDArray([NX, NY], lambda ix, f=f, lv=lv: f(lv, to_z3(ix[0]), to_z3(ix[1])), "f8")
        left = [{"data": [arr(f, lv) for f in L], "normal": arr(NL, lv)} for lv in range(self.nlev)]
        right = [{"data": [arr(f, lv) for f in Rr], "normal": arr(NR, lv)} for lv in range(self.nlev)]
        from pyvc.libnp import np_empty
        self.contracts = {MM + "limit_level_arr": lambda ex_, a, k: np_empty(ex_, [(NX, NY)], {})}
        self_ = Record("amr_kitchen.mandoline.mandoline.Mandoline", nfidxs=self.nf, pos=pos, limit_level=self.nlev - 1)
        return {"frame": {"self": self_, "left": left, "right": right}, "NX": NX, "NY": NY, "pos": pos, "L": L, "R": Rr, "NL": NL, "NR": NR}

    def post(self, ex, inp, out):
        ctx = ex.ctx
        ctx.oblige("raises-nothing", out.kind == "ret", "P", note=str(out.exc) if out.kind != "ret" else "")
        if out.kind != "ret":
            return
        ad = out.value.get("all_data")
        ok = isinstance(ad, list) and len(ad) == self.nlev and all(isinstance(l, list) and len(l) == self.nf and
                                                                   all(isinstance(a, NDArray) and a.ndim == 2 for a in l) for l in ad)
        ctx.structure("post.one-array-per-level-and-field", ok)
        if not ok:
            return
        NX, NY, pos, NL, NR = inp["NX"], inp["NY"], inp["pos"], inp["NL"], inp["NR"]
        X, Y = ctx.fresh("X"), ctx.fresh("Y")
        ctx.add_pc(z3.And(X >= 0, X < NX, Y >= 0, Y < NY))
        for lv in range(self.nlev):
            for i, a in enumerate(ad[lv]):
                ctx.oblige(f"post.level{lv}.field{i}.shape", zand(to_z3(a.shape[0]) == NX, to_z3(a.shape[1]) == NY), "P")
                e, init = a.snapshot()
                nl, nr, l, r = NL(lv, X, Y), NR(lv, X, Y), inp["L"][i](lv, X, Y), inp["R"][i](lv, X, Y)
                want = z3.If(z3.Not(_close(nl, nr)), (l * (nr - pos) + r * (pos - nl)) / (nr - nl), r)
                ctx.oblige(f"post.level{lv}.field{i}.every-pixel-is-the-interpolation-of-that-level's-samples", to_z3(e((X, Y))) == want, "P")
                ctx.oblige(f"post.level{lv}.field{i}.no-pixel-left-uninitialised", True if init is None else to_z3(init((X, Y))), "P")


class PaintOutput(FragmentTask):
    """reducemp_data_ortho, the body of the level loop for ONE worker output (the statements computing the first / last
    cell-centre coordinate of the level and the loop over the level's outputs, here a one-element list): the left (right)
    plane of the output is written into the left (right) arrays exactly on the output's footprint, with its normal
    coordinate, and nowhere else; a left plane lying on the LAST cell centre of the level (geo_high - dx/2: no cell beyond it
    inside the domain) is also used as the right plane, and dually a right plane on the FIRST centre (geo_low + dx/2).
    Pixel-grid size, footprint, plane contents, previous array contents unbounded; one field; which planes the output has is
    a task parameter."""
    reach = "U"
    qual = MM + "reducemp_data_ortho"
    first = staticmethod(FragmentTask.assigns("first_grid_pt"))
    last = staticmethod(lambda s: s.__class__.__name__ == "For" and "plane_data[Lv]" in __import__("ast").unparse(s.iter))
    unordered = True

    def __init__(self, prop, has_left, has_right, cn=1):
        self.prop, self.hl, self.hr, self.cn = prop, has_left, has_right, cn
        self.name = f"reducemp_data_ortho.paint-one-output[left={has_left},right={has_right}]"

    def setup(self, ex):
        ctx = ex.ctx
        cn = self.cn
        NX, NY = z3.Ints("NX NY")
        xa, xo, ya, yo = z3.Ints("xa xo ya yo")
        ctx.assume(z3.And(NX >= 1, NY >= 1, 0 <= xa, xa <= xo, xo <= NX, 0 <= ya, ya <= yo, yo <= NY))
        L, Lv = z3.Ints("L Lv")
        ctx.assume(z3.And(Lv >= 0, Lv <= L))
        DX = z3.Function("DX", I, I, R)
        glo = [z3.Real(f"glo{d}") for d in range(3)]
        ghi = [z3.Real(f"ghi{d}") for d in range(3)]
        F2 = lambda name: z3.Function(name, I, I, R)
        B2 = lambda name: z3.Function(name, I, I, z3.BoolSort())
        old = {k: F2(k) for k in ("oLd", "oLn", "oRd", "oRn")}
        oldi = {k: B2(k + "_init") for k in ("oLd", "oLn", "oRd", "oRn")}
        arr = lambda k: NDArray([NX, NY], lambda ix, k=k: old[k](to_z3(ix[0]), to_z3(ix[1])), "f8",
                                init=lambda ix, k=k: oldi[k](to_z3(ix[0]), to_z3(ix[1])))
        left = {"data": [arr("oLd")], "normal": arr("oLn")}
        right = {"data": [arr("oRd")], "normal": arr("oRn")}
        PL, PR = F2("PLANE_L"), F2("PLANE_R")
        nl, nr = z3.Real("normal_l"), z3.Real("normal_r")
        plane = lambda f: NDArray([xo - xa, yo - ya], lambda ix, f=f: f(to_z3(ix[0]), to_z3(ix[1])), "f8")
        mk = lambda f, n: {"sx": [xa, xo], "sy": [ya, yo], "data": [plane(f)], "normal": n, "level": Lv}
        output = [mk(PL, nl) if self.hl else None, mk(PR, nr) if self.hr else None, Opaque("hdr", "obj"), z3.Int("bidx")]
        self_ = Record("amr_kitchen.mandoline.mandoline.Mandoline", cn=cn, geo_low=list(glo), geo_high=list(ghi),
                       dx=SymSeq(L + 1, lambda l: [DX(to_z3(l), d) for d in range(3)]), do_grid=False, limit_level=L, nfidxs=1)
        plane_data = SymSeq(L + 1, lambda l: [output])
        frame = {"self": self_, "Lv": Lv, "plane_data": plane_data, "left": left, "right": right, "grid_level": None}
        return {"frame": frame, "NX": NX, "NY": NY, "fp": (xa, xo, ya, yo), "old": old, "oldi": oldi, "PL": PL, "PR": PR, "nl": nl, "nr": nr,
                "first": glo[cn] + DX(Lv, cn) / 2, "last": ghi[cn] - DX(Lv, cn) / 2}

    def post(self, ex, inp, out):
        ctx = ex.ctx
        ctx.oblige("raises-nothing", out.kind == "ret", "P", note=str(out.exc) if out.kind != "ret" else "")
        if out.kind != "ret":
            return
        v = out.value
        NX, NY = inp["NX"], inp["NY"]
        xa, xo, ya, yo = inp["fp"]
        X, Y = ctx.fresh("X"), ctx.fresh("Y")
        ctx.add_pc(z3.And(X >= 0, X < NX, Y >= 0, Y < NY))
        inside = z3.And(xa <= X, X < xo, ya <= Y, Y < yo)
        old, oldi, nl, nr = inp["old"], inp["oldi"], inp["nl"], inp["nr"]
        pl, pr = inp["PL"](X - xa, Y - ya), inp["PR"](X - xa, Y - ya)
        # what the four arrays must hold at (X, Y): start from the old contents, apply the left plane, then the right one
        st = {k: (old[k](X, Y), oldi[k](X, Y)) for k in old}

        def put(key, val):
            st[key] = (z3.If(inside, val, st[key][0]), z3.Or(inside, st[key][1]))
        if self.hl:
            put("oLd", pl)
            put("oLn", nl)
            on_last = _close(nl, inp["last"])
            st["oRd"] = (z3.If(z3.And(inside, on_last), pl, st["oRd"][0]), z3.Or(z3.And(inside, on_last), st["oRd"][1]))
            st["oRn"] = (z3.If(z3.And(inside, on_last), nl, st["oRn"][0]), z3.Or(z3.And(inside, on_last), st["oRn"][1]))
        if self.hr:
            put("oRd", pr)
            put("oRn", nr)
            on_first = _close(nr, inp["first"])
            st["oLd"] = (z3.If(z3.And(inside, on_first), pr, st["oLd"][0]), z3.Or(z3.And(inside, on_first), st["oLd"][1]))
            st["oLn"] = (z3.If(z3.And(inside, on_first), nr, st["oLn"][0]), z3.Or(z3.And(inside, on_first), st["oLn"][1]))
        got = {"oLd": v["left"]["data"][0], "oLn": v["left"]["normal"], "oRd": v["right"]["data"][0], "oRn": v["right"]["normal"]}
        names = {"oLd": "left-data", "oLn": "left-normal", "oRd": "right-data", "oRn": "right-normal"}
        for k, a in got.items():
            e, init = a.snapshot()
            ini = True if init is None else init((X, Y))
            ctx.oblige(f"post.{names[k]}.initialised-exactly-where-painted-or-before", to_z3(ini) == st[k][1], "P")
            ctx.oblige(f"post.{names[k]}.value", z3.Implies(st[k][1], to_z3(e((X, Y))) == st[k][0]), "P")


class FieldsInSlice(Task):
    """fields_in_slice: the names attached to the output arrays follow the order of the requested component indices (the order
    the workers produce the arrays in), the grid_level marker (None) excluded.  Real code on bounded skeletons."""
    reach = "S"
    qual = MM + "fields_in_slice"

    def __init__(self, prop, nf, fidxs):
        self.prop, self.nf, self.fidxs = prop, nf, list(fidxs)
        self.name = f"fields_in_slice[nf={nf},fidxs={self.fidxs}]"

    def setup(self, ex):
        names = [f"field{k}" for k in range(self.nf)]
        self_ = Record("amr_kitchen.mandoline.mandoline.Mandoline", fields={n: k for k, n in enumerate(names)}, fidxs=list(self.fidxs))
        return {"self": self_, "args": [], "names": names}

    def post(self, ex, inp, out):
        ctx = ex.ctx
        ctx.oblige("raises-nothing", out.kind == "ret", "P", note=str(out.exc) if out.kind != "ret" else "")
        if out.kind != "ret":
            return
        exp = [inp["names"][k] for k in self.fidxs if k is not None]
        got = list(out.value) if isinstance(out.value, (list, tuple)) else out.value
        ctx.oblige("post.names-in-the-order-of-the-requested-components", got == exp, "P", note=f"{got} vs {exp}")


class PlaneCoordinates(Task):
    """slice_plane_coordinates: x_grid[i] and y_grid[j] are the cell-centre coordinates of the finest selected level along the
    two in-plane axes, geo_low + (i + 1/2) dx of THAT level and axis, as many as that level has cells (unbounded: level limit,
    grid sizes, geometry symbolic; reals for floats)."""
    reach = "U"
    qual = MM + "slice_plane_coordinates"

    def __init__(self, prop, cn):
        self.prop, self.cn = prop, cn
        self.name = f"slice_plane_coordinates[normal={cn}]"

    def setup(self, ex):
        ctx = ex.ctx
        cn = self.cn
        cx, cy = [d for d in range(3) if d != cn]
        L, lim = z3.Ints("L lim")
        ctx.assume(z3.And(lim >= 0, lim <= L))
        DX, N = z3.Function("DX", I, I, R), z3.Function("N", I, I, I)
        glo = [z3.Real(f"glo{d}") for d in range(3)]
        ghi = [z3.Real(f"ghi{d}") for d in range(3)]
        for d in range(3):
            ctx.assume(z3.And(DX(lim, d) > 0, N(lim, d) >= 1, ghi[d] - glo[d] == to_real(N(lim, d)) * DX(lim, d)))
        ctx.ghost["linstep_hints"] = [DX(lim, cx), DX(lim, cy)]
        self_ = Record("amr_kitchen.mandoline.mandoline.Mandoline", cx=cx, cy=cy, cn=cn, pos=z3.Real("pos"), limit_level=lim,
                       geo_low=list(glo), geo_high=list(ghi), dx=SymSeq(L + 1, lambda l: [DX(to_z3(l), d) for d in range(3)]),
                       grid_sizes=SymSeq(L + 1, lambda l: Vec([N(to_z3(l), d) for d in range(3)], "array")))
        return {"self": self_, "args": [], "cx": cx, "cy": cy, "lim": lim, "DX": DX, "N": N, "glo": glo}

    def post(self, ex, inp, out):
        ctx = ex.ctx
        ctx.oblige("raises-nothing", out.kind == "ret", "P", note=str(out.exc) if out.kind != "ret" else "")
        if out.kind != "ret":
            return
        v = out.value
        ok = isinstance(v, tuple) and len(v) == 2 and all(isinstance(a, NDArray) and a.ndim == 1 for a in v)
        ctx.structure("post.two-coordinate-vectors", ok)
        if not ok:
            return
        lim, DX, N, glo = inp["lim"], inp["DX"], inp["N"], inp["glo"]
        i = ctx.fresh("i")
        for nm, a, ax in (("x", v[0], inp["cx"]), ("y", v[1], inp["cy"])):
            ctx.oblige(f"post.{nm}-has-one-entry-per-cell-of-the-finest-selected-level", to_z3(a.shape[0]) == N(lim, ax), "P")
            ctx.oblige(f"post.{nm}[i]-is-the-cell-centre", z3.Implies(z3.And(i >= 0, i < N(lim, ax)),
                                                                      to_z3(a.elem((i,))) == glo[ax] + DX(lim, ax) / 2 + to_real(i) * DX(lim, ax)), "P")


class PlateTail(FragmentTask):
    """Mandoline.plate, the closing statements between the painted arrays and the formatter: EVERY array handed on - the requested
    fields and, when asked for, the level map, which is the last one - is the transpose of what was painted as [x, y] (the output
    convention is [y, x]).  Array sizes and contents symbolic; the two statements may come in either order."""
    reach = "U"
    qual = MM + "plate"
    first = staticmethod(lambda s: "all_data.append(grid_level)" in ast.unparse(s))
    last = staticmethod(lambda s: ".T" in ast.unparse(s) and "all_data" in ast.unparse(s) and not isinstance(s, ast.If))
    unordered = True

    def __init__(self, prop, do_grid):
        self.prop, self.do_grid = prop, do_grid
        self.name = f"plate.every-output-array-transposed[grid_level={do_grid}]"

    def setup(self, ex):
        nx, ny = z3.Int("nx"), z3.Int("ny")
        ex.ctx.assume(z3.And(nx >= 1, ny >= 1))
        A, G = z3.Function("PAINTED", I, I, R), z3.Function("LEVELS", I, I, R)
        a = NDArray([nx, ny], lambda ix: A(to_z3(ix[0]), to_z3(ix[1])), "f8")
        g = NDArray([nx, ny], lambda ix: G(to_z3(ix[0]), to_z3(ix[1])), "f8")
        self_ = Record("amr_kitchen.mandoline.mandoline.Mandoline", do_grid=self.do_grid)
        frame = {"self": self_, "all_data": [a]}
        if self.do_grid:
            frame["grid_level"] = g
        return {"frame": frame, "A": A, "G": G, "nx": nx, "ny": ny}

    def post(self, ex, inp, out):
        ctx = ex.ctx
        ctx.oblige("raises-nothing", out.kind == "ret", "P", note=str(out.exc) if out.kind != "ret" else "")
        if out.kind != "ret":
            return
        from pyvc.ops import as_ndarray
        ad = out.value["all_data"]
        n = 2 if self.do_grid else 1
        ctx.oblige("post.one-array-per-field-then-the-level-map", isinstance(ad, list) and len(ad) == n, "P")
        if not (isinstance(ad, list) and len(ad) == n):
            return
        i, j = ctx.fresh("i"), ctx.fresh("j")
        ctx.add_pc(z3.And(i >= 0, i < inp["nx"], j >= 0, j < inp["ny"]))
        for t, F in enumerate([inp["A"], inp["G"]][:n]):
            arr = as_ndarray(ad[t])
            nm = "field" if t == 0 else "level-map"
            ctx.oblige(f"post.{nm}-array-has-shape-(ny,nx)", zand(to_z3(arr.shape[0]) == inp["ny"], to_z3(arr.shape[1]) == inp["nx"]) if len(arr.shape) == 2 else False, "P")
            if len(arr.shape) == 2:
                ctx.oblige(f"post.{nm}-array[y,x]-is-what-was-painted-at-[x,y]", to_z3(arr.elem((j, i))) == F(i, j), "P")


class FormatArrayOutput(Task):
    """format_array_output: the array of the t-th requested field is stored under ITS name (fields_in_slice order), 'grid_level'
    holds the last array when requested, and x / y / time / slice_pos / slice_normal / dx are the plane coordinates, the
    plotfile time, the position, the normal's name and the in-plane cell size.  Real code on bounded skeletons."""
    reach = "S"
    qual = MM + "format_array_output"
    inline = (MM + "fields_in_slice",)

    def __init__(self, prop, fidxs, cn):
        self.prop, self.fidxs, self.cn = prop, list(fidxs), cn
        self.name = f"format_array_output[fidxs={self.fidxs},normal={cn}]"

    def setup(self, ex):
        names = ["alpha", "beta", "gamma"]
        nreal = len([k for k in self.fidxs if k is not None])
        arrays = [Opaque(f"array{t}", "obj") for t in range(nreal)] + ([Opaque("levels", "obj")] if None in self.fidxs else [])
        X = z3.Function("XG", I, R)
        xg = NDArray([z3.Int("nx")], lambda ix: X(to_z3(ix[0])), "f8")
        yg = Opaque("ygrid", "obj")
        ex.ctx.assume(z3.Int("nx") >= 3)
        self.contracts = {MM + "slice_plane_coordinates": lambda ex_, a, k: (xg, yg)}
        time, pos = z3.Real("time"), z3.Real("pos")
        self_ = Record("amr_kitchen.mandoline.mandoline.Mandoline", fields={n: k for k, n in enumerate(names)}, fidxs=list(self.fidxs),
                       do_grid=None in self.fidxs, time=time, pos=pos, cn=self.cn, coordnames={0: "x", 1: "y", 2: "z", 3: "2D"})
        return {"self": self_, "args": [list(arrays)], "arrays": arrays, "names": names, "xg": xg, "yg": yg, "X": X, "time": time, "pos": pos}

    def post(self, ex, inp, out):
        ctx = ex.ctx
        ctx.oblige("raises-nothing", out.kind == "ret", "P", note=str(out.exc) if out.kind != "ret" else "")
        if out.kind != "ret":
            return
        o = out.value
        ok = isinstance(o, dict)
        ctx.structure("post.returns-a-dict", ok)
        if not ok:
            return
        real = [k for k in self.fidxs if k is not None]
        for t, k in enumerate(real):
            ctx.oblige(f"post.array-{t}-stored-under-its-own-name", o.get(inp["names"][k]) is inp["arrays"][t], "P", note=str(list(o)))
        if None in self.fidxs:
            ctx.oblige("post.grid_level-is-the-last-array", o.get("grid_level") is inp["arrays"][-1], "P")
        else:
            ctx.oblige("post.no-grid_level-unless-requested", "grid_level" not in o, "P")
        ctx.oblige("post.no-other-field-names", set(o) <= {"x", "y", "time", "dx", "slice_normal", "slice_pos", "grid_level"} | {inp["names"][k] for k in real}, "P", note=str(list(o)))
        ctx.oblige("post.coordinates", o.get("x") is inp["xg"] and o.get("y") is inp["yg"], "P")
        ctx.oblige("post.time-position-normal", zand(veq(ctx, o.get("time"), inp["time"]), veq(ctx, o.get("slice_pos"), inp["pos"]),
                                                     o.get("slice_normal") == {0: "x", 1: "y", 2: "z"}[self.cn]), "P")
        ctx.oblige("post.dx-is-the-spacing-of-the-x-grid", veq(ctx, o.get("dx"), inp["X"](2) - inp["X"](1)), "P")


def aux_tasks(prop):
    return [PlaneCoordinates(prop, 0), PlaneCoordinates(prop, 2), FormatArrayOutput(prop, [2, 0], 1), FormatArrayOutput(prop, [1, None], 0),
            FormatArrayOutput(prop, [None], 2)] + ([PlateTail(prop, True), PlateTail(prop, False)] if prop == "C08" else [])


def aux_canaries():
    f = "amr_kitchen/mandoline/mandoline.py"
    return [("plane coordinates: y grid built with the x cell size",
             [(f, "                             - self.dx[self.limit_level][self.cy]/2,\n                             self.grid_sizes[self.limit_level][self.cy])",
               "                             - self.dx[self.limit_level][self.cx]/2,\n                             self.grid_sizes[self.limit_level][self.cy])")],
             ["slice_plane_coordinates[normal=0]"]),
            ("format_array_output: grid_level taken from the first array",
             [(f, "            output['grid_level'] = all_data[-1]", "            output['grid_level'] = all_data[0]")],
             ["format_array_output[fidxs=[1, None],normal=0]"])]


class SliceComposition(Task):
    """Mandoline.slice with fformat='return' (3D), every callee by its contract: for each level 0..limit_level, in increasing
    order, the workers are applied to exactly that level's inputs (compute_mpinput_3d(Lv)) and their results, in input order,
    become plane_data[Lv]; the reduction gets that list and its result goes through format_array_output to the caller.  Level
    limit and number of inputs per level unbounded; serial and pool mode."""
    reach = "U"
    qual = MM + "slice"

    def __init__(self, prop, serial):
        self.prop, self.serial = prop, serial
        self.name = f"Mandoline.slice.composition[{'serial' if serial else 'pool'}]"

    def setup(self, ex):
        ctx = ex.ctx
        L = z3.Int("L")
        ctx.assume(L >= 0)
        NI = z3.Function("NI", I, I)
        t = z3.Int("t_")
        ctx.assume(z3.ForAll([t], NI(t) >= 0))
        IN, OUT = z3.Function("IN", I, I, I), z3.Function("OUTV", I, I)
        got = {}
        marker_all, marker_out = Opaque("all_data", "obj"), Opaque("formatted", "obj")

        def mpinput(ex_, a, k):
            lv = a[-1]
            return SymSeq(NI(to_z3(lv)), lambda i: IN(to_z3(lv), to_z3(i)), "list")

        def worker(ex_, a, k):
            return OUT(to_z3(a[0]))

        def reduce_(ex_, a, k):
            got["plane_data"] = a[-1]
            return marker_all

        def fmt(ex_, a, k):
            got["formatted_from"] = a[-1]
            return marker_out
        self.contracts = {MM + "compute_mpinput_3d": mpinput, "amr_kitchen.mandoline.blades.slice_box": worker,
                          MM + "reducemp_data_ortho": reduce_, MM + "format_array_output": fmt,
                          MM + "define_slicing_coordinates": lambda ex_, a, k: (1, 0, 2, a[-1])}
        self_ = Record("amr_kitchen.mandoline.mandoline.Mandoline", ndims=3, cn=0, cx=1, cy=2, pos=z3.Real("pos0"), limit_level=L,
                       serial=self.serial, v=0)

        def template(ex_, fr, k, entry):
            k3 = to_z3(k)
            return {"plane_data": SymSeq(k3, lambda l: SymSeq(NI(to_z3(l)), lambda i: OUT(IN(to_z3(l), to_z3(i))), "list"), "list"),
                    "__assume__": [z3.And(k3 >= 0, k3 <= L + 1)], "__assert__": [("in-range", k3 <= L + 1)]}
        self.loopspecs = {(self.qual, 0): LoopSpec(template)}
        return {"self": self_, "args": [], "kwargs": {"normal": 1, "pos": z3.Real("pos"), "fformat": "return"}, "got": got, "L": L, "NI": NI,
                "IN": IN, "OUT": OUT, "marker_all": marker_all, "marker_out": marker_out}

    def post(self, ex, inp, out):
        ctx = ex.ctx
        ctx.oblige("raises-nothing", out.kind == "ret", "P", note=str(out.exc) if out.kind != "ret" else "")
        if out.kind != "ret":
            return
        got, L, NI, IN, OUT = inp["got"], inp["L"], inp["NI"], inp["IN"], inp["OUT"]
        ctx.oblige("post.returns-the-formatted-reduction", out.value is inp["marker_out"] and got.get("formatted_from") is inp["marker_all"], "P")
        pd = got.get("plane_data")
        ok = isinstance(pd, SymSeq)
        ctx.structure("post.reduction-gets-the-per-level-lists", ok)
        if ok:
            ctx.oblige("post.every-level-up-to-the-limit-with-its-own-inputs-in-order",
                       veq(ctx, pd, SymSeq(L + 1, lambda l: SymSeq(NI(to_z3(l)), lambda i: OUT(IN(to_z3(l), to_z3(i))), "list"), "list")), "P")
        me = inp["self"].attrs
        ctx.oblige("post.slicing-coordinates-stored", zand(veq(ctx, me.get("cn"), 1), veq(ctx, me.get("cx"), 0), veq(ctx, me.get("cy"), 2),
                                                          veq(ctx, me.get("pos"), z3.Real("pos"))), "P")


def composition_tasks(prop, nd=3):
    if nd == 2:
        return [PlateCovering(prop, True), PlateCovering(prop, False)]
    return [SliceComposition(prop, True), SliceComposition(prop, False)]


def composition_canaries(nd=3):
    if nd == 2:
        # (a wrong painting order leaves the quantified invariants undecided - no counter-model with quantifiers -; this canary is
        # one the proof layer refutes)
        return [("Mandoline.plate: result arrays not transposed",
                 [("amr_kitchen/mandoline/mandoline.py", "        for i, data in enumerate(all_data):\n            all_data[i] = data.T\n\n        if fformat == \"return\":",
                   "        for i, data in enumerate(all_data):\n            all_data[i] = data\n\n        if fformat == \"return\":")],
                 ["Mandoline.plate.covering-grid[serial]"])]
    return [("Mandoline.slice: the finest selected level is not read",
             [("amr_kitchen/mandoline/mandoline.py", "        plane_data = []\n        # For a given level\n        for Lv in range(self.limit_level + 1):",
               "        plane_data = []\n        # For a given level\n        for Lv in range(self.limit_level):")],
             ["Mandoline.slice.composition[serial]"])]


class PlateCovering(Task):
    """Mandoline.plate (2D plotfiles, fformat='return'), the whole method with its callees by contract and nested loop invariants:
    every level 0..limit is read with its own inputs, and after the painting loops pixel (X, Y) of the (transposed) result holds
    the value box (l, i) gives it, where (l, i) is the LAST box in (level, input) order whose footprint contains the pixel - i.e.
    a box of the FINEST level covering the pixel; a pixel no box covers stays uninitialised (there is none in a well-formed
    plotfile: level 0 covers the domain).  Unbounded in the level limit, the number of boxes per level, footprints and data; one
    requested field."""
    reach = "U"
    qual = MM + "plate"

    def __init__(self, prop, serial):
        self.prop, self.serial = prop, serial
        self.name = f"Mandoline.plate.covering-grid[{'serial' if serial else 'pool'}]"

    def setup(self, ex):
        ctx = ex.ctx
        B = z3.BoolSort()
        L, NX, NY = z3.Ints("L NX NY")
        ctx.assume(z3.And(L >= 0, NX >= 1, NY >= 1))
        NI = z3.Function("NI", I, I)
        XA, XO, YA, YO = (z3.Function(n, I, I, I) for n in ("XA", "XO", "YA", "YO"))
        DATA = z3.Function("DATA", I, I, I, I, R)
        t, u = z3.Int("t_"), z3.Int("u_")
        ctx.assume(z3.ForAll([t], NI(t) >= 0, patterns=[NI(t)]))
        ctx.assume(z3.ForAll([t, u], z3.And(0 <= XA(t, u), XA(t, u) <= XO(t, u), XO(t, u) <= NX, 0 <= YA(t, u), YA(t, u) <= YO(t, u), YO(t, u) <= NY),
                             patterns=[XA(t, u)]))
        foot = lambda l, i, X, Y: z3.And(XA(l, i) <= X, X < XO(l, i), YA(l, i) <= Y, Y < YO(l, i))
        val = lambda l, i, X, Y: DATA(l, i, X - XA(l, i), Y - YA(l, i))
        # ghost: after all outputs of levels < k and outputs < j of level k: value, initialised bit, and who painted last
        W, WI = z3.Function("W", I, I, I, I, R), z3.Function("WI", I, I, I, I, B)
        WL, WJ = z3.Function("WL", I, I, I, I, I), z3.Function("WJ", I, I, I, I, I)
        X_, Y_ = z3.Int("X_"), z3.Int("Y_")
        before = lambda l, i, k, j: z3.Or(l < k, z3.And(l == k, i < j))
        ctx.assume(z3.ForAll([X_, Y_], z3.And(z3.Not(WI(0, 0, X_, Y_)), WL(0, 0, X_, Y_) == -1), patterns=[WI(0, 0, X_, Y_)]))

        def inv(k, j):
            wl, wj = WL(k, j, X_, Y_), WJ(k, j, X_, Y_)
            a = z3.ForAll([X_, Y_], z3.Implies(z3.And(X_ >= 0, X_ < NX, Y_ >= 0, Y_ < NY), z3.And(
                WI(k, j, X_, Y_) == (wl >= 0),
                z3.Or(wl == -1, z3.And(wl >= 0, wj >= 0, wj < NI(wl), before(wl, wj, k, j), foot(wl, wj, X_, Y_),
                                       W(k, j, X_, Y_) == val(wl, wj, X_, Y_))))), patterns=[WL(k, j, X_, Y_)])
            b = z3.ForAll([X_, Y_, t, u], z3.Implies(z3.And(X_ >= 0, X_ < NX, Y_ >= 0, Y_ < NY, t >= 0, u >= 0, u < NI(t), before(t, u, k, j),
                                                            foot(t, u, X_, Y_)),
                                                     z3.Or(t < wl, z3.And(t == wl, u <= wj))), patterns=[z3.MultiPattern(WL(k, j, X_, Y_), XA(t, u))])
            return z3.And(a, b)

        def step(k, j):      # painting output j of level k
            f = foot(k, j, X_, Y_)
            return z3.ForAll([X_, Y_], z3.And(W(k, j + 1, X_, Y_) == z3.If(f, val(k, j, X_, Y_), W(k, j, X_, Y_)),
                                              WI(k, j + 1, X_, Y_) == z3.Or(f, WI(k, j, X_, Y_)),
                                              WL(k, j + 1, X_, Y_) == z3.If(f, k, WL(k, j, X_, Y_)),
                                              WJ(k, j + 1, X_, Y_) == z3.If(f, j, WJ(k, j, X_, Y_))), patterns=[WL(k, j + 1, X_, Y_)])

        def nextlevel(k):    # (k+1, 0) is (k, NI(k))
            return z3.ForAll([X_, Y_], z3.And(W(k + 1, 0, X_, Y_) == W(k, NI(k), X_, Y_), WI(k + 1, 0, X_, Y_) == WI(k, NI(k), X_, Y_),
                                              WL(k + 1, 0, X_, Y_) == WL(k, NI(k), X_, Y_), WJ(k + 1, 0, X_, Y_) == WJ(k, NI(k), X_, Y_)),
                             patterns=[WL(k + 1, 0, X_, Y_)])
        arr = lambda k, j: NDArray([NX, NY], lambda ix: W(to_z3(k), to_z3(j), to_z3(ix[0]), to_z3(ix[1])), "f8",
                                   init=lambda ix: WI(to_z3(k), to_z3(j), to_z3(ix[0]), to_z3(ix[1])))

        def outd(l, i):
            l, i = to_z3(l), to_z3(i)
            return {"sx": [XA(l, i), XO(l, i)], "sy": [YA(l, i), YO(l, i)], "level": l, "header": HDR,
                    "data": [NDArray([XO(l, i) - XA(l, i), YO(l, i) - YA(l, i)], lambda ix: DATA(l, i, to_z3(ix[0]), to_z3(ix[1])), "f8")]}
        HDR = Opaque("hdr", "obj")
        planes = lambda k: SymSeq(k, lambda l: SymSeq(NI(to_z3(l)), lambda i: outd(l, i), "list"), "list")

        def norm(ex_, k, cands):
            """a loop counter given as an expression with min/max in it (length of range(...)): the plain term it equals"""
            k3 = to_z3(k)
            if z3.is_int_value(k3) or (z3.is_const(k3) and k3.decl().kind() == z3.Z3_OP_UNINTERPRETED):
                return k3
            for c in cands:
                if ex_.ctx.entails(k3 == c):
                    return c
            return k3

        def t_read(ex_, fr, k, entry):
            k3 = norm(ex_, k, [L + 1])
            return {"plane_data": planes(k3), "__assume__": [z3.And(k3 >= 0, k3 <= L + 1)], "__assert__": [("in-range", k3 <= L + 1)]}

        def t_levels(ex_, fr, k, entry):
            k3 = norm(ex_, k, [L + 1])
            return {"all_data": [arr(k3, 0)], "__assume__": [z3.And(k3 >= 0, k3 <= L + 1), inv(k3, 0), nextlevel(k3)],
                    "__assert__": [("in-range", k3 <= L + 1), ("last-painter-invariant", inv(k3, 0))]}

        def t_outputs(ex_, fr, j, entry):
            k3 = to_z3(fr.vars["Lv"])
            j3 = norm(ex_, j, [NI(k3)])
            return {"all_data": [arr(k3, j3)], "__assume__": [z3.And(j3 >= 0, j3 <= NI(k3)), inv(k3, j3), step(k3, j3)],
                    "__assert__": [("in-range", j3 <= NI(k3)), ("last-painter-invariant", inv(k3, j3))]}
        self.loopspecs = {(self.qual, 0): LoopSpec(t_read), (self.qual, 1): LoopSpec(t_levels), (self.qual, 2): LoopSpec(t_outputs)}
        from pyvc.libnp import np_empty
        got = {}

        def fmt(ex_, a, k):
            got["all_data"] = a[-1]
            return Opaque("formatted", "obj")
        self.contracts = {MM + "compute_mpinput_2d": lambda ex_, a, k: SymSeq(NI(to_z3(a[-1])), lambda i: (to_z3(a[-1]), to_z3(i)), "list"),
                          "amr_kitchen.mandoline.blades.plate_box": lambda ex_, a, k: outd(a[0][0], a[0][1]),
                          MM + "limit_level_arr": lambda ex_, a, k: np_empty(ex_, [(NX, NY)], {}),
                          MM + "format_array_output": fmt, MM + "default_output_path": lambda ex_, a, k: "out"}
        self_ = Record("amr_kitchen.mandoline.mandoline.Mandoline", ndims=2, limit_level=L, serial=self.serial, v=0, nfidxs=1, do_grid=False)
        return {"self": self_, "args": [], "kwargs": {"fformat": "return"}, "got": got, "L": L, "NX": NX, "NY": NY, "NI": NI, "foot": foot,
                "val": val, "WL": WL, "WJ": WJ}

    def post(self, ex, inp, out):
        ctx = ex.ctx
        ctx.oblige("raises-nothing", out.kind == "ret", "P", note=str(out.exc) if out.kind != "ret" else "")
        if out.kind != "ret":
            return
        ad = inp["got"].get("all_data")
        ok = isinstance(ad, list) and len(ad) == 1 and isinstance(ad[0], NDArray) and ad[0].ndim == 2
        ctx.structure("post.one-array-handed-to-the-formatter", ok)
        if not ok:
            return
        a = ad[0]
        L, NX, NY, NI, foot, val, WL, WJ = (inp[k] for k in ("L", "NX", "NY", "NI", "foot", "val", "WL", "WJ"))
        X, Y = ctx.fresh("X"), ctx.fresh("Y")
        ctx.add_pc(z3.And(X >= 0, X < NX, Y >= 0, Y < NY))
        ctx.oblige("post.transposed-shape", zand(to_z3(a.shape[0]) == NY, to_z3(a.shape[1]) == NX), "P")
        e, init = a.snapshot()
        ini = True if init is None else init((Y, X))
        wl, wj = WL(L + 1, 0, X, Y), WJ(L + 1, 0, X, Y)
        l, i = ctx.fresh("l"), ctx.fresh("i")
        covered = z3.And(l >= 0, l <= L, i >= 0, i < NI(l), foot(l, i, X, Y))
        ctx.oblige("post.a-covered-pixel-is-initialised-and-holds-the-value-of-a-box-covering-it",
                   z3.Implies(covered, z3.And(to_z3(ini), wl >= 0, wl <= L, wj >= 0, wj < NI(wl), foot(wl, wj, X, Y), to_z3(e((Y, X))) == val(wl, wj, X, Y))), "P")
        ctx.oblige("post.that-box-is-of-the-finest-level-covering-the-pixel", z3.Implies(covered, l <= wl), "P")
        ctx.oblige("post.only-covered-pixels-are-initialised", z3.Implies(to_z3(ini), z3.And(wl >= 0, foot(wl, wj, X, Y))), "P")


def names_tasks(prop):
    return [FieldsInSlice(prop, 3, [2, 0]), FieldsInSlice(prop, 3, [1, None]), FieldsInSlice(prop, 4, [3, 1, 2, None]), FieldsInSlice(prop, 2, [None])]


def names_canaries():
    return [("fields_in_slice: names in plotfile order",
             [("amr_kitchen/mandoline/mandoline.py", "        field_names = [all_names[idx] for idx in self.fidxs if idx is not None]",
               "        field_names = [name for idx, name in enumerate(self.fields) if idx in self.fidxs]")],
             ["fields_in_slice[nf=3,fidxs=[2, 0]]"])]


def kernel_tasks2(prop, which=("ortho",)):
    out = []
    if "ortho" in which:
        out += [InterpKernel(prop, 1), InterpKernel(prop, 2)]
    if "bylevel" in which:
        out += [InterpKernelByLevel(prop, 1, 2), InterpKernelByLevel(prop, 2, 1)]
    if "paint" in which:
        out += [PaintOutput(prop, True, False), PaintOutput(prop, False, True), PaintOutput(prop, True, True)]
    return out


def kernel_canaries2(which=("ortho",)):
    f = "amr_kitchen/mandoline/mandoline.py"
    if "bylevel" in which:
        return [("interpolate_bylevel: level 0 planes used on every level",
                 [(f, "                term3 = right[lv]['normal'][bint] - left[lv]['normal'][bint]", "                term3 = right[0]['normal'][bint] - left[0]['normal'][bint]")],
                 ["interpolate_bylevel.interpolation[fields=1,levels=2]"])]
    if "paint" in which:
        return [("reducemp: first cell centre of the level taken without the domain origin",
                 [(f, "            first_grid_pt = self.geo_low[self.cn] + self.dx[Lv][self.cn]/2", "            first_grid_pt = self.dx[Lv][self.cn]/2")],
                 ["reducemp_data_ortho.paint-one-output[left=False,right=True]"]),
                ("reducemp: right plane written with x and y footprints exchanged",
                 [(f, "                    for i, arr in enumerate(left['data']):\n                        right['data'][i][xa:xo, ya:yo] = out['data'][i]\n                    right['normal'][xa:xo, ya:yo] = out['normal']",
                   "                    for i, arr in enumerate(left['data']):\n                        right['data'][i][ya:yo, xa:xo] = out['data'][i]\n                    right['normal'][xa:xo, ya:yo] = out['normal']")],
                 ["reducemp_data_ortho.paint-one-output[left=False,right=True]"])]
    return [("reducemp: interpolation weights swapped",
             [(f, "            term1 = left['data'][i][bint] * (right['normal'][bint] - self.pos) ", "            term1 = left['data'][i][bint] * (self.pos - left['normal'][bint]) "),
              (f, "            term2 = right['data'][i][bint] * (self.pos - left['normal'][bint])", "            term2 = right['data'][i][bint] * (right['normal'][bint] - self.pos)")],
             ["reducemp_data_ortho.interpolation[fields=1]"]),
            ("reducemp: coinciding planes left unfilled",
             [(f, "            data[~bint] = right['data'][i][~bint]\n            # For some reason", "            # For some reason")],
             ["reducemp_data_ortho.interpolation[fields=1]"])]


def tasks(tier):
    return parent_tasks("CXX") + parent_tasks("CXX", 2) + kernel_tasks2("CXX", ("ortho", "bylevel", "paint")) + aux_tasks("CXX") + composition_tasks("CXX") + composition_tasks("CXX", 2)


def canaries(tier):
    return parent_canaries() + parent_canaries(2) + kernel_canaries2() + kernel_canaries2(("bylevel",)) + kernel_canaries2(("paint",)) + aux_canaries() + composition_canaries() + composition_canaries(2)
