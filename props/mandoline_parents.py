"""Parent-side bookkeeping of mandoline under contract (C07, C08, C16): which boxes are handed to the workers."""
import z3
from pyvc.vals import *  # noqa
from pyvc.task import Task
from pyvc.vc import veq
from pyvc.loops import LoopSpec
from spec.filt import Filt

MM = "amr_kitchen.mandoline.mandoline.Mandoline."
I, R = z3.IntSort(), z3.RealSort()


class MpInput3d(Task):
    """compute_mpinput_3d(lv): the worker inputs are, in box order, exactly one entry per box of level lv whose cell-centre
    planes are needed to bracket the plane at that level.  With h = dx[lv][cn]/2 (the cell centres of level lv are h inside
    the box faces): every box with lo - h < pos < hi + h IS handed to a worker (it holds one of the two bracketing
    planes of level lv), no box with pos < lo - h or pos > hi + h is, and each entry carries that box's own index range,
    file, offset and physical bounds together with the slice parameters."""
    reach = "U"
    qual = MM + "compute_mpinput_3d"

    def __init__(self, prop, cn):
        self.prop, self.cn = prop, cn
        self.name = f"compute_mpinput_3d[normal={cn}]"

    def setup(self, ex):
        ctx = ex.ctx
        cn = self.cn
        cx, cy = [d for d in range(3) if d != cn]
        L, lv = z3.Ints("L lv")
        ctx.assume(z3.And(L >= 0, lv >= 0, lv <= L))
        NB = z3.Function("NB", I, I)
        DX = z3.Function("DX", I, I, R)
        BLO, BHI = z3.Function("BLO", I, I, I, R), z3.Function("BHI", I, I, I, R)
        ILO, IHI = z3.Function("ILO", I, I, I, I), z3.Function("IHI", I, I, I, I)
        OFF = z3.Function("OFF", I, I, I)
        pos = z3.Real("pos")
        ctx.assume(z3.And(NB(lv) >= 0, *[DX(lv, d) > 0 for d in range(3)]))
        files = lambda l, i: Opaque(("cfile", l, i), "path")
        files = lambda l, i: z3.Function("FILE", I, I, I)(to_z3(l), to_z3(i))
        box = lambda l, i: [[BLO(to_z3(l), to_z3(i), d), BHI(to_z3(l), to_z3(i), d)] for d in range(3)]
        idx = lambda l, i: [[ILO(to_z3(l), to_z3(i), d) for d in range(3)], [IHI(to_z3(l), to_z3(i), d) for d in range(3)]]
        dx = SymSeq(L + 1, lambda l: [DX(to_z3(l), d) for d in range(3)])
        boxes = SymSeq(L + 1, lambda l: SymSeq(NB(to_z3(l)), lambda i: box(l, i)))
        cells = SymSeq(L + 1, lambda l: {"indexes": SymSeq(NB(to_z3(l)), lambda i: idx(l, i)),
                                         "files": SymSeq(NB(to_z3(l)), lambda i: files(l, i)),
                                         "offsets": SymSeq(NB(to_z3(l)), lambda i: OFF(to_z3(l), to_z3(i)))})
        fidxs = Opaque("fidxs", "obj")
        self_ = Record("amr_kitchen.mandoline.mandoline.Mandoline", ndims=3, cx=cx, cy=cy, cn=cn, dx=dx, pos=pos,
                       limit_level=L, fidxs=fidxs, boxes=boxes, cells=cells)
        h = DX(lv, cn) / 2
        SEL = z3.Function("SELECTED", I, z3.BoolSort())     # ghost array: SEL(i) := 'iteration i appended an entry'
        fl = Filt(ctx, "sel", NB(lv), lambda i: SEL(to_z3(i)))
        need = lambda i: z3.And(BLO(lv, to_z3(i), cn) - h < pos, pos < BHI(lv, to_z3(i), cn) + h)
        allowed = lambda i: z3.And(BLO(lv, to_z3(i), cn) - h <= pos, pos <= BHI(lv, to_z3(i), cn) + h)
        bound = lambda i: z3.And(z3.Implies(need(i), SEL(to_z3(i))), z3.Implies(SEL(to_z3(i)), allowed(i)))
        q = z3.Int("q_")

        def entry(i):
            return {"cx": cx, "cy": cy, "cn": cn, "dx": dx, "pos": pos, "limit_level": L, "fidxs": fidxs, "Lv": lv,
                    "bidx": to_z3(i), "indexes": idx(lv, i), "cfile": files(lv, i), "offset": OFF(lv, to_z3(i)), "box": box(lv, i)}

        def ghost(ex_, fr, k):
            cur = fr.vars.get("pool_inputs")
            grew = isinstance(cur, SymSeq) and len(cur.suffix) == 1
            same = isinstance(cur, SymSeq) and len(cur.suffix) == 0
            if grew or same:
                ex_.ctx.add_pc(SEL(to_z3(k)) == grew)

        def template(ex_, fr, k, entry_):
            k3 = to_z3(k)
            inv = z3.ForAll([q], z3.Implies(z3.And(q >= 0, q < k3), bound(q)))
            return {"pool_inputs": SymSeq(fl.cnt(k3), lambda p: entry(fl.idx(p))),
                    "__assume__": [z3.And(k3 >= 0, k3 <= NB(lv)), fl.step(k3), inv],
                    "__assert__": [("in-range", k3 <= NB(lv)), ("selection-bounds", inv)],
                    "__ghost__": [ghost]}
        self.loopspecs = {(self.qual, 0): LoopSpec(template)}
        return {"self": self_, "args": [lv], "lv": lv, "NB": NB, "fl": fl, "entry": entry, "need": need, "allowed": allowed,
                "SEL": SEL}

    def post(self, ex, inp, out):
        ctx = ex.ctx
        ctx.oblige("raises-nothing", out.kind == "ret", "P", note=str(out.exc) if out.kind != "ret" else "")
        if out.kind != "ret":
            return
        fl, lv, NB, SEL = inp["fl"], inp["lv"], inp["NB"], inp["SEL"]
        n = NB(lv)
        v = out.value
        ctx.oblige("post.entries-are-the-selected-boxes-in-order",
                   veq(ctx, v, SymSeq(fl.cnt(n), lambda p: inp["entry"](fl.idx(p)))), "P")
        i = ctx.fresh("i")
        ctx.add_pc(z3.And(i >= 0, i < n, fl.at_index(i, n)))
        # every needed box has exactly the entry of rank CNT(i); no box outside the closed half-cell neighbourhood has one
        ctx.oblige("post.every-needed-box-is-handed-to-a-worker", z3.Implies(inp["need"](i), z3.And(SEL(i), fl.cnt(i) < fl.cnt(n))), "P")
        ctx.oblige("post.no-box-away-from-the-plane-is-read", z3.Implies(SEL(i), inp["allowed"](i)), "P")
        p = ctx.fresh("p")
        ctx.add_pc(z3.And(p >= 0, p < fl.cnt(n), fl.at_rank(p, n)))
        ctx.oblige("post.each-entry-belongs-to-a-selected-box-of-the-level",
                   z3.And(fl.idx(p) >= 0, fl.idx(p) < n, SEL(fl.idx(p))), "P")


class MpInput2d(Task):
    """compute_mpinput_2d(lv): one worker input per box of the level, in box order, each with that box's own index range,
    file, offset and physical bounds (no box skipped, none twice)."""
    reach = "U"
    qual = MM + "compute_mpinput_2d"

    def __init__(self, prop):
        self.prop = prop
        self.name = "compute_mpinput_2d"

    def setup(self, ex):
        ctx = ex.ctx
        L, lv = z3.Ints("L lv")
        ctx.assume(z3.And(L >= 0, lv >= 0, lv <= L))
        NB = z3.Function("NB", I, I)
        ctx.assume(NB(lv) >= 0)
        BLO, BHI = z3.Function("BLO", I, I, I, R), z3.Function("BHI", I, I, I, R)
        ILO, IHI = z3.Function("ILO", I, I, I, I), z3.Function("IHI", I, I, I, I)
        OFF, FILE = z3.Function("OFF", I, I, I), z3.Function("FILE", I, I, I)
        DX = z3.Function("DX", I, I, R)
        box = lambda l, i: [[BLO(to_z3(l), to_z3(i), d), BHI(to_z3(l), to_z3(i), d)] for d in range(2)]
        idx = lambda l, i: [[ILO(to_z3(l), to_z3(i), d) for d in range(2)], [IHI(to_z3(l), to_z3(i), d) for d in range(2)]]
        dx = SymSeq(L + 1, lambda l: [DX(to_z3(l), d) for d in range(2)])
        boxes = SymSeq(L + 1, lambda l: SymSeq(NB(to_z3(l)), lambda i: box(l, i)))
        cells = SymSeq(L + 1, lambda l: {"indexes": SymSeq(NB(to_z3(l)), lambda i: idx(l, i)),
                                         "files": SymSeq(NB(to_z3(l)), lambda i: FILE(to_z3(l), to_z3(i))),
                                         "offsets": SymSeq(NB(to_z3(l)), lambda i: OFF(to_z3(l), to_z3(i)))})
        fidxs = Opaque("fidxs", "obj")
        self_ = Record("amr_kitchen.mandoline.mandoline.Mandoline", ndims=2, dx=dx, limit_level=L, fidxs=fidxs, boxes=boxes, cells=cells)

        def entry(i):
            return {"cx": 0, "cy": 1, "dx": dx, "limit_level": L, "fidxs": fidxs, "Lv": lv, "indexes": idx(lv, i),
                    "cfile": FILE(lv, to_z3(i)), "offset": OFF(lv, to_z3(i)), "box": box(lv, i)}

        def template(ex_, fr, k, entry_):
            k3 = to_z3(k)
            return {"pool_inputs": SymSeq(k3, lambda p: entry(p)),
                    "__assume__": [z3.And(k3 >= 0, k3 <= NB(lv))], "__assert__": [("in-range", k3 <= NB(lv))]}
        self.loopspecs = {(self.qual, 0): LoopSpec(template)}
        return {"self": self_, "args": [lv], "n": NB(lv), "entry": entry}

    def post(self, ex, inp, out):
        ctx = ex.ctx
        ctx.oblige("raises-nothing", out.kind == "ret", "P", note=str(out.exc) if out.kind != "ret" else "")
        if out.kind != "ret":
            return
        ctx.oblige("post.one-entry-per-box-in-order", veq(ctx, out.value, SymSeq(inp["n"], lambda p: inp["entry"](p))), "P")


def parent_tasks(prop, nd=3):
    if nd == 2:
        return [MpInput2d(prop)]
    return [MpInput3d(prop, cn) for cn in range(3)]


def parent_canaries(nd=3):
    if nd == 2:
        return [("compute_mpinput_2d: every entry tagged with the finest level",
                 [("amr_kitchen/mandoline/mandoline.py", "                     'Lv':lv,\n                     'indexes':indexes,",
                   "                     'Lv':self.limit_level,\n                     'indexes':indexes,")],
                 ["compute_mpinput_2d"])]
    return [("compute_mpinput_3d: half cell of the finest level used on every level",
             [("amr_kitchen/mandoline/mandoline.py", "half_dx = self.dx[lv][self.cn]/2", "half_dx = self.dx[self.limit_level][self.cn]/2")],
             ["compute_mpinput_3d[normal=1]"]),
            ("compute_mpinput_3d: entry carries the offset of the previous box",
             [("amr_kitchen/mandoline/mandoline.py", "'offset':self.cells[lv]['offsets'][idx],", "'offset':self.cells[lv]['offsets'][idx - 1],")],
             ["compute_mpinput_3d[normal=0]"])]


def tasks(tier):
    return parent_tasks("CXX") + parent_tasks("CXX", 2)


def canaries(tier):
    return parent_canaries() + parent_canaries(2)
