"""C13 proof layer: frames of the output-path computations in the structural path algebra (pyvc.libos).

For every input path form (relative/absolute, with/without leading directories, with/without trailing separator):
  default outputs lie BESIDE the input: dirname(OUT) == dirname(normpath(IN)), OUT is not inside IN, IN is not inside OUT;
  every path handed to a write-class call by the writers is inside the requested output directory.
The statements computing the paths are mechanically extracted fragments of the real functions (everything else of the
function is dropped)."""
import ast
import z3
from pyvc.vals import *  # noqa
from pyvc.task import Task, FragmentTask
from pyvc.libos import PathVal, to_path, is_inside, comp_eq, os_path_split, os_path_normpath
from pyvc.exec import LIBS, Const, lib

FORMS = [(a, d, t) for a in (False, True) for d in (False, True) for t in (False, True)]


def make_input(tag, absolute, has_dir, trailing):
    D = Opaque(f"D{tag}", "path", absolute=absolute)
    B = Opaque(f"B{tag}", "name")
    parts = ([("dir", D)] if has_dir else []) + [("name", B)]
    return PathVal(parts, absolute, trailing), B


def form_name(f):
    a, d, t = f
    return ("abs" if a else "rel") + ("+dirs" if d else "") + ("+slash" if t else "")


def beside_obligations(ex, inp, out, label="default-output", strict=True, name_assumed=False):
    ctx = ex.ctx
    out = to_path(ex, out)
    nin = os_path_normpath(ex, [inp], {})
    if not name_assumed and not (nin.absolute and not out.absolute):
        # (a working-directory default against an absolute input: 'the working directory is not inside an input' is a
        #  stated precondition, not an obligation)
        ctx.oblige(f"{label}.not-inside-the-input", is_inside(ex, out, nin) is False, "P", note=f"{out!r} vs {nin!r}")
        if strict:
            ctx.oblige(f"{label}.input-not-inside-it", is_inside(ex, nin, out) is False, "P", note=f"{out!r} vs {nin!r}")
    din = os_path_split(ex, [nin], {})[0]
    dout = os_path_split(ex, [PathVal(out.parts, out.absolute, False)], {})[0]
    same = din.absolute == dout.absolute and len(din.parts) == len(dout.parts) and all(
        comp_eq(ex, x, y) is True for x, y in zip(din.parts, dout.parts))
    return same


class DefaultOut(FragmentTask):
    prop = "C13"
    reach = "U"

    def __init__(self, tool, form):
        self.tool, self.form = tool, form
        self.name = f"default-output[{tool},{form_name(form)}]"
        cfg = TOOLS[tool]
        self.qual = cfg["qual"]
        self.first = cfg["first"]
        self.last = cfg.get("last", cfg["first"])
        self.whole = cfg.get("whole", False)

    def setup(self, ex):
        inp, B = make_input("", *self.form)
        cfg = TOOLS[self.tool]
        frame = cfg["frame"](ex, inp)
        return {"frame": frame, "inp": inp, "B": B}

    def call(self, ex, inp):
        if self.whole:
            return TOOLS[self.tool]["run"](ex, inp)
        return FragmentTask.call(self, ex, inp)

    def post(self, ex, inp, out):
        ctx = ex.ctx
        ctx.oblige("raises-nothing", out.kind == "ret", "P", note=str(out.exc))
        if out.kind != "ret":
            return
        outs = TOOLS[self.tool]["out"](ex, inp, out.value)
        beside_cwd = TOOLS[self.tool].get("cwd_default", False)
        for o in outs:
            same = beside_obligations(ex, inp["inp"], o, strict=not beside_cwd, name_assumed=TOOLS[self.tool].get("name_assumed", False))
            if beside_cwd:
                # combine: the documented default is <name1><name2> in the working directory
                p = to_path(ex, o)
                ctx.oblige("default-output.is-one-new-name-in-the-working-directory", len(p.parts) == 1 and not p.absolute, "P", note=repr(p))
            else:
                ctx.oblige("default-output.beside-the-input", same, "P", note=repr(o))


def is_if_testing(name):
    def pred(s):
        return isinstance(s, ast.If) and name in ast.unparse(s.test) and "None" in ast.unparse(s.test)
    return pred


def chef_frame(ex, inp):
    return {"plotfile": inp, "outfile": None, "self": Record("amr_kitchen.chef.chef.Chef")}


def chk_frame(ex, inp):
    return {"chkdir": inp, "pltdir": None, "self": Record("amr_kitchen.chk2plt.chk2plt.chk2plt")}


def combine_frame(ex, inp):
    inp2, _ = make_input("2", False, True, inp.trailing)
    a0 = Record("amr_kitchen.plotfile_cooker.PlotfileCooker", pfile=inp)
    a1 = Record("amr_kitchen.plotfile_cooker.PlotfileCooker", pfile=inp2)
    return {"args": (a0, a1), "kwargs": {"pltout": None, "inplace": False}, "output": {}}


def mandoline_run(ex, inp):
    self_ = Record("amr_kitchen.mandoline.mandoline.Mandoline", pfile=inp["inp"], ndims=3, geo_high=[1.0, 1.0, 1.0],
                   geo_low=[0.0, 0.0, 0.0], pos=0.5, cn=0, coordnames={0: "x", 1: "y", 2: "z", 3: "2D"}, slicefields=["temp"])
    return ex.call_qual("amr_kitchen.mandoline.mandoline.Mandoline.default_output_path", [], {}, self_obj=self_)


class RecFS:
    def __init__(self):
        self.opened = []

    def open(self, ex, path, mode):
        from pyvc.libfile import WFile
        self.opened.append((to_path(ex, path), mode))
        if "w" in mode:
            return WFile(path, z3.Int(f"fid{len(self.opened)}"), text="b" not in mode)
        raise Unsupported("read access in a path-frame task")


def marinate_run(ex, inp):
    fs = RecFS()
    ex.ctx.ghost["fs"] = fs
    LIBS[("sys", "argv")] = Const(["marinate", inp["inp"]])
    LIBS[("pickle", "dump")] = lambda ex_, a, k: (a[0], a[1], None)[2]        # (object, open file): opaque bytes into that file
    ex.contracts["amr_kitchen.plotfile_cooker.PlotfileCooker.__new__"] = lambda ex_, a, k: Record("amr_kitchen.plotfile_cooker.PlotfileCooker")
    ex.call_qual("amr_kitchen.marinate.main", [], {})
    return fs


TOOLS = {
    "chef": {"qual": "amr_kitchen.chef.chef.Chef.__init__", "first": staticmethod(is_if_testing("outfile")), "frame": chef_frame,
             "out": lambda ex, inp, v: [v["self"].attrs.get("outdir")]},
    "chk2plt": {"qual": "amr_kitchen.chk2plt.chk2plt.chk2plt.__init__", "first": staticmethod(is_if_testing("pltdir")), "frame": chk_frame,
                "out": lambda ex, inp, v: [v["self"].attrs.get("pltdir")]},
    "combine": {"qual": "amr_kitchen.combine.combine.validate_combine_input", "first": staticmethod(is_if_testing("pltout")),
                "frame": combine_frame, "out": lambda ex, inp, v: [v["output"].get("pltout")], "cwd_default": True},
    "mandoline": {"qual": "amr_kitchen.mandoline.mandoline.Mandoline.default_output_path", "first": None, "whole": True,
                  "frame": lambda ex, inp: {}, "run": mandoline_run, "out": lambda ex, inp, v: [v], "name_assumed": True},
    "marinate": {"qual": "amr_kitchen.marinate.main", "first": None, "whole": True, "frame": lambda ex, inp: {},
                 "run": marinate_run, "out": lambda ex, inp, v: [p for p, m in v.opened]},
}
for _t in TOOLS.values():
    for _k in ("first", "last"):
        if isinstance(_t.get(_k), staticmethod):
            _t[_k] = _t[_k].__func__


# ---------------------------------------------------------------------------------------------------------------------
# write-site frames of the writers for an EXPLICIT output directory


class WriteSite(FragmentTask):
    """The path expression handed to a write-class call lies inside the requested output directory, keeps the level
    directory and the binary file name (so distinct tasks get distinct files)."""
    prop = "C13"
    reach = "U"

    def __init__(self, key, out_abs):
        cfg = SITES[key]
        self.key, self.out_abs = key, out_abs
        self.qual = cfg["qual"]
        self.first = FragmentTask.assigns(cfg["first"])
        self.last = FragmentTask.assigns(cfg["var"])
        self.name = f"write-site[{key},{'abs' if out_abs else 'rel'} output]"

    def setup(self, ex):
        IN, _ = make_input("in", True, True, False)
        OUTD = Opaque("OUT", "path", absolute=self.out_abs)
        OUT = PathVal([("dir", OUTD), ("name", Opaque("outname", "name"))], self.out_abs, False)
        fname = ("name", Opaque("Cell_D_x", "name"))
        frame = SITES[self.key]["frame"](ex, IN, OUT, fname)
        return {"frame": frame, "OUT": OUT, "fname": fname}

    def post(self, ex, inp, out):
        ctx = ex.ctx
        ctx.oblige("raises-nothing", out.kind == "ret", "P", note=str(out.exc))
        if out.kind != "ret":
            return
        cfg = SITES[self.key]
        v = out.value.get(cfg["var"])
        ctx.structure("post.fragment-defines-the-path", v is not None)
        if v is None:
            return
        p = to_path(ex, v)
        OUT = inp["OUT"]
        root = OUT if OUT.absolute else None
        if root is None:
            # relative output: the code either anchors it at os.getcwd() or leaves it relative (same directory)
            from pyvc.libos import os_getcwd, join2
            root = join2(ex, os_getcwd(ex, [], {}), OUT) if p.absolute else OUT
        ctx.oblige("frame.inside-the-requested-output", is_inside(ex, p, root) is True, "P", note=f"{p!r} under {root!r}")
        tail = cfg.get("tail", [])
        exp_tail = [inp["fname"] if t == "@file" else t for t in tail]
        got = p.parts[-len(exp_tail):] if exp_tail else []
        ctx.oblige("frame.keeps-level-directory-and-file-name",
                   len(got) == len(exp_tail) and all(b == "@any" or comp_eq(ex, a, b) is True for a, b in zip(got, exp_tail)), "P", note=repr(p))


def rec_pck(cls, IN, OUT=None, **kw):
    return Record(cls, pfile=IN, outdir=OUT, cell_paths=["Level_0", "Level_1"], **kw)


def in_file(IN, fname):
    return PathVal(IN.parts + ["Level_1", fname], IN.absolute, False)


SITES = {
    "colander.binary": {"qual": "amr_kitchen.colander.colander.Colander.strain", "first": "bfile_r", "var": "bfile_w",
                        "frame": lambda ex, IN, OUT, f: {"self": rec_pck("amr_kitchen.colander.colander.Colander", IN, OUT), "bfile_r": in_file(IN, f), "lv": 1},
                        "tail": ["Level_1", "@file"]},
    "colander.cell_header": {"qual": "amr_kitchen.colander.colander.Colander.update_cell_header", "first": "cell_header_w", "var": "cell_header_w",
                             "frame": lambda ex, IN, OUT, f: {"self": rec_pck("amr_kitchen.colander.colander.Colander", IN, OUT), "lv": 1},
                             "tail": ["Level_1", "Cell_H"]},
    "colander.header": {"qual": "amr_kitchen.colander.colander.Colander.write_strained_global_header", "first": "hfile_path", "var": "hfile_path",
                        "frame": lambda ex, IN, OUT, f: {"self": rec_pck("amr_kitchen.colander.colander.Colander", IN, OUT)}, "tail": ["Header"]},
    "combine.binary(byfile)": {"qual": "amr_kitchen.plotfile_cooker.PlotfileCooker.by_binfile_output", "first": "bfile_r1", "var": "bfile_w",
                               "frame": lambda ex, IN, OUT, f: {"self": rec_pck("amr_kitchen.plotfile_cooker.PlotfileCooker", IN), "bf1": in_file(IN, f),
                                                                "bf2": in_file(IN, f), "pltout": OUT, "lv": 1}, "tail": ["Level_1", "@file"]},
    "combine.binary(bybox)": {"qual": "amr_kitchen.plotfile_cooker.PlotfileCooker.by_matched_offsets_output", "first": "bfile_r1", "var": "bfile_w",
                              "frame": lambda ex, IN, OUT, f: {"self": rec_pck("amr_kitchen.plotfile_cooker.PlotfileCooker", IN), "bf1": in_file(IN, f),
                                                               "bfiles_2": [], "pltout": OUT, "lv": 1}, "tail": ["Level_1", "@file"]},
    "combine.cell_header": {"qual": "amr_kitchen.combine.combine.rewrite_level_header", "first": "cell_header_w", "var": "cell_header_w",
                            "frame": lambda ex, IN, OUT, f: {"pck1": rec_pck("amr_kitchen.plotfile_cooker.PlotfileCooker", IN), "pltout": OUT, "lv": 1},
                            "tail": ["Level_1", "Cell_H"]},
    "combine.header": {"qual": "amr_kitchen.plotfile_cooker.PlotfileCooker.write_global_header_new_fields", "first": "hfile_path", "var": "hfile_path",
                       "frame": lambda ex, IN, OUT, f: {"self": rec_pck("amr_kitchen.plotfile_cooker.PlotfileCooker", IN), "plt_path": OUT}, "tail": ["Header"]},
    "chef.binary": {"qual": "amr_kitchen.chef.chef.Chef.cook", "first": "newbfpath", "var": "newbfpath",
                    "frame": lambda ex, IN, OUT, f: {"self": rec_pck("amr_kitchen.chef.chef.Chef", IN, OUT), "bfpath": in_file(IN, f), "lv": 1},
                    "tail": ["Level_1", "@file"]},
    "chef.cell_header": {"qual": "amr_kitchen.chef.chef.Chef.update_cell_header", "first": "cell_header_w", "var": "cell_header_w",
                         "frame": lambda ex, IN, OUT, f: {"self": rec_pck("amr_kitchen.chef.chef.Chef", IN, OUT), "lv": 1}, "tail": ["Level_1", "Cell_H"]},
    "chef.header": {"qual": "amr_kitchen.chef.chef.Chef.write_global_header", "first": "hfile_path", "var": "hfile_path",
                    "frame": lambda ex, IN, OUT, f: {"self": rec_pck("amr_kitchen.chef.chef.Chef", IN, OUT)}, "tail": ["Header"]},
    "chk2plt.binary": {"qual": "amr_kitchen.chk2plt.chk2plt.chk2plt.convert", "first": "bin_path_plt", "var": "bin_path_plt",
                       "frame": lambda ex, IN, OUT, f: {"self": Record("amr_kitchen.chk2plt.chk2plt.chk2plt", chkdir=IN, pltdir=OUT),
                                                        "lv_plt_root": PathVal(OUT.parts + ["Level_1"], OUT.absolute, False),
                                                        "state_bin": PathVal([("fun", "state_file")], False, False), "level": 1},
                       "tail": ["Level_1", "@any"]},
}


def path_tasks(prop):
    out = []
    for tool in TOOLS:
        for f in FORMS:
            out.append(DefaultOut(tool, f))
    for key in SITES:
        for a in (False, True):
            out.append(WriteSite(key, a))
    return out


def path_canaries():
    return [("chef default computed on the unnormalised path",
             [("amr_kitchen/chef/chef.py", 'self.outdir = os.path.normpath(plotfile) + "_ck"', 'self.outdir = plotfile + "_ck"')],
             ["default-output[chef,rel+slash]"]),
            ("colander binary written next to the input file",
             [("amr_kitchen/colander/colander.py", "bfile_w = os.path.join(os.getcwd(),self.outdir,", "bfile_w = os.path.join(os.getcwd(),self.pfile,")],
             ["write-site[colander.binary,rel output]"])]


# ---------------------------------------------------------------------------------------------------------------------
# an I/O fault at any write-class call of a worker leaves it as an exception (exceptional postcondition; loop bodies
# are executed for an arbitrary iteration, so this covers every crash point of the run)


def with_fault(task_cls, *args):
    class Faulty(task_cls):
        def setup(self, ex):
            inp = task_cls.setup(self, ex)

            def hook(ex_, kind, path):
                g = ex_.ctx.ghost
                if g.get("fault_done"):
                    return
                if ex_.ctx.choose(2) == 1:
                    g["fault_done"] = (kind, str(path))
                    raise SymRaise("OSError", f"injected fault at {kind}")
            ex.ctx.ghost["fault_hook"] = hook
            return inp

        def post(self, ex, inp, out):
            done = ex.ctx.ghost.get("fault_done")
            if done:
                ex.ctx.oblige(f"fault-at-{done[0]}-is-not-swallowed", out.kind == "exc" and out.exc.etype == "OSError", "P",
                              note=str(out.value if out.kind == "ret" else out.exc))
            else:
                ex.ctx.oblige("no-fault-run-returns", out.kind == "ret", "X")
    t = Faulty(*args)
    t.prop = "C13"
    t.name = "fault-propagation:" + t.name
    return t


_orig_path_tasks = path_tasks


def path_tasks(prop):      # noqa: F811
    from props.C05 import StrainWorker
    from props.combine_kernels import ByBoxes, ByBinfile
    from props.chef_kernels import UserPfileKnife
    from props.chk_kernels import ChkWorker
    out = _orig_path_tasks(prop)
    out += [with_fault(StrainWorker, 3), with_fault(StrainWorker, 2), with_fault(ByBoxes), with_fault(ByBinfile),
            with_fault(UserPfileKnife, True), with_fault(ChkWorker, True, True, False)]
    return out


_orig_canaries = path_canaries


def path_canaries():       # noqa: F811
    return _orig_canaries() + [
        ("strain worker swallows a failed write",
         [("amr_kitchen/colander/colander.py",
           "            arr_bytes = arr_out.flatten(order=\"F\").tobytes()\n            bfw.write(arr_bytes)\n    return offsets\n\n\ndef parallel_strain_2d",
           "            arr_bytes = arr_out.flatten(order=\"F\").tobytes()\n            try:\n                bfw.write(arr_bytes)\n            except OSError:\n                pass\n    return offsets\n\n\ndef parallel_strain_2d")],
         ["fault-propagation:parallel_strain_3d"])]
