def path_tasks(prop):
    return []
def path_canaries():
    return []
