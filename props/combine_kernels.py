"""combine workers under contract (C06): each with the layout precondition under which it is correct (derived from its
body), and the postcondition 'every box gets hdrline(range, n1+n2) followed by the selected components of the first
source then of the second source, F order'."""
import z3
from pyvc.vals import *  # noqa
from pyvc.task import Task
from pyvc.vc import veq
from pyvc.loops import LoopSpec, Any
from pyvc.libfile import RFile, WFile, f_size, hdrlen, f_exists
from contracts.common import sym_path, Fab, fab_facts, size_of
from contracts.ondisk import DiskFile

CB = "amr_kitchen.combine.combine."
I = z3.IntSort()


def selection(ctx, name, nc):
    nk = z3.Int(f"nk_{name}")
    K = z3.Function(f"K_{name}", I, I)
    t = z3.Int("t_")
    ctx.assume(nk >= 0)
    ctx.assume(z3.ForAll([t], z3.Implies(z3.And(t >= 0, t < nk), z3.And(K(t) >= 0, K(t) < nc))))
    return nk, K, SymSeq(nk, lambda i: K(to_z3(i)), "list")


def record(fb1, fb2, nk1, K1, nk2, K2):
    a1 = NDArray(list(fb1.shape) + [nk1], lambda ix: fb1.value(ix[:-1], K1(to_z3(ix[-1]))))
    a2 = NDArray(list(fb2.shape) + [nk2], lambda ix: fb2.value(ix[:-1], K2(to_z3(ix[-1]))))
    return [("hdr", (tuple(fb1.lo), tuple(fb1.hi), nk1 + nk2), None), ("ser", a1, "F"), ("ser", a2, "F")]


class ByBinfile(Task):
    """parallel_combine_by_binfile: both files are scanned sequentially and the j-th FABs are paired.  Precondition
    (the layout relation 'byfile' mode needs): both files are OnDisk with the same number of FABs and the j-th FABs have
    the same index range."""
    prop = "C06"
    reach = "U"
    qual = CB + "parallel_combine_by_binfile"

    def __init__(self):
        self.name = "parallel_combine_by_binfile"

    def setup(self, ex):
        ctx = ex.ctx
        ctx.ghost["ndims"] = 3
        d1 = DiskFile(ctx, "F1", 3, canonical=False)
        d2 = DiskFile(ctx, "F2", 3, canonical=False)
        pw, Fw = sym_path(ctx, "Fw", exists=False)
        ctx.assume(z3.And(Fw != d1.F, Fw != d2.F, d1.m == d2.m))
        nk1, K1, v1 = selection(ctx, "1", d1.nc)
        nk2, K2, v2 = selection(ctx, "2", d2.nc)
        OUT = z3.Function("OUTPOS", I, I)
        ctx.assume(OUT(0) == 0)

        def facts(j):
            j = to_z3(j)
            f1, f2 = d1.fab(j), d2.fab(j)
            same = z3.And(*[f1.lo[d] == f2.lo[d] for d in range(3)], *[f1.hi[d] == f2.hi[d] for d in range(3)])
            return z3.And(d1.facts(j), d2.facts(j),
                          z3.Implies(z3.And(j >= 0, j < d1.m),
                                     z3.And(same, OUT(j + 1) == OUT(j) + hdrlen(f1.lo, f1.hi, nk1 + nk2)
                                            + 8 * size_of(ctx, list(f1.shape) + [nk1]) + 8 * size_of(ctx, list(f2.shape) + [nk2]))))

        def rec(j):
            return record(d1.fab(j), d2.fab(j), nk1, K1, nk2, K2)

        def wtemplate(k):
            wf = WFile(pw, Fw)
            wf.nrec, wf.rec, wf.recstart, wf.rec_size = k, rec, (lambda j: OUT(to_z3(j))), 3
            wf.pos = OUT(to_z3(k))
            return wf

        def template(ex_, fr, k, entry):
            k3 = to_z3(k)
            b1, b2 = RFile(d1.path, d1.F), RFile(d2.path, d2.F)
            b1.pos, b2.pos = d1.P(k3), d2.P(k3)
            return {"offsets": SymSeq(k, lambda j: OUT(to_z3(j))), "bf1": b1, "bf2": b2, "bfw": wtemplate(k),
                    "__assume__": [z3.And(k3 >= 0, k3 <= d1.m), facts(k3)],
                    "__assert__": [("in-range", k3 <= d1.m)]}
        self.loopspecs = {(self.qual, 0): LoopSpec(template)}
        args = {"bfile_r1": d1.path, "bfile_r2": d2.path, "bfile_w": pw, "vidxs1": v1, "vidxs2": v2}
        return {"args": [args], "m": d1.m, "OUT": OUT, "wtemplate": wtemplate, "Fw": Fw}

    def post(self, ex, inp, out):
        common_post(ex, inp, out, {"<path:F1>", "<path:F2>"})


def common_post(ex, inp, out, may_read):
    ctx = ex.ctx
    ctx.oblige("raises-nothing", out.kind == "ret", "P", note=str(out.exc) if out.kind != "ret" else "")
    if out.kind != "ret":
        return
    m, OUT = inp["m"], inp["OUT"]
    ctx.oblige("post.offsets", veq(ctx, out.value, SymSeq(m, lambda j: OUT(to_z3(j)))), "P")
    wfs = ctx.ghost.get("wfiles", [])
    ctx.oblige("frame.writes-only-output", len(wfs) == 1 and wfs[0].F is inp["Fw"], "P")
    if len(wfs) == 1:
        exp = inp["wtemplate"](m)
        exp.closed = True
        ctx.oblige("post.output-file-content", veq(ctx, wfs[0], exp), "P")
    reads = {str(e[1]) for e in ctx.events if e[0] == "open-r"}
    if may_read is not None:
        ctx.oblige("frame.reads-only-inputs", reads <= may_read, "P", note=str(reads))


class ByBoxes(Task):
    """parallel_combine_by_boxes_offsets ('bybox' mode): box j of the task is read at its recorded offset in the first
    file and at its recorded (file, offset) in the second plotfile.  Precondition: a FAB of the same index range sits at
    both recorded places (what 'same box structure' + box-order pairing give)."""
    prop = "C06"
    reach = "U"
    qual = CB + "parallel_combine_by_boxes_offsets"

    def __init__(self):
        self.name = "parallel_combine_by_boxes_offsets"

    def setup(self, ex):
        ctx = ex.ctx
        ctx.ghost["ndims"] = 3
        p1, F1 = sym_path(ctx, "F1")
        pw, Fw = sym_path(ctx, "Fw", exists=False)
        ctx.assume(Fw != F1)
        m, nc1, nc2 = z3.Ints("m nc1 nc2")
        ctx.assume(z3.And(m >= 0, nc1 >= 1, nc2 >= 1))
        OFF1, OFF2, FID2 = (z3.Function(n, I, I) for n in ("OFF1", "OFF2", "FID2"))
        nk1, K1, v1 = selection(ctx, "1", nc1)
        nk2, K2, v2 = selection(ctx, "2", nc2)
        OUT = z3.Function("OUTPOS", I, I)
        ctx.assume(OUT(0) == 0)

        def fabs(j):
            j = to_z3(j)
            return Fab(ctx, F1, OFF1(j), 3, nc1), Fab(ctx, FID2(j), OFF2(j), 3, nc2)

        def facts(j):
            j = to_z3(j)
            f1, f2 = fabs(j)
            same = z3.And(*[f1.lo[d] == f2.lo[d] for d in range(3)], *[f1.hi[d] == f2.hi[d] for d in range(3)])
            return z3.Implies(z3.And(j >= 0, j < m), z3.And(
                *[to_z3(f) for f in fab_facts(f1, False)], *[to_z3(f) for f in fab_facts(f2, False)], same,
                f_exists(FID2(j)), FID2(j) != Fw, f_size(FID2(j)) >= 0,
                OUT(j + 1) == OUT(j) + hdrlen(f1.lo, f1.hi, nk1 + nk2) + 8 * size_of(ctx, list(f1.shape) + [nk1])
                + 8 * size_of(ctx, list(f2.shape) + [nk2])))

        def path2(j):
            o = Opaque("F2_of_box", "path")
            o.sym = FID2(to_z3(j))
            return o

        def rec(j):
            f1, f2 = fabs(j)
            return record(f1, f2, nk1, K1, nk2, K2)

        def wtemplate(k):
            wf = WFile(pw, Fw)
            wf.nrec, wf.rec, wf.recstart, wf.rec_size = k, rec, (lambda j: OUT(to_z3(j))), 3
            wf.pos = OUT(to_z3(k))
            return wf

        def anyr(c):
            r = RFile(p1, F1)
            r.pos = c.fresh("rpos")
            c.add_pc(r.pos >= 0)
            return r

        def template(ex_, fr, k, entry):
            return {"offsets": SymSeq(k, lambda j: OUT(to_z3(j))), "bf1": Any(anyr), "bfw": wtemplate(k),
                    "__assume__": [facts(k)]}
        self.loopspecs = {(self.qual, 0): LoopSpec(template)}
        args = {"bfile_r1": p1, "offst_r1": SymSeq(m, lambda j: OFF1(to_z3(j)), "ndarray"),
                "bfile_r2": SymSeq(m, path2, "list"), "offst_r2": SymSeq(m, lambda j: OFF2(to_z3(j)), "ndarray"),
                "bfile_w": pw, "vidxs1": v1, "vidxs2": v2}
        return {"args": [args], "m": m, "OUT": OUT, "wtemplate": wtemplate, "Fw": Fw}

    def post(self, ex, inp, out):
        common_post(ex, inp, out, None)


def combine_tasks(prop):
    return [ByBinfile(), ByBoxes()]


def combine_canaries():
    f = "amr_kitchen/combine/combine.py"
    return [("bybox worker: first plotfile read sequentially again",
             [(f, "                bf1.seek(offset1)\n", "")], ["parallel_combine_by_boxes_offsets"]),
            ("byfile worker: offset recorded after the header is written",
             [(f, "                    # save the current offset\n                    offsets.append(bfw.tell())\n                    # Write the header and data\n                    bfw.write(hw)\n                    data1 = np.fromfile(bf1, 'float64', np.prod(shape1))\n                    data1 = data1.reshape(shape1, order='F')[..., args['vidxs1']]\n                    data2 = np.fromfile(bf2, 'float64', np.prod(shape2))\n                    data2 = data2.reshape(shape2, order='F')[..., args['vidxs2']]\n                    dataw = np.concatenate([data1.flatten(order='F'),\n                                            data2.flatten(order='F')])\n                    bfw.write(dataw.tobytes())\n    return offsets\n\ndef parallel_combine_by_binfile_offsets",
               "                    # Write the header and data\n                    bfw.write(hw)\n                    # save the current offset\n                    offsets.append(bfw.tell())\n                    data1 = np.fromfile(bf1, 'float64', np.prod(shape1))\n                    data1 = data1.reshape(shape1, order='F')[..., args['vidxs1']]\n                    data2 = np.fromfile(bf2, 'float64', np.prod(shape2))\n                    data2 = data2.reshape(shape2, order='F')[..., args['vidxs2']]\n                    dataw = np.concatenate([data1.flatten(order='F'),\n                                            data2.flatten(order='F')])\n                    bfw.write(dataw.tobytes())\n    return offsets\n\ndef parallel_combine_by_binfile_offsets")],
             ["parallel_combine_by_binfile"])]
