def combine_tasks(prop):
    return []
def combine_canaries():
    return []
